"""C29 — array-object structural operations keep data and metadata aligned (abtem/array.py)."""
from __future__ import annotations

import ast

from ..cfg import CFG, DataFlow
from ..model import AnalysisError, call_name, dotted, norm_text, walk_no_nested
from ..rules import twins

ARR = "abtem.array"
COMMUTATIVE = {"add", "mul", "and", "or", "xor"}


def _stmt_of(func: ast.FunctionDef, node: ast.AST) -> ast.stmt:
    best = None
    for st in ast.walk(func):
        if isinstance(st, ast.stmt) and not isinstance(st, (ast.FunctionDef, ast.If, ast.For, ast.While, ast.With,
                                                           ast.Try)):
            if any(n is node for n in ast.walk(st)):
                best = st
    if best is None:
        raise AnalysisError("statement not found")
    return best


def run(ctx) -> None:
    repo = ctx.repo
    ctx.rule("R-REFLECT", "a reflected operator dunder (__rX__) may be a class-level alias of the forward dunder only "
             "for a commutative operator (add, mul, and, or, xor): `2 / x` is not `x / 2`")
    ctx.rule("R-DUNDERNAME", "every operator dunder implemented as self._arithmetic(other, \"<name>\") / "
             "self._in_place_arithmetic(other, \"<name>\") passes its own name, so that `a - b` really dispatches "
             "to ndarray.__sub__")
    ctx.rule("R-BASEGUARD", "_reduction reaches its reduction calls only after `if self._is_base_axis(axes): raise` on "
             "the normalised axes; get_items indexes the array only with items validated against ensemble_shape; "
             "squeeze only considers the ensemble part of the shape")
    ctx.rule("R-CTORCHAIN", "every concrete ArrayObject subclass executes ArrayObject.__init__, which calls "
             "_check_axes_metadata (one metadata entry per array dimension)")
    ctx.rule("R-LOCKSTEP", "each structural operation edits the axis-metadata list with the same axis expression it "
             "passes to the array operation (_stack, expand_dims, squeeze, _reduction, swapaxes, moveaxis, concatenate)")
    ctx.rule("R-TWIN", "lazy and eager arms of the structural operations call the same array function with the same "
             "arguments (see sa/rules/twins.py)")
    ctx.rule("R-AXISNORM", "squeeze and _reduction interpret a negative user axis like NumPy does, against the *full* "
             "array: every normalisation of the axis argument (normalize_axes(axis, S) or the idiom `a if a >= 0 else "
             "len(S) + a`) uses S == self.shape / self.array.shape, never the ensemble part only — otherwise "
             "squeeze((-1,)) addresses an ensemble axis although -1 is a base axis")
    ctx.rule("R-ITEMMETA", "indexing carries the metadata of the selected items into the *new* object only: "
             "_get_ensemble_axes_metadata_items / get_items never write the receiver's metadata, array or axes list "
             "(directly or through a local alias), and the metadata dict they return depends on "
             "axis.item_metadata(item, ...) of every integer-indexed axis")
    ctx.undecided("that numpy/dask implement stack/concatenate/moveaxis identically; value equality with NumPy")

    ao = repo.cls(ARR, "ArrayObject")

    # ---------------- R-REFLECT
    def alias_findings(class_attrs):
        out = []
        for name, val in class_attrs.items():
            if name.startswith("__r") and name.endswith("__") and isinstance(val, ast.Name) and \
                    val.id.startswith("__") and name not in ("__repr__", "__reduce__", "__reversed__", "__round__"):
                op, fwd = name[3:-2], val.id[2:-2]
                out.append((name, val.id, op, fwd, op == fwd and op in COMMUTATIVE))
        return out

    # positive control: the rule must recognise a bad alias on every run
    control = ast.parse("class K:\n    __rtruediv__ = __truediv__\n    __rmul__ = __mul__").body[0]
    cattrs = {t.id: st.value for st in control.body if isinstance(st, ast.Assign) for t in st.targets}
    cres = alias_findings(cattrs)
    ctx.require([r[4] for r in cres] == [False, True], "R-REFLECT positive control failed")
    n_cls = 0
    for c in repo.all_classes():
        if c.name != "ArrayObject" and not c.is_subclass_of("ArrayObject"):
            continue
        n_cls += 1
        res = alias_findings(c.class_attrs)
        for name, fwdname, op, fwd, ok in res:
            ctx.check(ok, "R-REFLECT", f"{c.qualname}.{name}", c.where,
                      f"{name} = {fwdname} (commutative)",
                      f"`{name} = {fwdname}`: the reflected operator reuses the forward implementation of a "
                      f"non-commutative operator, so `k {_sym(op)} obj` computes `obj {_sym(fwd)} k`",
                      key_detail="")
        # reflected dunders written as defs must not delegate to the forward dunder either
        for name, defs in c.methods.items():
            if name.startswith("__r") and name.endswith("__") and name[3:-2] in (
                    "truediv", "sub", "floordiv", "pow", "mod", "matmul", "lshift", "rshift"):
                for f in defs:
                    fwdname = "__" + name[3:]
                    delegates = any(isinstance(x, ast.Call) and call_name(x) in (f"self.{fwdname}",)
                                    for x in walk_no_nested(f.node))
                    ctx.check(not delegates, "R-REFLECT", f"{f.qualname}", f.where,
                              f"{name} has its own implementation",
                              f"{name} delegates to {fwdname}: `k {_sym(name[3:-2])} obj` computes `obj {_sym(name[3:-2])} k`",
                              key_detail="delegate")
    ctx.ok("R-REFLECT", f"{ARR}:scan", ao.where, f"{n_cls} array-object classes scanned for reflected-operator aliases")

    # ---------------- R-DUNDERNAME
    n_d = 0
    for name, defs in ao.methods.items():
        if not (name.startswith("__") and name.endswith("__")):
            continue
        for f in defs:
            for c in walk_no_nested(f.node):
                if isinstance(c, ast.Call) and call_name(c) in ("self._arithmetic", "self._in_place_arithmetic") \
                        and len(c.args) == 2 and isinstance(c.args[1], ast.Constant):
                    n_d += 1
                    ctx.check(c.args[1].value == name, "R-DUNDERNAME", f"{f.qualname}", f.loc(c),
                              f"dispatches to ndarray.{name}",
                              f"{name} dispatches to ndarray.{c.args[1].value}", key_detail="")
    ctx.require(n_d >= 8, f"R-DUNDERNAME matched only {n_d} dunders")

    # ---------------- R-BASEGUARD
    red = repo.method(ARR, "ArrayObject", "_reduction")
    cfg = CFG(red.node)
    df = DataFlow(red.node)
    guards = []
    for n in cfg.nodes:
        if n.kind == "test" and isinstance(n.ast, ast.If) and any(isinstance(s, ast.Raise) for s in n.ast.body):
            t = n.ast.test
            alts = t.values if isinstance(t, ast.BoolOp) and isinstance(t.op, ast.Or) else [t]
            if any(isinstance(a, ast.Call) and call_name(a) == "self._is_base_axis" for a in alts):
                guards.append(n)
    reds = []
    for n in cfg.nodes:
        if n.ast is None or n.kind != "stmt":
            continue
        for c in walk_no_nested(n.ast):
            if isinstance(c, ast.Call) and isinstance(c.func, ast.Call) and call_name(c.func) == "getattr" and \
                    len(c.args) >= 2:
                reds.append((n, c))
    ctx.require(len(reds) >= 2, "_reduction: axis reductions not found")
    ctx.require(len(guards) <= 1, "_reduction: several base-axis guards")
    if not guards:
        for n, c in reds:
            ctx.violation("R-BASEGUARD", f"{red.qualname}:{norm_text(c)[:50]}", red.loc(c),
                          "no unconditional `if self._is_base_axis(axes): raise` guard exists in _reduction: base axes "
                          "can be reduced", key_detail="guard")
    else:
        g = guards[0]
        gcall = [c for c in ast.walk(g.ast.test) if isinstance(c, ast.Call) and call_name(c) == "self._is_base_axis"][0]
        for n, c in reds:
            dom = cfg.dominates(g.idx, n.idx)
            same_axes = norm_text(c.args[1]) == norm_text(gcall.args[0])
            # the guarded value and the reduced value must be the same definition
            same_def = {d.node for d in df.reaching(g.idx, norm_text(gcall.args[0]))} == {
                d.node for d in df.reaching(n.idx, norm_text(c.args[1]))}
            ctx.check(dom and same_axes and same_def, "R-BASEGUARD", f"{red.qualname}:{norm_text(c)[:50]}", red.loc(c),
                      "reduction over axes that passed the base-axis guard",
                      f"`{norm_text(c)[:70]}` is reachable without passing `if self._is_base_axis("
                      f"{norm_text(gcall.args[0])}): raise` on the same axes value: a base axis can be reduced",
                      key_detail="guard")
        # negative axes are normalised before the guard
        rd = df.reaching(g.idx, norm_text(gcall.args[0]))
        normalised = any(d.value is not None and "len(self.shape)" in norm_text(d.value) for d in rd)
        ctx.check(normalised, "R-BASEGUARD", f"{red.qualname}:normalised-axes", red.loc(g.ast),
                  "guard sees axes normalised to non-negative indices",
                  "the base-axis guard is applied before negative axes are normalised (axis=-1 would slip through)",
                  key_detail="norm")

    gi = repo.method(ARR, "ArrayObject", "get_items")
    dfg = DataFlow(gi.node)
    idxs = [s for s in walk_no_nested(gi.node) if isinstance(s, ast.Subscript) and dotted(s.value) in (
        "self._array", "self.array") and isinstance(s.ctx, ast.Load)]
    ctx.require(len(idxs) >= 1, "get_items: array indexing not found")
    for s in idxs:
        st = _stmt_of(gi.node, s)
        rdefs = dfg.reaching(dfg.cfg.node_of(st).idx, norm_text(s.slice)) if isinstance(s.slice, ast.Name) else []
        ok = bool(rdefs) and all(
            isinstance(d.value, ast.Call) and call_name(d.value) == "_validate_array_items" and any(
                k.arg == "shape" and norm_text(k.value) == "self.ensemble_shape" for k in d.value.keywords)
            or (isinstance(d.value, ast.Call) and call_name(d.value) == "_validate_array_items"
                and len(d.value.args) >= 2 and norm_text(d.value.args[1]) == "self.ensemble_shape")
            for d in rdefs)
        ctx.check(ok, "R-BASEGUARD", f"{gi.qualname}:{norm_text(s)}", gi.loc(s),
                  "array indexed with items validated against ensemble_shape",
                  f"`{norm_text(s)}` indexes the array with items that were not validated against ensemble_shape "
                  "(base axes can be indexed)", key_detail="items")
    sq = repo.method(ARR, "ArrayObject", "squeeze")
    # the shape examined for length-one axes: the iterable of the enumerate() inside the `squeezed` computation
    shp = []
    for c in walk_no_nested(sq.node):
        if isinstance(c, ast.Call) and call_name(c) == "enumerate" and c.args and isinstance(c.args[0], ast.Name):
            defs = [st for st in walk_no_nested(sq.node) if isinstance(st, ast.Assign) and isinstance(
                st.targets[0], ast.Name) and st.targets[0].id == c.args[0].id]
            if len(defs) == 1 and "shape" in norm_text(defs[0].value):
                shp = defs
    ok = len(shp) == 1 and norm_text(shp[0].value).replace(" ", "") in (
        "self.shape[:-len(self.base_shape)]", "self.ensemble_shape")
    ctx.check(ok, "R-BASEGUARD", f"{sq.qualname}:ensemble-only", sq.where,
              "squeeze considers only the ensemble part of the shape",
              f"squeeze examines `{norm_text(shp[0].value) if shp else '?'}`: base axes of length one can be squeezed",
              key_detail="squeeze")

    # ---------------- R-CTORCHAIN
    init = ao.own_method("__init__")
    ctx.require(init is not None, "ArrayObject.__init__ not found")
    ok = any(isinstance(c, ast.Call) and call_name(c) == "self._check_axes_metadata" for c in walk_no_nested(init.node))
    ctx.check(ok, "R-CTORCHAIN", f"{init.qualname}:check", init.where, "constructor validates the axes metadata",
              "ArrayObject.__init__ no longer calls _check_axes_metadata", key_detail="check")
    chk = ao.own_method("_check_axes_metadata")
    ctx.require(chk is not None, "_check_axes_metadata not found")
    tests = [i for i in walk_no_nested(chk.node) if isinstance(i, ast.If) and any(isinstance(s, ast.Raise) for s in i.body)]
    t0 = [norm_text(i.test).replace(" ", "") for i in tests]
    ok = any(t in ("len(self.shape)!=len(self.axes_metadata)", "len(self.axes_metadata)!=len(self.shape)") for t in t0)
    ctx.check(ok, "R-CTORCHAIN", f"{chk.qualname}:dimension-count", chk.where,
              "raises unless there is one metadata entry per dimension",
              f"_check_axes_metadata tests {t0}: a dimension/metadata count mismatch is not rejected", key_detail="count")
    subs = [c for c in repo.subclasses(ao) if not c.is_abstract()]
    ctx.require(len(subs) >= 12, f"only {len(subs)} concrete ArrayObject subclasses found")
    for c in subs:
        chain = repo.init_chain(c)
        ctx.check(init in chain, "R-CTORCHAIN", c.qualname, c.where,
                  "constructor chain reaches ArrayObject.__init__",
                  f"{c.name}'s constructor chain ({' -> '.join(f.cls.name for f in chain if f.cls)}) never runs "
                  "ArrayObject.__init__: the axes metadata of such objects is never checked against the array",
                  key_detail="")

    # ---------------- R-LOCKSTEP
    def kwarg(call, name, pos=None):
        for k in call.keywords:
            if k.arg == name:
                return k.value
        if pos is not None and len(call.args) > pos:
            return call.args[pos]
        return None

    # _stack
    st = repo.method(ARR, "ArrayObject", "_stack")
    stacks = [c for c in walk_no_nested(st.node) if isinstance(c, ast.Call) and (call_name(c) or "").endswith(".stack")]
    inserts = [c for c in walk_no_nested(st.node) if isinstance(c, ast.Call) and isinstance(c.func, ast.Attribute)
               and c.func.attr == "insert"]
    ctx.require(len(stacks) == 2 and len(inserts) == 1, "_stack: stack/insert calls not found")
    def axis_text(c):
        a = kwarg(c, "axis", 1)
        return "0 (the default of stack: no axis is passed)" if a is None else norm_text(a)

    axes_used = {axis_text(c) for c in stacks} | {norm_text(inserts[0].args[0])}
    ctx.check(len(axes_used) == 1, "R-LOCKSTEP", st.qualname, st.where, f"array and metadata use axis `{axes_used}`",
              f"array stacked along {sorted(axis_text(c) for c in stacks)} but metadata inserted at "
              f"{norm_text(inserts[0].args[0])}", key_detail="")
    ok = norm_text(inserts[0].args[1]) == st.positional_params[2]
    ctx.check(ok, "R-LOCKSTEP", f"{st.qualname}:inserted-metadata", st.loc(inserts[0]),
              "the new axis gets the supplied axis metadata", "the inserted entry is not the supplied axis metadata",
              key_detail="entry")
    # expand_dims
    ed = repo.method(ARR, "ArrayObject", "expand_dims")
    ecall = [c for c in walk_no_nested(ed.node) if isinstance(c, ast.Call) and call_name(c) == "_expand_dims"]
    eins = [l for l in walk_no_nested(ed.node) if isinstance(l, ast.For) and any(
        isinstance(c, ast.Call) and isinstance(c.func, ast.Attribute) and c.func.attr == "insert" for c in ast.walk(l))]
    ctx.require(len(ecall) == 1 and len(eins) == 1, "expand_dims: array/metadata operations not found")
    ax = norm_text(kwarg(ecall[0], "axis", 1))
    it = eins[0].iter
    okz = isinstance(it, ast.Call) and call_name(it) == "zip" and norm_text(it.args[0]) == ax
    insc = [c for c in ast.walk(eins[0]) if isinstance(c, ast.Call) and isinstance(c.func, ast.Attribute)
            and c.func.attr == "insert"][0]
    okz = okz and isinstance(eins[0].target, ast.Tuple) and norm_text(insc.args[0]) == eins[0].target.elts[0].id \
        and norm_text(insc.args[1]) == eins[0].target.elts[1].id
    dfe = DataFlow(ed.node)
    same = {d.node for d in dfe.reaching(dfe.cfg.node_of(_stmt_of(ed.node, ecall[0])).idx, ax)} == {
        d.node for d in dfe.reaching(dfe.cfg.node_of(eins[0]).idx, ax)}
    ctx.check(okz and same, "R-LOCKSTEP", ed.qualname, ed.where, f"array expanded and metadata inserted at `{ax}`",
              f"array expanded along `{ax}` but metadata inserted along `{norm_text(it)}`", key_detail="")
    # squeeze
    sqc = [c for c in walk_no_nested(sq.node) if isinstance(c, ast.Call) and (call_name(c) or "").endswith(".squeeze")]
    comp = [c for c in walk_no_nested(sq.node) if isinstance(c, ast.ListComp)
            and "ensemble_axes_metadata" in norm_text(c.generators[0].iter)]
    ctx.require(len(sqc) == 1 and len(comp) == 1, "squeeze: array/metadata operations not found")
    ax = norm_text(kwarg(sqc[0], "axis", 1))
    cond = " ".join(norm_text(i) for i in comp[0].generators[0].ifs)
    tgt = comp[0].generators[0].target
    okq = isinstance(tgt, ast.Tuple) and cond.replace(" ", "") == f"{tgt.elts[0].id}notin{ax}" and \
        call_name(comp[0].generators[0].iter) == "enumerate" and isinstance(comp[0].elt, ast.Name) and \
        comp[0].elt.id == tgt.elts[1].id
    ctx.check(okq, "R-LOCKSTEP", sq.qualname, sq.where, f"array squeezed along `{ax}` and metadata dropped for `{ax}`",
              f"array squeezed along `{ax}` but metadata filtered by `{cond}`", key_detail="")
    # _reduction
    compr = [c for c in walk_no_nested(red.node) if isinstance(c, ast.ListComp) and c.generators[0].ifs]
    ctx.require(len(compr) == 1, "_reduction: metadata filter not found")
    cond = norm_text(compr[0].generators[0].ifs[0]).replace(" ", "")
    gen = compr[0].generators[0]
    red_axes = {norm_text(c.args[1]) for _, c in reds}
    # the filter variable is the loop variable that is not the kept element (which one walks over the axis numbers is
    # decided by R-PAIRROLE)
    fvars = [e.id for e in gen.target.elts if isinstance(e, ast.Name) and e.id != dotted(compr[0].elt)] \
        if isinstance(gen.target, ast.Tuple) else []
    okr = len(red_axes) == 1 and any(cond == f"{v}notin{list(red_axes)[0]}" for v in fvars)
    # the filter is applied only when the reduced axes are dropped
    in_body = [i for i in walk_no_nested(red.node) if isinstance(i, ast.If) and any(
        compr[0] is x for s in i.body for x in ast.walk(s))]
    in_else = [i for i in walk_no_nested(red.node) if isinstance(i, ast.If) and any(
        compr[0] is x for s in i.orelse for x in ast.walk(s))]
    parents = in_body or in_else
    okk = (bool(in_body) and norm_text(in_body[-1].test).replace(" ", "") == "notkeepdims") or (
        not in_body and bool(in_else) and norm_text(in_else[-1].test).replace(" ", "") == "keepdims")
    kd = {norm_text(kwarg(c, "keepdims")) for _, c in reds}
    ctx.check(okr and okk and kd == {"keepdims"}, "R-LOCKSTEP", red.qualname, red.where,
              "metadata of reduced axes dropped iff not keepdims, array reduced over the same axes with the same keepdims",
              f"array reduced over {sorted(red_axes)} (keepdims={sorted(kd)}) but metadata filtered by `{cond}` under "
              f"`{norm_text(parents[0].test) if parents else 'no condition'}`", key_detail="")
    # swapaxes
    sw = repo.function(ARR, "swapaxes")
    calls = [c for c in walk_no_nested(sw.node) if isinstance(c, ast.Call) and (call_name(c) or "").endswith(".swapaxes")]
    tup = [s for s in walk_no_nested(sw.node) if isinstance(s, ast.Assign) and isinstance(s.targets[0], ast.Tuple)
           and isinstance(s.value, ast.Tuple)]
    ctx.require(len(calls) == 2 and len(tup) == 1, "swapaxes: operations not found")
    pair = {norm_text(calls[0].args[1]), norm_text(calls[0].args[2])}
    lhs = [norm_text(t.slice) for t in tup[0].targets[0].elts]
    rhs = [norm_text(t.slice) for t in tup[0].value.elts]
    oks = set(lhs) == pair and rhs == lhs[::-1] and len(pair) == 2
    ctx.check(oks, "R-LOCKSTEP", sw.qualname, sw.where, f"array and metadata swap the same pair {sorted(pair)}",
              f"array swaps {sorted(pair)} but metadata assigns {lhs} = {rhs}", key_detail="")
    # moveaxis
    mv = repo.function(ARR, "moveaxis")
    calls = [c for c in walk_no_nested(mv.node) if isinstance(c, ast.Call) and (call_name(c) or "").endswith(".moveaxis")]
    loops = [l for l in walk_no_nested(mv.node) if isinstance(l, ast.For)]
    ctx.require(len(calls) == 2 and len(loops) == 1, "moveaxis: operations not found")
    src, dst = norm_text(calls[0].args[1]), norm_text(calls[0].args[2])
    it = loops[0].iter
    okm = isinstance(it, ast.Call) and call_name(it) == "zip" and [norm_text(a) for a in it.args] == [
        f"reversed({src})", f"reversed({dst})"]
    body = " ".join(norm_text(s) for s in loops[0].body)
    if okm and isinstance(loops[0].target, ast.Tuple):
        s_, d_ = (e.id for e in loops[0].target.elts)
        okm = f".pop({s_})" in body and f".insert({d_}, " in body
    ctx.check(okm, "R-LOCKSTEP", mv.qualname, mv.where, "metadata moved source->destination like the array",
              f"array moves {src}->{dst} but metadata loop is `for {norm_text(loops[0].target)} in {norm_text(it)}: {body[:80]}`",
              key_detail="")
    # concatenate
    cc = repo.function(ARR, "concatenate")
    calls = [c for c in walk_no_nested(cc.node) if isinstance(c, ast.Call) and (call_name(c) or "").endswith(".concatenate")
             and (dotted(c.func.value) in ("da", "xp", "np", "cp") or (dotted(c.func.value) or "").startswith("xp"))]
    ctx.require(len(calls) == 2, "concatenate: array operations not found")
    ax = {norm_text(kwarg(c, "axis", 1)) for c in calls}
    subs_ = [s for s in walk_no_nested(cc.node) if isinstance(s, ast.Subscript) and "axes_metadata" in norm_text(s.value)]
    idx = {norm_text(s.slice) for s in subs_}
    ctx.check(len(ax) == 1 and idx == ax and len(subs_) >= 3, "R-LOCKSTEP", cc.qualname, cc.where,
              f"array and metadata concatenated along `{ax}`",
              f"array concatenated along {sorted(ax)} but metadata indexed with {sorted(idx)}", key_detail="")

    # ---------------- R-AXISNORM
    FULL = ("self.shape", "self.array.shape", "self._array.shape")
    n_norm = 0
    signs = []  # (function, conditional expression, the arm that adds the rank)
    for mname in ("squeeze", "_reduction"):
        fn = repo.method(ARR, "ArrayObject", mname)
        sites = []
        for c in walk_no_nested(fn.node):
            if isinstance(c, ast.Call) and call_name(c) == "normalize_axes" and len(c.args) >= 2:
                sites.append((c, c.args[1]))
            if isinstance(c, ast.IfExp) and isinstance(c.test, ast.Compare) and isinstance(
                    c.test.ops[0], (ast.GtE, ast.Lt, ast.Gt, ast.LtE)):  # either orientation of the sign test
                for arm in (c.body, c.orelse):
                    if isinstance(arm, ast.BinOp) and isinstance(arm.op, ast.Add):
                        for side in (arm.left, arm.right):
                            if isinstance(side, ast.Call) and call_name(side) == "len" and side.args:
                                sites.append((c, side.args[0]))
                                signs.append((fn, c, arm))
        ctx.require(sites, f"{fn.qualname}: no normalisation of the axis argument found")
        for c, shape_expr in sites:
            n_norm += 1
            d = dotted(shape_expr)
            if d is None or not d.startswith("self."):
                # a local: follow its single definition
                dfn = DataFlow(fn.node)
                stn = _stmt_of(fn.node, c)
                dd = dfn.single_def(dfn.cfg.node_of(stn).idx, d) if d else None
                shown = norm_text(dd.value) if dd is not None and dd.value is not None else norm_text(shape_expr)
                good = dd is not None and dd.value is not None and dotted(dd.value) in FULL
            else:
                shown, good = d, d in FULL
            ctx.check(good, "R-AXISNORM", f"{fn.qualname}:axis normalised against the full shape", fn.loc(c),
                      f"negative axes count from the end of {shown}",
                      f"the axis argument is normalised against `{shown[:60]}`, not the full array shape: a negative axis "
                      "addresses a different dimension than in NumPy (base axes can be hit, ensemble axes missed)",
                      key_detail="axisnorm")

    # the sign test sends exactly the negative axes to the arm that adds the rank: 0 and 1 stay, -1 is shifted
    for fn_, c_, shifted in signs:
        names_ = sorted({x.id for x in ast.walk(c_.test) if isinstance(x, ast.Name)})
        bad = []
        if len(names_) == 1:
            for val, want_shift in ((0, False), (1, False), (-1, True), (-2, True)):
                try:
                    taken = c_.body if _py_eval(c_.test, {names_[0]: val}) else c_.orelse
                except AnalysisError:
                    bad = None
                    break
                if (taken is shifted) != want_shift:
                    bad.append(f"axis {val} {'is' if taken is shifted else 'is not'} shifted by the rank")
        if bad is None or len(names_) != 1:
            raise AnalysisError(f"{fn_.qualname}: cannot evaluate the sign test `{norm_text(c_.test)}` of the axis "
                                "normalisation")
        ctx.check(not bad, "R-AXISNORM", f"{fn_.qualname}:sign test of the axis normalisation", fn_.loc(c_),
                  f"`{norm_text(c_.test)}` shifts exactly the negative axes",
                  f"`{norm_text(c_)[:70]}`: " + "; ".join(bad) + " — NumPy counts negative axes from the end and leaves "
                  "0, 1, ... alone", key_detail="sign")

    # expand_dims normalises a negative axis against the *old* rank (np.expand_dims counts positions in the result):
    # confirmed on the tree (expand_dims((-2,)) on (2,3,ny,nx) gives (2,3,1,ny,nx), NumPy would address a base axis).
    # Reported as information: following NumPy would turn calls that work today into errors, which is a change of
    # behaviour rather than a minimal repair.
    ed = repo.method(ARR, "ArrayObject", "expand_dims")
    for c in walk_no_nested(ed.node):
        if isinstance(c, ast.Call) and call_name(c) == "normalize_axes" and len(c.args) >= 2:
            ctx.info("R-AXISNORM", f"{ed.qualname}:axis normalisation", ed.loc(c),
                     f"new-axis positions are normalised against `{norm_text(c.args[1])}` (the rank before expansion); "
                     "negative positions therefore differ from np.expand_dims — not decided as a violation")

    # ---------------- R-ITEMMETA
    from .c32 import receiver_writes

    gi = repo.method(ARR, "ArrayObject", "_get_ensemble_axes_metadata_items")
    for fn in (gi, repo.method(ARR, "ArrayObject", "get_items")):
        ws = receiver_writes(fn)
        ctx.check(not ws, "R-ITEMMETA", f"{fn.qualname}:receiver untouched", fn.loc(ws[0]) if ws else fn.where,
                  "no write to the indexed object's metadata / array / axes list",
                  f"`{norm_text(ws[0])[:90]}` writes the indexed object's own state: a later index operation on the "
                  "same object sees (and accumulates) the item metadata of an earlier one" if ws else "",
                  key_detail="receiver")
    rets = [r for r in walk_no_nested(gi.node) if isinstance(r, ast.Return) and r.value is not None]
    ctx.require(len(rets) == 1 and isinstance(rets[0].value, ast.Tuple) and len(rets[0].value.elts) == 2,
                f"{gi.qualname}: expected `return axes_metadata, metadata`")
    dfi = DataFlow(gi.node)
    sl = dfi.backward_slice(dfi.cfg.node_of(rets[0]).idx, rets[0].value.elts[1])
    item_calls = [c for n_ in sl.def_nodes for c in ast.walk(dfi.cfg.nodes[n_].ast)
                  if isinstance(c, ast.Call) and isinstance(c.func, ast.Attribute) and c.func.attr == "item_metadata"]
    ctx.check(bool(item_calls), "R-ITEMMETA", f"{gi.qualname}:item metadata returned", gi.loc(rets[0]),
              "returned metadata depends on axis.item_metadata(item, ...)",
              "the returned metadata does not depend on axis.item_metadata(...): the metadata of the selected items "
              "is dropped", key_detail="item-metadata")

    # ---------------- R-TWIN for array.py
    n = twins.check_package(ctx, modules={ARR})
    ctx.require(n >= 7, f"R-TWIN compared only {n} twins in abtem/array.py")


def _sym(op: str) -> str:
    return {"truediv": "/", "sub": "-", "floordiv": "//", "pow": "**", "mod": "%", "matmul": "@", "add": "+",
            "mul": "*", "lshift": "<<", "rshift": ">>"}.get(op, op)


# ======================================================================================================================
# Mutation-sweep round: accounting rules (one metadata entry per dimension after indexing), operand roles of paired
# loops, the fold over the concatenated axis, integer bounds of new-axis positions.
# ======================================================================================================================
from ..rules import listacct as la  # noqa: E402
from ..terms import FlowNormalizer, Normalizer, Poly  # noqa: E402

_SCALAR_TYPES = {"Number", "numbers.Number", "Integral", "numbers.Integral", "int", "np.integer", "numpy.integer",
                 "Real", "numbers.Real"}
_ENS_META = ("self.ensemble_axes_metadata", "self._ensemble_axes_metadata")
_SIMPLE = (ast.Assign, ast.AugAssign, ast.AnnAssign, ast.Expr, ast.Return, ast.Delete, ast.Pass, ast.Assert)


def _scalar_test(test: ast.AST):
    """`isinstance(X, <scalar number type>)` (possibly negated) -> (X, positive?)."""
    t, pos = la.strip_not(test)
    if isinstance(t, ast.Call) and dotted(t.func) == "isinstance" and len(t.args) == 2 and not t.keywords:
        ty = t.args[1]
        names = {dotted(e) for e in (ty.elts if isinstance(ty, (ast.Tuple, ast.List)) else [ty])}
        if names & _SCALAR_TYPES:
            return t.args[0], pos
    return None


def _none_test(test: ast.AST):
    """`X is None` / `X is not None` / `X == None` (possibly negated) -> (X, positive?)."""
    t, pos = la.strip_not(test)
    if isinstance(t, ast.Compare) and len(t.ops) == 1:
        a, b = t.left, t.comparators[0]
        for x, y in ((a, b), (b, a)):
            if isinstance(y, ast.Constant) and y.value is None:
                if isinstance(t.ops[0], (ast.Is, ast.Eq)):
                    return x, pos
                if isinstance(t.ops[0], (ast.IsNot, ast.NotEq)):
                    return x, not pos
    return None


def _uncopy(e: ast.AST) -> ast.AST:
    """x.copy() / copy(x) / deepcopy(x) / list(x) -> x."""
    while True:
        if isinstance(e, ast.Call) and isinstance(e.func, ast.Attribute) and e.func.attr == "copy" and not e.args \
                and dotted(e.func.value) not in ("copy",):
            e = e.func.value
        elif isinstance(e, ast.Call) and dotted(e.func) in ("copy", "deepcopy", "copy.copy", "copy.deepcopy", "list",
                                                            "tuple") and len(e.args) == 1 and not e.keywords:
            e = e.args[0]
        else:
            return e


def _per_axis_list(value: ast.AST) -> bool:
    """Is `value` a list with exactly one entry per ensemble axis, in order (copies allowed)?"""
    v = _uncopy(value)
    if dotted(v) in _ENS_META:
        return True
    if isinstance(v, ast.List) and len(v.elts) == 1 and isinstance(v.elts[0], ast.Starred):
        return dotted(_uncopy(v.elts[0].value)) in _ENS_META
    if isinstance(v, ast.ListComp) and len(v.generators) == 1:
        g = v.generators[0]
        return not g.ifs and dotted(_uncopy(g.iter)) in _ENS_META and isinstance(g.target, ast.Name) and \
            dotted(_uncopy(v.elt)) == g.target.id
    return False


def _deps(expr: ast.AST, executed) -> set[str]:
    """Names an expression depends on, through the plain assignments executed on the same path."""
    seen: set[str] = set()
    work = [n.id for n in ast.walk(expr) if isinstance(n, ast.Name)]
    while work:
        v = work.pop()
        if v in seen:
            continue
        seen.add(v)
        for st in executed:
            if isinstance(st, ast.Assign) and any(isinstance(t, ast.Name) and t.id == v for t in st.targets):
                work += [n.id for n in ast.walk(st.value) if isinstance(n, ast.Name)]
    return seen


def _item_accounting(ctx, repo) -> None:
    f = repo.method(ARR, "ArrayObject", "_get_ensemble_axes_metadata_items")
    K = f.qualname
    R = "R-ITEMCOUNT"
    ctx.require(len(f.positional_params) == 2, f"{K}: expected (self, items)")
    items = f.positional_params[1]
    df = DataFlow(f.node)
    rets = [r for r in walk_no_nested(f.node) if isinstance(r, ast.Return) and r.value is not None]
    ctx.require(len(rets) == 1 and isinstance(rets[0].value, ast.Tuple) and len(rets[0].value.elts) == 2 and
                all(isinstance(e, ast.Name) for e in rets[0].value.elts), f"{K}: expected `return <list>, <dict>`")
    out = rets[0].value.elts[0].id
    top = list(f.node.body)
    # the validator hands None items (np.newaxis) through
    val = repo.function(ARR, "_validate_array_items")
    admits_none = any(_none_test(n) is not None for n in ast.walk(val.node) if isinstance(n, (ast.Compare, ast.UnaryOp))) \
        or any(isinstance(n, ast.Call) and dotted(n.func) == "type" and len(n.args) == 1 and
               isinstance(n.args[0], ast.Constant) and n.args[0].value is None for n in ast.walk(val.node))
    ctx.require(admits_none, f"{val.qualname}: no treatment of None items found")

    def simple_stmts(node):
        return [s for s in ast.walk(node) if isinstance(s, _SIMPLE)]

    loops = [l for l in top if isinstance(l, ast.For) and any(la.growth(s, out) for s in simple_stmts(l))]
    ctx.require(len(loops) == 1, f"{K}: expected one top-level loop that fills the returned list, found {len(loops)}")
    loop = loops[0]
    before, after = top[:top.index(loop)], top[top.index(loop) + 1:]
    header = df.cfg.node_of(loop).idx
    # initialisation of the result list
    inits = [s for b in before for s in simple_stmts(b) if la.growth(s, out)]
    ctx.require(len(inits) == 1 and isinstance(inits[0], ast.Assign) and isinstance(inits[0].value, (ast.List, ast.Call))
                and not getattr(inits[0].value, "elts", None) and not getattr(inits[0].value, "args", None)
                and (isinstance(inits[0].value, ast.List) or dotted(inits[0].value.func) == "list")
                and inits[0] in before, f"{K}: the returned list does not start empty")

    # ---- operand roles of the main loop
    roles = la.pairing(loop.target, loop.iter)

    def is_items(e) -> bool:
        e = la.strip_seq(e)
        return isinstance(e, ast.Name) and e.id == items and all(d.kind == "param" for d in df.reaching(header, items))

    def meta_list(e) -> Optional[str]:
        e = la.strip_seq(e)
        if not isinstance(e, ast.Name):
            return None
        strong = [d for d in df.defs if d.var == e.id and d.strong]
        if len(strong) == 1 and strong[0].kind == "assign" and strong[0].value is not None and \
                _per_axis_list(strong[0].value) and df.cfg.nodes[strong[0].node].ast in before:
            return e.id
        return None

    item_vars = [v for v, r in roles.items() if r[0] == "elem" and is_items(r[1])]
    meta_vars = [(v, meta_list(r[1])) for v, r in roles.items() if r[0] == "elem" and meta_list(r[1]) is not None]
    ctx.require(len(item_vars) == 1 and len(meta_vars) == 1 and len(roles) == 2,
                f"{K}: the loop is not `for .. in zip(<items>, <one entry per ensemble axis>)`")
    item_var, (meta_var, L) = item_vars[0], meta_vars[0]

    # ---- new axes: one placeholder entry inserted at the position of every None item
    weak = [d for d in df.defs if d.var == L and not d.strong]
    inserts = []
    for d in weak:
        st = df.cfg.nodes[d.node].ast
        gs = la.growth(st, L) if isinstance(st, _SIMPLE) else [("other", st)]
        ctx.require(all(g[0] == "insert" for g in gs) and gs, f"{K}: `{norm_text(st)[:60]}` changes the per-axis list in a "
                    "way the analyser does not follow")
        inserts.append(st)
    main_none = [n for n in ast.walk(loop) if isinstance(n, (ast.Compare,)) and _none_test(n) is not None
                 and dotted(_none_test(n)[0]) == item_var]
    ctx.require(not main_none, f"{K}: the main loop treats None items itself (unsupported design)")
    problems = []
    n_none_paths = 0
    if inserts:
        nloops = [l for l in before if isinstance(l, ast.For) and any(s in inserts for s in simple_stmts(l))]
        ctx.require(len(nloops) == 1 and all(any(s is i for s in simple_stmts(nloops[0])) for i in inserts),
                    f"{K}: the insertions into the per-axis list are not in one loop before the main loop")
        nl = nloops[0]
        r2 = la.pairing(nl.target, nl.iter)
        idx2 = [v for v, r in r2.items() if r[0] == "index" and is_items(r[1]) and (
            r[2] is None or (isinstance(r[2], ast.Constant) and r[2].value == 0))]
        it2 = [v for v, r in r2.items() if r[0] == "elem" and is_items(r[1])]
        ctx.require(len(idx2) == 1 and len(it2) == 1, f"{K}: the insertion loop does not enumerate the items")

        def pred_none(test):
            t = _none_test(test)
            return t[1] if t is not None and dotted(t[0]) == it2[0] else None

        for conds, ex, end in la.body_paths(nl.body, lambda s: any(s is i for i in inserts)):
            if end in ("raise",):
                continue
            ctx.require(end in (None, "continue"), f"{K}: the insertion loop can end early")
            pol = la.polarity(conds, pred_none)
            effects = [g for st in ex if isinstance(st, _SIMPLE) for g in la.growth(st, L)]
            if pol is True:
                n_none_paths += 1
                if len(effects) != 1:
                    problems.append(f"a None item inserts {len(effects)} entries into the per-axis list")
                else:
                    _, pos, elt = effects[0]
                    if not (isinstance(pos, ast.Name) and pos.id == idx2[0]):
                        problems.append(f"the entry of a None item is inserted at `{norm_text(pos)}`, not at the position "
                                        "of that item")
                    cls_ = repo.resolve_name(f.module, dotted(elt.func)) if isinstance(elt, ast.Call) and \
                        dotted(elt.func) and "." not in dotted(elt.func) else None
                    if not (getattr(cls_, "is_subclass_of", None) and cls_.is_subclass_of("AxisMetadata")):
                        problems.append(f"the entry of a None item is `{norm_text(elt)[:40]}`, not a fresh axis-metadata object")
            elif effects:
                problems.append("an entry is inserted for an item that is not None")
    if not inserts or (not problems and n_none_paths == 0):
        problems.append("no entry is inserted into the per-axis list for a None item (np.newaxis): the new axis takes the "
                        "metadata of the next ensemble axis and every later axis is described by its neighbour's metadata")
    ctx.check(not problems, R, f"{K}:new axes", f.loc(inserts[0]) if inserts else f.where,
              "every None item gets one fresh entry at its own position before items and entries are paired",
              "; ".join(problems), key_detail="newaxis")

    # ---- trailing (unindexed) axes
    bulks, counter = [], None
    for s in (x for a in after for x in simple_stmts(a)):
        for g in la.growth(s, out):
            ctx.require(g[0] == "bulk", f"{K}: `{norm_text(s)[:60]}` after the loop is not understood")
            bulks.append((s, g[1]))
    tail_problem = None
    if not bulks:
        tail_problem = ("after the indexed axes nothing is appended: the ensemble axes that the index expression does not "
                        "mention keep their dimension in the array but lose their metadata entry")
    else:
        ctx.require(len(bulks) == 1, f"{K}: several bulk extensions after the loop")
        s, e = bulks[0]
        ctx.require(isinstance(e, ast.Subscript) and isinstance(e.slice, ast.Slice) and e.slice.upper is None and
                    e.slice.step is None and e.slice.lower is not None and dotted(e.value) is not None,
                    f"{K}: `{norm_text(e)[:60]}` is not a tail slice `<list>[k:]`")
        if dotted(e.value) != L:
            tail_problem = f"the tail is taken from `{norm_text(e.value)}`, not from the list that was paired with the items"
        lo = e.slice.lower
        if isinstance(lo, ast.Call) and dotted(lo.func) == "len" and len(lo.args) == 1 and is_items(lo.args[0]):
            counter = None
        elif isinstance(lo, ast.Name):
            counter = lo.id
            cinit = [d for d in df.defs if d.var == counter and df.cfg.nodes[d.node].ast in before]
            ctx.require(len(cinit) == 1 and cinit[0].kind == "assign" and isinstance(cinit[0].value, ast.Constant)
                        and cinit[0].value.value == 0 and not isinstance(cinit[0].value.value, bool),
                        f"{K}: the tail start `{counter}` is not a counter initialised with 0")
            ctx.require(not any(la.step(x, counter) is not None for a in after for x in simple_stmts(a)),
                        f"{K}: the counter is changed after the loop")
        else:
            raise AnalysisError(f"{K}: tail start `{norm_text(lo)[:40]}` is neither len(items) nor a pass counter")

    # ---- per-pass accounting of the main loop
    def relevant(s):
        return isinstance(s, _SIMPLE) and (bool(la.growth(s, out)) or (counter is not None and la.step(s, counter) is not None))

    base_im = repo.method("abtem.core.axes", "AxisMetadata", "item_metadata")
    im_item = base_im.positional_params[1]
    from ..model import bind_args

    subj_bad, scalar_bad, entry_bad, src_bad, call_bad, step_bad = [], [], [], [], [], []
    n_paths = n_sel = 0
    for conds, ex, end in la.body_paths(loop.body, relevant):
        if end == "raise":
            continue
        ctx.require(end in (None, "continue"), f"{K}: a pass of the main loop can leave the loop early")

        def pred_scalar(test):
            t = _scalar_test(test)
            if t is None:
                return None
            if dotted(t[0]) != item_var:
                subj_bad.append(norm_text(test))
            return t[1]

        pol = la.polarity(conds, pred_scalar)
        if pol == "infeasible":
            continue
        ctx.require(pol is not None, f"{K}: a pass of the main loop does not test whether the item is a scalar")
        n_paths += 1
        n, elts = la.count_added([s for s in ex if isinstance(s, _SIMPLE)], out)
        if counter is not None:
            stp = la.count_steps([s for s in ex if isinstance(s, _SIMPLE)], counter)
            if stp != 1:
                step_bad.append(stp)
        if pol:
            if n != 0:
                scalar_bad.append(n)
            for st in ex:
                for c in ast.walk(st):
                    if isinstance(c, ast.Call) and isinstance(c.func, ast.Attribute) and c.func.attr == "item_metadata":
                        b = bind_args(c, base_im, skip_self=True)
                        ok = dotted(c.func.value) == meta_var and im_item in b and item_var in _deps(b[im_item], ex) \
                            and meta_var not in _deps(b[im_item], ex)
                        if not ok:
                            call_bad.append(norm_text(c)[:70])
        else:
            if n != 1:
                entry_bad.append(n)
            for e in elts:
                if meta_var not in _deps(e, ex):
                    src_bad.append(norm_text(e)[:50])
                u = _uncopy(e)
                for _ in range(3):  # a temporary assigned on the same path
                    if isinstance(u, ast.Name):
                        asg = [x for x in ex if isinstance(x, ast.Assign) and len(x.targets) == 1 and
                               isinstance(x.targets[0], ast.Name) and x.targets[0].id == u.id]
                        if len(asg) == 1:
                            u = _uncopy(asg[0].value)
                if isinstance(u, ast.Subscript) and dotted(u.value) == meta_var and dotted(u.slice) == item_var:
                    n_sel += 1
    ctx.require(n_paths >= 2, f"{K}: fewer than two kinds of pass through the main loop")
    ctx.check(not subj_bad, R, f"{K}:scalar test", f.loc(loop),
              "the scalar test is applied to the variable that walks over the items",
              f"`{subj_bad[0] if subj_bad else ''}` tests the variable that walks over the axis-metadata entries, not the "
              "index item: items and entries are paired in the wrong order", key_detail="subject")
    ctx.check(not scalar_bad, R, f"{K}:integer item", f.loc(loop),
              "an integer item (the dimension disappears) adds no metadata entry",
              f"an integer item adds {scalar_bad[0] if scalar_bad else 0} metadata entries although NumPy removes the "
              "dimension", key_detail="scalar-entries")
    ctx.check(not entry_bad, R, f"{K}:slice or array item", f.loc(loop),
              "a slice / index-array / None item (the dimension stays) adds exactly one metadata entry on every path",
              f"a pass for a slice, index-array or None item adds {entry_bad[0] if entry_bad else 1} metadata entries "
              "although NumPy keeps exactly one dimension: the object ends up with a different number of metadata "
              "entries than dimensions", key_detail="entries")
    ctx.check(not src_bad and (n_sel >= 1 or bool(entry_bad)), R, f"{K}:entry source", f.loc(loop),
              "the entry added for an item is the paired axis metadata, indexed by that item",
              (f"the added entry `{src_bad[0]}` does not derive from the paired axis metadata" if src_bad else
               "no added entry is the paired axis metadata indexed by the item: the metadata of the selected items is "
               "not carried along"), key_detail="source")
    ctx.check(not call_bad, R, f"{K}:item_metadata call", f.loc(loop),
              "item metadata is asked from the paired axis entry for the item",
              f"`{call_bad[0] if call_bad else ''}` is not <paired axis entry>.item_metadata(<item>, ...)",
              key_detail="item-call")
    if tail_problem is None and step_bad:
        tail_problem = (f"the tail of unindexed axes starts at `{counter}`, which advances by {step_bad[0]} instead of 1 "
                        "per consumed item: the entries of axes that were already indexed are appended again (or "
                        "trailing axes are skipped)")
    ctx.check(tail_problem is None, R, f"{K}:trailing axes", f.loc(bulks[0][0]) if bulks else f.loc(rets[0]),
              "the entries of the ensemble axes after the last item are carried over unchanged",
              tail_problem or "", key_detail="tail")



def _resolve_local(df: DataFlow, at: int, e: ast.AST, depth: int = 4) -> ast.AST:
    """Follow single plain assignments of a local name."""
    while depth and isinstance(e, ast.Name):
        d = df.single_def(at, e.id)
        if d is None or d.kind != "assign" or d.value is None:
            break
        e, at, depth = d.value, d.node, depth - 1
    return e


def _is_axis_numbers(df: DataFlow, at: int, e: ast.AST) -> bool:
    """range(len(<ensemble shape / ensemble metadata>)), possibly through tuple()/list() and a local."""
    v = la.strip_seq(_resolve_local(df, at, la.strip_seq(e)))
    if isinstance(v, ast.Call) and dotted(v.func) == "range" and len(v.args) == 1 and not v.keywords:
        a = v.args[0]
        if isinstance(a, ast.Call) and dotted(a.func) == "len" and len(a.args) == 1:
            return dotted(a.args[0]) in _ENS_META + ("self.ensemble_shape",) or dotted(
                _resolve_local(df, at, a.args[0])) in _ENS_META + ("self.ensemble_shape",)
    return False


def _pair_roles(ctx, repo) -> None:
    """R-PAIRROLE: _reduction's metadata filter and squeeze's length-one test."""
    R = "R-PAIRROLE"
    red = repo.method(ARR, "ArrayObject", "_reduction")
    df = DataFlow(red.node)
    comps = [(st, c) for st in walk_no_nested(red.node) if isinstance(st, ast.Assign)
             for c in ast.walk(st.value) if isinstance(c, ast.ListComp) and c.generators[0].ifs]
    ctx.require(len(comps) == 1 and len(comps[0][1].generators) == 1, f"{red.qualname}: metadata filter not found")
    st, comp = comps[0]
    at = df.cfg.node_of(st).idx
    g = comp.generators[0]
    roles = la.pairing(g.target, g.iter)
    meta_v, idx_v = [], []
    for v, r in roles.items():
        if r[0] == "index" and (r[2] is None or (isinstance(r[2], ast.Constant) and r[2].value == 0)) and \
                _per_axis_list(_resolve_local(df, at, r[1])):
            idx_v.append(v)
        elif r[0] == "elem" and _is_axis_numbers(df, at, r[1]):
            idx_v.append(v)
        elif r[0] == "elem" and _per_axis_list(_resolve_local(df, at, la.strip_seq(r[1]))):
            meta_v.append(v)
    ctx.require(len(meta_v) == 1 and len(idx_v) == 1, f"{red.qualname}: the filter does not walk over (axis metadata, "
                "axis number) pairs")
    tests = [c for i in g.ifs for c in ast.walk(i) if isinstance(c, ast.Compare) and len(c.ops) == 1
             and isinstance(c.ops[0], (ast.In, ast.NotIn))]
    ctx.require(len(tests) == 1, f"{red.qualname}: membership test of the filter not found")
    elt = dotted(_uncopy(comp.elt))
    ok = elt == meta_v[0] and dotted(tests[0].left) == idx_v[0]
    ctx.check(ok, R, f"{red.qualname}:metadata filter", red.loc(comp),
              "keeps the axis-metadata entries whose axis number is not reduced",
              f"the filter keeps `{norm_text(comp.elt)}` (walking over "
              f"`{norm_text(roles.get(elt, ('', comp.elt))[1])[:40]}`) and tests `{norm_text(tests[0].left)}` for membership "
              "in the reduced axes: metadata entries and axis numbers are paired in the wrong order, the result carries "
              "axis numbers instead of axis metadata", key_detail="filter")

    sq = repo.method(ARR, "ArrayObject", "squeeze")
    dfs = DataFlow(sq.node)
    found = []
    for st in walk_no_nested(sq.node):
        if not isinstance(st, ast.Assign):
            continue
        for c in ast.walk(st.value):
            if isinstance(c, (ast.ListComp, ast.GeneratorExp)) and len(c.generators) == 1:
                try:
                    r = la.pairing(c.generators[0].target, c.generators[0].iter)
                except AnalysisError:
                    continue
                at = dfs.cfg.node_of(st).idx
                lens = [v for v, x in r.items() if x[0] == "elem" and "shape" in norm_text(_resolve_local(dfs, at, x[1]))]
                idxs = [v for v, x in r.items() if x[0] == "index"]
                if len(lens) == 1 and len(idxs) == 1:
                    found.append((c, lens[0], idxs[0]))
    ctx.require(len(found) == 1, f"{sq.qualname}: the scan of the ensemble shape for length-one axes was not found")
    comp, len_v, idx_v2 = found[0]
    ctx.require(not any(isinstance(n, ast.UnaryOp) and isinstance(n.op, ast.Not) for n in ast.walk(comp)),
                f"{sq.qualname}: negated selection predicate")
    cmps = [c for c in ast.walk(comp) if isinstance(c, ast.Compare) and any(
        isinstance(n, ast.Name) and n.id == len_v for n in ast.walk(c))]
    ctx.require(len(cmps) >= 1, f"{sq.qualname}: no test of the axis length found")
    bad = []
    for c in cmps:
        sides = [c.left] + c.comparators
        one = len(c.ops) == 1 and isinstance(c.ops[0], ast.Eq) and any(
            isinstance(x, ast.Constant) and x.value == 1 and not isinstance(x.value, bool) for x in sides) and any(
            dotted(x) == len_v for x in sides)
        if not one:
            bad.append(norm_text(c))
    mem = [c for c in ast.walk(comp) if isinstance(c, ast.Compare) and len(c.ops) == 1 and isinstance(c.ops[0], ast.In)]
    if any(dotted(c.left) == len_v for c in mem):
        bad.append(f"{norm_text(mem[0])} (the axis length is looked up among the requested axes)")
    ctx.check(not bad, R, f"{sq.qualname}:length-one test", sq.loc(comp),
              "an axis is squeezed only if its length equals one (and its number is requested)",
              f"squeeze selects axes by `{bad[0] if bad else ''}`, not by `length == 1`: axes of length one stay, or "
              "np.squeeze is asked to remove longer axes", key_detail="length-one")


def _inline_locals(df: DataFlow, at: int, e: ast.AST) -> ast.AST:
    """Copy of `e` with every local that has a single plain assignment replaced by its value (one level)."""
    import copy as _copy

    class T(ast.NodeTransformer):
        def visit_Name(self, n):
            d = df.single_def(at, n.id) if isinstance(n.ctx, ast.Load) else None
            if d is not None and d.kind == "assign" and d.value is not None and not isinstance(
                    df.cfg.nodes[d.node].ast.targets[0], (ast.Tuple, ast.List)):
                return _copy.deepcopy(d.value)
            return n

    return ast.fix_missing_locations(T().visit(_copy.deepcopy(e)))


def _seq_head(ctx, repo) -> None:
    """R-SEQHEAD: stack()/concatenate() take type, device, laziness, metadata from an array that certainly exists."""
    for fname in ("stack", "concatenate"):
        fn = repo.function(ARR, fname)
        arrays = fn.positional_params[0]
        subs = [n for n in walk_no_nested(fn.node) if isinstance(n, ast.Subscript) and dotted(n.value) == arrays
                and la._int_const(n.slice) is not None]
        ctx.require(len(subs) >= 1, f"{fn.qualname}: no use of a fixed member of `{arrays}` found")
        bad = [n for n in subs if la._int_const(n.slice) not in (0, -1)]
        ctx.check(not bad, "R-SEQHEAD", f"{fn.qualname}:fixed member", fn.loc(bad[0]) if bad else fn.where,
                  f"{len(subs)} uses of a fixed member of the sequence, all of the first (or last) one",
                  f"`{norm_text(bad[0]) if bad else ''}` is used for the result's type / device / metadata / bounds: a sequence "
                  f"with a single array (np.{fname}([a]) is legal) raises IndexError", key_detail="member")


def _concat_fold(ctx, repo) -> None:
    """R-FOLD: concatenate() folds the axis metadata of *all* arrays, first to last, each once."""
    R = "R-FOLD"
    cc = repo.function(ARR, "concatenate")
    K = cc.qualname
    arrays = cc.positional_params[0]
    df = DataFlow(cc.node)
    folds = []
    for loop in (l for l in cc.node.body if isinstance(l, ast.For)):
        for st in loop.body:
            if isinstance(st, ast.Assign) and len(st.targets) == 1 and isinstance(st.targets[0], ast.Name) and \
                    isinstance(st.value, ast.Call) and isinstance(st.value.func, ast.Attribute) and \
                    st.value.func.attr == "concatenate" and len(st.value.args) == 1:
                folds.append((loop, st))
    ctx.require(len(folds) == 1, f"{K}: the fold over the axis metadata was not found")
    loop, st = folds[0]
    acc = st.targets[0].id
    ctx.require(isinstance(loop.target, ast.Name), f"{K}: fold loop target")
    h = loop.target.id
    seeds = [d for d in df.reaching(df.cfg.node_of(loop).idx, acc) if d.node not in df.cfg.loop_body_nodes(df.cfg.node_of(loop).idx)]
    ctx.require(len(seeds) == 1 and seeds[0].kind == "assign", f"{K}: the seed of the fold was not found")
    seed = _inline_locals(df, seeds[0].node, seeds[0].value)
    seed_idx = [n for n in ast.walk(seed) if isinstance(n, ast.Subscript) and dotted(n.value) == arrays]
    ctx.require(len(seed_idx) == 1 and la._int_const(seed_idx[0].slice) is not None, f"{K}: the seed is not taken from one "
                "array of the sequence")
    j = la._int_const(seed_idx[0].slice)
    it = _resolve_local(df, df.cfg.node_of(loop).idx, loop.iter)
    ctx.require(isinstance(it, ast.Subscript) and dotted(it.value) == arrays and isinstance(it.slice, ast.Slice)
                and it.slice.upper is None and it.slice.step is None, f"{K}: the fold does not run over `{arrays}[k:]`")
    c = la._int_const(it.slice.lower) if it.slice.lower is not None else 0
    ctx.require(c is not None, f"{K}: fold start")
    ctx.check(j == 0 and c == 1, R, f"{K}:every array once", cc.loc(loop),
              "seed = first array, fold over the rest: every array contributes its axis metadata exactly once, in order",
              f"the fold starts from `{arrays}[{j}]` and continues with `{arrays}[{c}:]`: "
              + ("an array contributes its axis values twice and the first one not at all" if j >= c else
                 "arrays are left out") + " while the data of all arrays is concatenated", key_detail="partition")

    import copy as _copy
    seed_copy = _copy.deepcopy(seed)
    target_sub = [n for n in ast.walk(seed_copy) if isinstance(n, ast.Subscript) and dotted(n.value) == arrays][0]

    class _Sub2(ast.NodeTransformer):
        def visit_Subscript(self, n):
            if n is target_sub:
                return ast.Name(id=h, ctx=ast.Load())
            return self.generic_visit(n)

    want = norm_text(_Sub2().visit(seed_copy))
    got = norm_text(st.value.args[0])
    ok = dotted(st.value.func.value) == acc and got == want
    ctx.check(ok, R, f"{K}:same entry, in order", cc.loc(st),
              "accumulated.concatenate(<the same axis entry of the next array>)",
              f"`{norm_text(st.value)[:80]}` is not <accumulated>.concatenate({want}): the values are joined in another "
              "order than the data, or another axis entry is joined", key_detail="order")
    # the data of *all* arrays is concatenated
    lists = [c_ for c_ in walk_no_nested(cc.node) if isinstance(c_, ast.Call) and (call_name(c_) or "").endswith(".concatenate")
             and c_.args and isinstance(c_.args[0], (ast.ListComp, ast.GeneratorExp))]
    ctx.require(len(lists) >= 1, f"{K}: data concatenation not found")
    whole = all(dotted(la.strip_seq(c_.args[0].generators[0].iter)) == arrays and not c_.args[0].generators[0].ifs
                for c_ in lists)
    ctx.check(whole, R, f"{K}:all data", cc.loc(lists[0]), "the data of every array is concatenated",
              "the data that is concatenated is not that of the whole sequence", key_detail="data")


def _cmp_poly(nz, cmp_: ast.Compare):
    """Compare over integers -> polynomial P with (compare true  <=>  P >= 0); None if not an ordering."""
    if len(cmp_.ops) != 1:
        return None
    l, r = nz.norm(cmp_.left), nz.norm(cmp_.comparators[0])
    op = cmp_.ops[0]
    if isinstance(op, ast.GtE):
        return l - r
    if isinstance(op, ast.Gt):
        return l - r - Poly.const(1)
    if isinstance(op, ast.LtE):
        return r - l
    if isinstance(op, ast.Lt):
        return r - l - Poly.const(1)
    return None


def _expr(text: str) -> ast.AST:
    return ast.parse(text, mode="eval").body


def _axis_ranges(ctx, repo) -> None:
    """R-AXISRANGE: admissible positions of a new axis (expand_dims, stack) and the operand roles of normalize_axes."""
    R = "R-AXISRANGE"
    from ..model import bind_args

    ed = repo.method(ARR, "ArrayObject", "expand_dims")
    df = DataFlow(ed.node)
    guards = []
    for i in walk_no_nested(ed.node):
        if isinstance(i, ast.If) and any(isinstance(s, ast.Raise) for s in i.body) and isinstance(i.test, ast.Call) \
                and dotted(i.test.func) == "any" and len(i.test.args) == 1 and \
                isinstance(i.test.args[0], (ast.GeneratorExp, ast.ListComp)):
            ge = i.test.args[0]
            if len(ge.generators) == 1 and not ge.generators[0].ifs and isinstance(ge.generators[0].target, ast.Name) \
                    and isinstance(ge.generators[0].iter, ast.Name) and isinstance(ge.elt, ast.Compare):
                guards.append((i, ge))
    ctx.require(len(guards) == 1, f"{ed.qualname}: the range guard on the new-axis positions was not found")
    gif, ge = guards[0]
    X, a = ge.generators[0].iter.id, ge.generators[0].target.id
    nz = FlowNormalizer(df, df.cfg.node_of(gif).idx)
    nz.no_inline = {X, a}
    P = _cmp_poly(nz, ge.elt)
    ctx.require(P is not None, f"{ed.qualname}: range guard is not an ordering comparison")
    E = Poly.atom("#ensemble-axes")
    B = Poly.atom("#base-axes")

    def canon(p: Poly) -> Poly:
        m = {}
        for text, val in (("len(self.ensemble_shape)", E), ("len(self.ensemble_axes_metadata)", E),
                          ("len(self._ensemble_axes_metadata)", E), ("len(self.base_shape)", B),
                          ("len(self.base_axes_metadata)", B), ("len(self.shape)", E + B),
                          ("len(self.array.shape)", E + B), ("len(self._array.shape)", E + B),
                          ("len(self.axes_metadata)", E + B)):
            for at_ in Normalizer().norm(_expr(text)).atoms():
                m[at_] = val
        return p.subst(m)

    N = Normalizer().norm(_expr(f"len({X})"))
    want = Poly.atom(a) - E - N
    got = canon(P)
    ctx.check(got == want, R, f"{ed.qualname}:new-axis positions", ed.loc(gif),
              "raises exactly for positions >= (number of ensemble axes + number of new axes)",
              f"the guard raises for `{norm_text(ge.elt)}`, i.e. when {got.key()} >= 0; positions of new axes in the result "
              f"are admissible iff they are < (ensemble axes + new axes), i.e. the guard must be {want.key()} >= 0: "
              "otherwise a new axis lands among the base axes (data and metadata list disagree) or a legal position is "
              "refused", key_detail="range")

    # operands of normalize_axes
    na = repo.function("abtem.core.utils", "normalize_axes")
    for mname in ("expand_dims", "squeeze"):
        fn = repo.method(ARR, "ArrayObject", mname)
        dff = DataFlow(fn.node)
        user_axis = fn.positional_params[1]
        for c in walk_no_nested(fn.node):
            if isinstance(c, ast.Call) and call_name(c) == "normalize_axes":
                b = bind_args(c, na)
                ctx.require(set(b) >= set(na.positional_params[:2]), f"{fn.qualname}: normalize_axes call not understood")
                axes_e, shape_e = b[na.positional_params[0]], b[na.positional_params[1]]
                stn = dff.cfg.node_of(_stmt_of(fn.node, c)).idx
                sl = dff.backward_slice(stn, axes_e)
                ok = user_axis in sl.params and (dotted(shape_e) or "").endswith("shape") and \
                    user_axis not in dff.backward_slice(stn, shape_e).params
                ctx.check(ok, R, f"{fn.qualname}:normalize_axes operands", fn.loc(c),
                          f"normalize_axes(axes <- the `{user_axis}` argument, shape <- {norm_text(shape_e)})",
                          f"`{norm_text(c)}` passes `{norm_text(axes_e)}` as the axes and `{norm_text(shape_e)}` as the shape",
                          key_detail="normalize-operands")

    stf = repo.function(ARR, "stack")
    ctx.require(len(stf.positional_params) == 3, f"{stf.qualname}: expected (arrays, axis_metadata, axis)")
    arrays, axis = stf.positional_params[0], stf.positional_params[2]
    dfs = DataFlow(stf.node)
    Es = Poly.atom("#ensemble-axes-of-first")
    A = Poly.atom(axis)
    seen = 0
    for n in walk_no_nested(stf.node):
        tests = []
        if isinstance(n, ast.Assert):
            tests = [(n.test, False)]
        elif isinstance(n, ast.If) and n.body and isinstance(n.body[0], ast.Raise) and not n.orelse:
            tests = [(n.test, True)]
        for t, raising in tests:
            t, pos = la.strip_not(t)
            if not (isinstance(t, ast.Compare) and any(isinstance(x, ast.Name) and x.id == axis for x in ast.walk(t))):
                continue
            nz2 = FlowNormalizer(dfs, dfs.cfg.node_of(n).idx)
            nz2.no_inline = {axis, arrays}
            P = _cmp_poly(nz2, t)
            if P is None:
                continue
            if raising == pos:  # P >= 0 is the *refusing* condition: accept iff -P-1 >= 0
                P = -P - Poly.const(1)
            m = {}
            for text in (f"len({arrays}[0].ensemble_shape)", f"len({arrays}[0].ensemble_axes_metadata)"):
                for at_ in Normalizer().norm(_expr(text)).atoms():
                    m[at_] = Es
            P = P.subst(m)
            seen += 1
            ok = P in (A, Es - A)
            side = "lower" if P.atoms() <= A.atoms() else "upper"
            ctx.check(ok, R, f"{stf.qualname}:{side} bound of the stacking axis", stf.loc(n),
                      "accepts 0 <= axis <= number of ensemble axes of the first array",
                      f"`{norm_text(t)}` accepts the stacking axis iff {P.key()} >= 0; the admissible positions are "
                      f"0 <= {axis} <= len({arrays}[0].ensemble_shape) (the new axis may come first or directly before the "
                      "base axes; only the first array is certain to exist)", key_detail="bound")
    if not seen:
        ctx.info(R, f"{stf.qualname}:axis bound", stf.where, "no explicit bound on the stacking axis")


class _OnlyOrdinalConcat:
    """Proxy: run C35's rules, keep only R-ORDINAL instances of OrdinalAxis.concatenate."""

    def __init__(self, ctx):
        self._ctx = ctx

    def __getattr__(self, name):
        return getattr(self._ctx, name)

    @staticmethod
    def _keep(rule, construct):
        return rule == "R-ORDINAL" and construct.startswith("abtem.core.axes.OrdinalAxis.concatenate")

    def rule(self, name, text):
        if name == "R-ORDINAL":
            self._ctx.rule(name, "(shared with C35; concatenate() joins the axis entries with OrdinalAxis.concatenate) " + text)

    def undecided(self, text):
        return None

    def assume(self, text):
        return None

    def check(self, cond, rule, construct, *a, **k):
        return self._ctx.check(cond, rule, construct, *a, **k) if self._keep(rule, construct) else cond

    def violation(self, rule, construct, *a, **k):
        if self._keep(rule, construct):
            self._ctx.violation(rule, construct, *a, **k)

    def ok(self, rule, construct, *a, **k):
        if self._keep(rule, construct):
            self._ctx.ok(rule, construct, *a, **k)

    def info(self, rule, construct, *a, **k):
        return None


_inner_run_c29_sweep = run


def run(ctx) -> None:  # noqa: F811
    ctx.rule("R-ITEMCOUNT", "indexing leaves exactly one metadata entry per remaining dimension (NumPy: an integer item "
             "removes the dimension, a slice / index array keeps it, None adds one, unmentioned trailing axes stay): in "
             "_get_ensemble_axes_metadata_items every None item gets one fresh entry at its own position before items "
             "and per-axis entries are paired; on every control path of a pass (including the except arm) an integer "
             "item adds no entry and asks <paired entry>.item_metadata(<item>), any other item adds exactly one entry "
             "derived from the paired entry; the tail list[k:] of the same list is appended with k = number of passes. "
             "Variables are identified by the operand they iterate over, not by name")
    ctx.rule("R-PAIRROLE", "where metadata entries and axis numbers (or axis lengths) are walked in parallel, each "
             "variable is used in the role of the operand it iterates over: _reduction keeps the *metadata* entries "
             "whose *axis number* is not among the reduced axes; squeeze selects an axis iff its *length* equals one "
             "and its *number* is requested")
    ctx.rule("R-FOLD", "concatenate() joins the axis metadata of all arrays like their data: seed = entry of the first "
             "array, then accumulated.concatenate(entry of the next array) over arrays[1:], every array exactly once and "
             "in sequence order; the data of the whole sequence is concatenated")
    ctx.rule("R-AXISRANGE", "positions of new axes are admissible exactly when the axis lands among the ensemble axes: "
             "expand_dims refuses position a iff a >= ensemble axes + new axes; stack accepts 0 <= axis <= ensemble "
             "axes of the first array (integer comparisons are compared as polynomials, `x > y` = `x >= y + 1`); "
             "normalize_axes receives the user's axis argument as axes and a shape as shape")
    from ..rules import isinst
    ctx.rule("R-ISINSTANCE", isinst.__doc__.split("—", 1)[1])
    ao_ = ctx.repo.cls(ARR, "ArrayObject")
    funcs = [f for defs in ao_.methods.values() for f in defs] + [ctx.repo.function(ARR, n) for n in (
        "stack", "concatenate", "swapaxes", "moveaxis", "_validate_array_items", "_expand_dims")]
    funcs += [f for c in ctx.repo.module("abtem.core.axes").classes.values() for defs in c.methods.values() for f in defs]
    n_is = isinst.check(ctx, ctx.repo, funcs)
    ctx.require(n_is >= 10, f"R-ISINSTANCE examined only {n_is} isinstance tests")
    _item_accounting(ctx, ctx.repo)
    _pair_roles(ctx, ctx.repo)
    _concat_fold(ctx, ctx.repo)
    _axis_ranges(ctx, ctx.repo)
    ctx.rule("R-SEQHEAD", "stack() and concatenate() accept a sequence with a single array like NumPy does: whenever "
             "they read a fixed member of the sequence (for the class, the array module, laziness, metadata, the axis "
             "bound) it is the first (or last) one, the only one that certainly exists")
    _seq_head(ctx, ctx.repo)
    from . import c35 as _c35
    _c35.run(_OnlyOrdinalConcat(ctx))
    _inner_run_c29_sweep(ctx)


# ---- added after two genuine defects reported by a seeding agent (repaired in 4b730291 and 2f9e93ff)
_inner_run_c29_r5 = run


def _py_eval(e: ast.AST, env: dict):
    """Python semantics of a small expression language over integers / None (constants, names from env, + - *,
    and / or, conditional expressions, comparisons).  Raises AnalysisError outside it."""
    if isinstance(e, ast.Constant):
        return e.value
    if isinstance(e, ast.Name) and e.id in env:
        return env[e.id]
    if isinstance(e, ast.UnaryOp) and isinstance(e.op, ast.USub):
        return -_py_eval(e.operand, env)
    if isinstance(e, ast.UnaryOp) and isinstance(e.op, ast.Not):
        return not _py_eval(e.operand, env)
    if isinstance(e, ast.BinOp) and isinstance(e.op, (ast.Add, ast.Sub, ast.Mult)):
        a, b = _py_eval(e.left, env), _py_eval(e.right, env)
        if a is None or b is None:
            raise AnalysisError(f"arithmetic on None in `{norm_text(e)}`")
        return a + b if isinstance(e.op, ast.Add) else a - b if isinstance(e.op, ast.Sub) else a * b
    if isinstance(e, ast.BoolOp):
        val = None
        for v in e.values:
            val = _py_eval(v, env)
            if isinstance(e.op, ast.Or) and val:
                return val
            if isinstance(e.op, ast.And) and not val:
                return val
        return val
    if isinstance(e, ast.IfExp):
        return _py_eval(e.body if _py_eval(e.test, env) else e.orelse, env)
    if isinstance(e, ast.Compare) and len(e.ops) == 1:
        a, b = _py_eval(e.left, env), _py_eval(e.comparators[0], env)
        op = e.ops[0]
        table = {ast.Eq: lambda: a == b, ast.NotEq: lambda: a != b, ast.Lt: lambda: a < b, ast.LtE: lambda: a <= b,
                 ast.Gt: lambda: a > b, ast.GtE: lambda: a >= b, ast.Is: lambda: a is b, ast.IsNot: lambda: a is not b}
        if type(op) in table:
            return table[type(op)]()
    raise AnalysisError(f"cannot evaluate `{norm_text(e)[:60]}`")


def _keepdims_slices(ctx) -> int:
    """R-KEEPDIMS"""
    f = ctx.repo.function("abtem.array", "_validate_array_items")
    n = 0
    for comp in walk_no_nested(f.node):
        if not isinstance(comp, (ast.GeneratorExp, ast.ListComp)):
            continue
        tgt = comp.generators[0].target
        if not isinstance(tgt, ast.Name):
            continue
        for c in ast.walk(comp.elt):
            if not (isinstance(c, ast.Call) and call_name(c) == "slice" and 2 <= len(c.args) <= 3):
                continue
            bad = []
            LEN = 5  # any length > 2 shows the pattern: index i of a length-5 axis
            for i in (0, 1, LEN - 1, -1, -2, -LEN):
                lo, hi = (_py_eval(a, {tgt.id: i}) for a in c.args[:2])
                step = _py_eval(c.args[2], {tgt.id: i}) if len(c.args) == 3 else None
                want = [i % LEN]
                got = list(range(LEN))[slice(lo, hi, step)]
                if got != want:
                    bad.append(f"index {i} of a length-{LEN} axis becomes slice({lo}, {hi}), which selects items {got}")
            n += 1
            ctx.check(not bad, "R-KEEPDIMS", f"{f.qualname}:integer index kept as a slice", f.loc(c),
                      f"`{norm_text(c)}` selects exactly item i for i = 0, 1, n-1, -1, -2, -n",
                      f"`{norm_text(c)}`: " + "; ".join(bad) + " — NumPy's a[i] (kept as an axis of length one) is item "
                      "i itself", key_detail="slice")
    return n


def _linear_axis_items(ctx) -> int:
    """R-LINEARITEM"""
    repo = ctx.repo
    getter = repo.method("abtem.array", "ArrayObject", "_get_ensemble_axes_metadata_items")
    # does the caller fall back to the unchanged axis when the axis cannot be indexed?
    fallback = any(isinstance(h, ast.ExceptHandler) and dotted(h.type) == "TypeError" for h in ast.walk(getter.node))
    cls = repo.cls("abtem.core.axes", "LinearAxis")
    gi = cls.find_method("__getitem__")
    n = 1
    if gi is None:
        ctx.check(not fallback, "R-LINEARITEM", "abtem.core.axes.LinearAxis:__getitem__", cls.where if hasattr(cls, "where") else getter.where,
                  "", "LinearAxis (line and grid scan axes) has no __getitem__ and "
                  f"{getter.qualname} falls back to an unchanged copy of the axis when indexing raises TypeError: the "
                  "items selected by a slice that does not start at 0 keep the coordinates of the first items "
                  "(coordinates are offset + i x sampling)", key_detail="missing")
        return n
    df = DataFlow(gi.node)
    item = gi.positional_params[1]
    stores = {}
    for st in ast.walk(gi.node):
        if isinstance(st, ast.Assign) and len(st.targets) == 1 and isinstance(st.targets[0], ast.Attribute) and \
                st.targets[0].attr in ("offset", "sampling") and not dotted(st.targets[0]).startswith("self."):
            stores[st.targets[0].attr] = st
    kws = {}
    for c in walk_no_nested(gi.node):
        if isinstance(c, ast.Call) and (dotted(c.func) or "").endswith("__class__") or (
                isinstance(c, ast.Call) and isinstance(c.func, ast.Name) and c.func.id in ("type", cls.name)):
            for k in c.keywords:
                if k.arg in ("offset", "sampling"):
                    kws[k.arg] = (k.value, c)
    if not stores and not kws:
        raise AnalysisError(f"{gi.qualname}: no new offset / sampling recognised")

    def term(attr):
        if attr in stores:
            st = stores[attr]
            return st.value, df.cfg.node_of(st).idx, st
        v, c = kws[attr]
        for st in ast.walk(gi.node):
            if isinstance(st, ast.stmt) and not isinstance(st, (ast.FunctionDef, ast.If, ast.For, ast.While, ast.With, ast.Try)) \
                    and any(x is c for x in walk_no_nested(st)):
                return v, df.cfg.node_of(st).idx, st
        raise AnalysisError(f"{gi.qualname}: statement of the constructor call not found")

    def norm(e, at):
        nz = FlowNormalizer(df, at)
        # the slice's start / step with None read as 0 / 1: keep the defaulting expressions as atoms
        for nm in {d.var for d in df.defs if d.kind == "assign" and d.value is not None and any(
                isinstance(x, ast.Attribute) and x.attr in ("start", "step") and dotted(x.value) == item
                for x in ast.walk(d.value))}:
            nz.no_inline.add(nm)
        return nz.norm(e)

    def role_atoms(p: Poly, attr: str) -> set:
        """atoms of a term that stand for the slice's `attr` (a local defaulted from item.<attr>, or item.<attr>)"""
        out = set()
        for mono in p.terms:
            for a, _ in mono:
                if a == f"{item}.{attr}":
                    out.add(a)
                else:
                    for d in df.defs:
                        if d.var == a and d.kind == "assign" and d.value is not None and any(
                                isinstance(x, ast.Attribute) and x.attr == attr and dotted(x.value) == item
                                for x in ast.walk(d.value)):
                            out.add(a)
        return out

    for attr, role in (("offset", "start"), ("sampling", "step")):
        n += 1
        if attr not in stores and attr not in kws:
            ctx.violation("R-LINEARITEM", f"{gi.qualname}:{attr}", gi.where,
                          f"the sliced axis keeps the receiver's {attr}: item k of the selection is not labelled with "
                          f"the coordinate of item start + k x step", key_detail=attr)
            continue
        e, at, st = term(attr)
        p = norm(e, at)
        atoms = role_atoms(p, role)
        ok = False
        if len(atoms) == 1:
            s_ = Poly.atom(next(iter(atoms)))
            want = (Poly.atom("self.offset") + s_ * Poly.atom("self.sampling")) if attr == "offset" else \
                s_ * Poly.atom("self.sampling")
            ok = p == want
        ctx.check(ok, "R-LINEARITEM", f"{gi.qualname}:{attr}", gi.loc(st),
                  f"new {attr} = " + ("self.offset + start x self.sampling" if attr == "offset" else "self.sampling x step"),
                  f"the sliced axis gets {attr} `{p.key()[:80]}`, expected " +
                  ("self.offset + start x self.sampling" if attr == "offset" else "self.sampling x step") +
                  f" with the slice's own {role}: coordinates of the selected items are offset + (start + k x step) x "
                  "sampling", key_detail=attr)
    return n


def run(ctx) -> None:  # noqa: F811
    ctx.rule("R-KEEPDIMS", "_validate_array_items: the slice an integer index is replaced with under keepdims selects "
             "exactly that item for every index NumPy accepts — the slice bounds are evaluated with Python semantics "
             "(`or`, conditional expressions) for i in {0, 1, n-1, -1, -2, -n} of an axis of length n and applied to "
             "range(n); `slice(i, i + 1)` is empty for i = -1")
    ctx.rule("R-LINEARITEM", "indexing an array object along a linear axis carries the coordinates of the selected "
             "items: LinearAxis resolves __getitem__ (otherwise the metadata getter silently keeps the unchanged axis), "
             "and for a slice the new offset is self.offset + start x self.sampling and the new sampling "
             "self.sampling x step (term normal forms, start / step being the slice's own fields with None read as "
             "0 / 1)")
    pending = None
    for part in (_keepdims_slices, _linear_axis_items):
        try:
            got = part(ctx)
            ctx.require(got >= 1, f"{part.__name__}: nothing examined")
        except AnalysisError as e:
            pending = pending or e
    _inner_run_c29_r5(ctx)
    if pending is not None:
        raise pending
