"""C11 — a potential reused after changing its grid behaves like a fresh one.

R-MEMOKEY: for every memoising method of the package, whatever flows into the memoised value flows into the
key.  Three memo shapes are recognised structurally:

  A  dict memo      try: v = C[K]  except KeyError: v = compute(...); C[K] = v
  B  single slot    if key == self._k: return self._v ; self._v = compute(...); self._k = key
  C  keyless slot   if self._v is not None: return self._v ; self._v = compute(...)

"What flows in" is a set of *access paths*: (parameter p, attribute a) for `p.a`, (p, whole) for a bare use, and
(self, leaf attribute) after expanding property getters / self-method calls through the class's MRO.  Calls to
functions and methods defined in the package are followed (summaries of their return values, depth-bounded);
arguments of other calls flow conservatively.  A self attribute never assigned or mutated outside the executed
constructor chain is immutable for the cache's lifetime and needs no key.  Caches owned by objects that never
outlive one function call (never stored on another object, never returned) are *latent*: reported as info.
"""
from __future__ import annotations

import ast
from typing import Optional

from ..cfg import DataFlow
from ..model import AnalysisError, ClassInfo, FuncInfo, Repo, call_name, dotted, last_attr, norm_text, walk_no_nested
from ..rules.flowdeps import Deps

WHOLE = "*"
MAX_DEPTH = 4

Path = tuple  # ("param", name, attr|WHOLE) | ("self", attr)


# ----------------------------------------------------------------------------------------- engine
class Flow:
    def __init__(self, repo: Repo):
        self.repo = repo
        self._df: dict[int, DataFlow] = {}
        self._summary: dict[tuple, set] = {}
        self._alias: dict[str, Optional[str]] = {}
        self.unresolved: set[str] = set()
        self._inputs: dict[tuple, set] = {}
        self._encl: dict[int, dict] = {}

    def df(self, f: FuncInfo) -> DataFlow:
        k = id(f.node)
        if k not in self._df:
            self._df[k] = DataFlow(f.node)
        return self._df[k]

    # -------- `_valid_gpts` -> `gpts`: a property all of whose definitions return exactly self.<b>
    def alias(self, attr: str, _depth: int = 0) -> str:
        if attr in self._alias:
            return self._alias[attr] or attr
        self._alias[attr] = None
        targets = set()
        n_defs = 0
        for c in self.repo.all_classes():
            g = c.own_method(attr, "getter")
            if g is None or not g.is_property:
                continue
            n_defs += 1
            rets = [r for r in walk_no_nested(g.node) if isinstance(r, ast.Return)]
            for r in rets:
                d = dotted(r.value) if r.value is not None else None
                if d and d.startswith("self.") and d.count(".") == 1:
                    targets.add(d.split(".")[1])
                else:
                    targets.add(None)
        if n_defs and len(targets) == 1 and None not in targets and _depth < 4:
            b = next(iter(targets))
            # only guard-style aliases (`_valid_x` -> `x`): the target must itself be public API of the same objects
            if b != attr and not b.startswith("_"):
                self._alias[attr] = self.alias(b, _depth + 1)
        return self._alias[attr] or attr

    # -------- callee resolution
    def resolve_call(self, call: ast.Call, f: FuncInfo, cls: Optional[ClassInfo]):
        """-> (callee FuncInfo list, receiver kind) ; receiver kind in {'self', 'none', 'other'}"""
        fn = call.func
        selfname = self.df(f).selfname
        if isinstance(fn, ast.Attribute) and isinstance(fn.value, ast.Name) and selfname and fn.value.id == selfname \
                and cls is not None:
            m = cls.find_method(fn.attr, "getter")
            if m is not None and not m.is_property:
                impls = [m]
                if m.is_abstract or _is_stub(m):
                    impls = []
                    for sub in [c for c in self.repo.all_classes() if any(x is cls for x in c.mro())]:
                        o = sub.own_method(fn.attr, "getter")
                        if o is not None and not _is_stub(o) and o not in impls:
                            impls.append(o)
                return impls, "self"
            return [], "self"
        d = dotted(fn)
        if d is not None:
            t = self.repo.resolve_name(f.module, d)
            if isinstance(t, FuncInfo):
                return [t], "none"
        return [], "other"

    # -------- access paths of an expression
    def inputs(self, f: FuncInfo, cls: Optional[ClassInfo], node_idx: int, expr: ast.AST, depth: int = 0,
               skip_vars: frozenset = frozenset()) -> set:
        df = self.df(f)
        selfname = df.selfname
        memo_key = (id(f.node), id(cls.node) if cls is not None else 0, node_idx, id(expr), skip_vars)
        if memo_key in self._inputs:
            return self._inputs[memo_key]  # finished result, or the empty set while in progress (cycle)
        self._inputs[memo_key] = set()
        res = Deps(df, skip_def=(lambda d: d.var in skip_vars)).deps(node_idx, expr)
        out: set = set()
        seen_src = set()
        for at, e in res.sources:
            if id(e) in seen_src:
                continue
            seen_src.add(id(e))
            out |= self._paths_of(f, cls, at, e, depth, selfname, skip_vars)
        # control dependence: a definition (or the expression itself) placed under an if / loop also depends on
        # what decides whether it executes
        encl = self._enclosing_tests(f)
        for n in sorted(res.def_nodes | {node_idx}):
            st = df.cfg.nodes[n].ast
            for t in encl.get(id(st), []):
                tn = df.cfg.stmt_node.get(id(t))
                if tn is None or tn == n:
                    continue
                head = t.test if isinstance(t, (ast.If, ast.While)) else t.iter
                out |= self.inputs(f, cls, tn, head, depth, skip_vars)
        self._inputs[memo_key] = out
        return out

    def _enclosing_tests(self, f: FuncInfo) -> dict[int, list[ast.AST]]:
        k = id(f.node)
        if k in self._encl:
            return self._encl[k]
        table: dict[int, list[ast.AST]] = {}

        def rec2(body_owner: ast.AST, stack: list[ast.AST]) -> None:
            for fld in ("body", "orelse", "finalbody"):
                for st in getattr(body_owner, fld, []) or []:
                    if isinstance(st, (ast.FunctionDef, ast.AsyncFunctionDef, ast.ClassDef)):
                        continue
                    table[id(st)] = list(stack)
                    if isinstance(st, (ast.If, ast.While, ast.For)):
                        rec2(st, stack + [st])
                    elif isinstance(st, (ast.With, ast.Try)):
                        rec2(st, stack)
                        for h in getattr(st, "handlers", []):
                            table[id(h)] = list(stack)
                            rec2(h, stack)
            return

        rec2(f.node, [])
        self._encl[k] = table
        return table

    def _is_param_root(self, df: DataFlow, at: int, name: str) -> bool:
        return any(d.kind == "param" for d in df.reaching(at, name))

    def _paths_of(self, f, cls, at, e, depth, selfname, skip_vars) -> set:
        df = self.df(f)
        out: set = set()
        handled: set[int] = set()
        parents: dict[int, ast.AST] = {}
        for n in ast.walk(e):
            for ch in ast.iter_child_nodes(n):
                parents[id(ch)] = n
        # calls first: package-defined callees are summarised, their argument sub-trees are not scanned again
        for c in ast.walk(e):
            if not isinstance(c, ast.Call) or id(c) in handled:
                continue
            impls, recv = self.resolve_call(c, f, cls)
            if not impls or depth >= MAX_DEPTH:
                if not impls and dotted(c.func):
                    self.unresolved.add(dotted(c.func))
                continue
            for impl in impls:
                summ = self.summary(impl, impl.cls if recv != "self" else cls, depth + 1)
                bound = _bind(c, impl)
                for p in summ:
                    if p[0] == "self":
                        if recv == "self":
                            out.add(p)
                        continue
                    _, q, a = p
                    arg = bound.get(q)
                    if arg is None:
                        continue
                    out |= self._map_arg(f, cls, at, arg, a, depth, skip_vars)
            for a in list(c.args) + [k.value for k in c.keywords]:
                for sub in ast.walk(a):
                    handled.add(id(sub))
            handled.add(id(c.func))
            if isinstance(c.func, ast.Attribute):
                for sub in ast.walk(c.func):
                    handled.add(id(sub))
        for n in ast.walk(e):
            if id(n) in handled:
                continue
            if isinstance(n, ast.Attribute) and isinstance(n.value, ast.Name) and selfname and n.value.id == selfname:
                if isinstance(n.ctx, ast.Load):
                    out.add(("self", n.attr))
                continue
            if isinstance(n, ast.Name) and isinstance(n.ctx, ast.Load) and n.id != selfname and n.id not in skip_vars:
                if self._is_param_root(df, at, n.id):
                    par = parents.get(id(n))
                    if isinstance(par, ast.Attribute) and par.value is n:
                        out.add(("param", n.id, self.alias(par.attr)))
                    else:
                        out.add(("param", n.id, WHOLE))
        return out

    def _map_arg(self, f, cls, at, arg: ast.AST, attr, depth, skip_vars) -> set:
        """Paths of the caller corresponding to `callee_param.attr` (attr may be WHOLE) for argument `arg`."""
        df = self.df(f)
        selfname = df.selfname
        if attr != WHOLE and isinstance(arg, ast.Name):
            if selfname and arg.id == selfname:
                return {("self", attr)}
            if self._is_param_root(df, at, arg.id) and len(df.reaching(at, arg.id)) == 1:
                return {("param", arg.id, self.alias(attr))}
        return self.inputs(f, cls, at, arg, depth, skip_vars)

    def summary(self, g: FuncInfo, cls: Optional[ClassInfo], depth: int) -> set:
        key = (id(g.node), id(cls.node) if cls is not None else 0)
        if key in self._summary:
            return self._summary[key]
        self._summary[key] = set()  # recursion guard
        df = self.df(g)
        out: set = set()
        for n in df.cfg.nodes:
            st = n.ast
            if n.kind == "stmt" and isinstance(st, ast.Return) and st.value is not None:
                out |= self.inputs(g, cls, n.idx, st.value, depth)
            elif n.kind == "stmt" and isinstance(st, ast.Expr) and isinstance(st.value, (ast.Yield, ast.YieldFrom)) \
                    and st.value.value is not None:
                out |= self.inputs(g, cls, n.idx, st.value.value, depth)
        self._summary[key] = out
        return out

    # -------- expand ("self", X) through properties of `cls` to leaf attributes
    def expand_self(self, cls: ClassInfo, paths: set, exclude: set[str]) -> tuple[set, set]:
        """-> (param paths, leaf self attributes)"""
        params = {p for p in paths if p[0] == "param"}
        leaves: set[str] = set()
        seen: set[str] = set()
        work = [p[1] for p in paths if p[0] == "self"]
        while work:
            a = work.pop()
            if a in seen or a in exclude:
                continue
            seen.add(a)
            g = cls.find_method(a, "getter")
            if g is not None and g.is_property:
                for p in self.summary(g, cls, 1):
                    if p[0] == "self":
                        work.append(p[1])
                continue
            if g is not None:
                continue  # bound method reference
            leaves.add(a)
        return params, leaves


def _is_stub(f: FuncInfo) -> bool:
    body = f.body
    return all(isinstance(s, ast.Pass) or (isinstance(s, ast.Expr) and isinstance(s.value, ast.Constant))
               or isinstance(s, ast.Raise) for s in body)


def _bind(call: ast.Call, callee: FuncInfo) -> dict[str, ast.expr]:
    params = callee.positional_params
    static = any(d == "staticmethod" for d in callee.decorators)
    if callee.cls is not None and not static and params:
        params = params[1:]
    out: dict[str, ast.expr] = {}
    for p, a in zip(params, call.args):
        if isinstance(a, ast.Starred):
            break
        out[p] = a
    for k in call.keywords:
        if k.arg:
            out[k.arg] = k.value
    return out


# ----------------------------------------------------------------------------------------- mutability of self attributes
def mutable_attrs(repo: Repo, cls: ClassInfo, flow: Flow) -> dict[str, str]:
    """Leaf attributes of `cls` objects that can change after construction -> where."""
    family = []
    for k in cls.mro() + [c for c in repo.all_classes() if any(x is cls for x in c.mro())]:
        if not any(k is x for x in family):
            family.append(k)
    out: dict[str, str] = {}

    def backing(c: ClassInfo, name: str) -> set[str]:
        g = c.find_method(name, "getter")
        if g is not None and g.is_property:
            _, leaves = flow.expand_self(c, {("self", name)}, set())
            return leaves
        return {name}

    for c in family:
        init_nodes = {id(f.node) for k in family for f in repo.init_chain(k)}
        for defs in c.methods.values():
            for f in defs:
                if id(f.node) in init_nodes or f.name in ("__init__", "__new__", "__setstate__"):
                    continue
                selfname = f.positional_params[0] if f.positional_params else None
                if selfname not in ("self",):
                    continue
                for n in walk_no_nested(f.node):
                    targets: list[ast.AST] = []
                    if isinstance(n, ast.Assign):
                        targets = list(n.targets)
                    elif isinstance(n, (ast.AugAssign, ast.AnnAssign)):
                        targets = [n.target]
                    elif isinstance(n, ast.Delete):
                        targets = list(n.targets)
                    for t in targets:
                        for e in (t.elts if isinstance(t, (ast.Tuple, ast.List)) else [t]):
                            chain = []
                            cur = e
                            while isinstance(cur, (ast.Attribute, ast.Subscript)):
                                if isinstance(cur, ast.Attribute):
                                    chain.append(cur.attr)
                                cur = cur.value
                            if isinstance(cur, ast.Name) and cur.id == selfname and chain:
                                first = chain[-1]
                                direct = isinstance(e, ast.Attribute) and len(chain) == 1
                                if direct:
                                    # assignment to a property goes through its setter, which is scanned itself
                                    if c.find_method(first, "setter") is not None:
                                        continue
                                    out.setdefault(first, f"{f.qualname} assigns self.{first}")
                                else:
                                    for b in backing(c, first):
                                        out.setdefault(b, f"{f.qualname} mutates self.{first} in place "
                                                          f"(`{norm_text(e)[:50]}`)")
    return out


# ----------------------------------------------------------------------------------------- memo recognition
class Memo:
    def __init__(self, kind, f, cls, cache_attrs, key_sites, value_site, note=""):
        self.kind = kind
        self.f: FuncInfo = f
        self.cls: ClassInfo = cls
        self.cache_attrs: set[str] = cache_attrs  # self attributes that hold the memo (excluded from inputs)
        self.key_sites: list[tuple[int, ast.AST]] = key_sites  # (CFG node, key expression)
        self.value_site: tuple[int, ast.AST] = value_site
        self.note = note


def _self_attr(e: ast.AST) -> Optional[str]:
    if isinstance(e, ast.Attribute) and isinstance(e.value, ast.Name) and e.value.id == "self":
        return e.attr
    return None


def _backing_of(flow: Flow, cls: ClassInfo, attr: str) -> set[str]:
    _, leaves = flow.expand_self(cls, {("self", attr)}, set())
    return leaves or {attr}


def find_memos(repo: Repo, flow: Flow) -> list[Memo]:
    memos: list[Memo] = []
    for c in repo.all_classes():
        for defs in c.methods.values():
            for f in defs:
                if f.is_setter or not f.positional_params or f.positional_params[0] != "self":
                    continue
                memos += _dict_memos(flow, f, c) + _slot_memos(flow, f, c)
    return memos


def _dict_memos(flow: Flow, f: FuncInfo, c: ClassInfo) -> list[Memo]:
    out = []
    for t in walk_no_nested(f.node):
        if not isinstance(t, ast.Try) or not t.handlers:
            continue
        h = None
        for hh in t.handlers:
            if hh.type is not None and "KeyError" in norm_text(hh.type):
                h = hh
        if h is None:
            continue
        # read  X = self.C[K]   in the try body
        read = None
        for st in t.body:
            v = st.value if isinstance(st, (ast.Assign, ast.Return, ast.Expr)) else None
            if isinstance(v, ast.Subscript) and _self_attr(v.value) is not None:
                read = (st, v)
        if read is None:
            continue
        # store self.C'[K'] = V in the handler
        store = None
        for st in h.body:
            for n in ast.walk(st):
                if isinstance(n, ast.Assign) and len(n.targets) == 1 and isinstance(n.targets[0], ast.Subscript) \
                        and _self_attr(n.targets[0].value) is not None:
                    store = n
        if store is None:
            continue
        rc = _backing_of(flow, c, _self_attr(read[1].value))
        sc = _backing_of(flow, c, _self_attr(store.targets[0].value))
        if rc != sc:
            continue  # not a memo of one table
        df = flow.df(f)
        read_node = df.cfg.node_of(read[0]).idx
        store_node = df.cfg.node_of(store).idx
        # value: RHS stored
        out.append(Memo("dict", f, c, rc | {_self_attr(read[1].value), _self_attr(store.targets[0].value)},
                        [(read_node, read[1].slice), (store_node, store.targets[0].slice)],
                        (store_node, store.value)))
    return out


def _slot_memos(flow: Flow, f: FuncInfo, c: ClassInfo) -> list[Memo]:
    """if key == self._k: return self._v   /   if self._v is not None: return self._v"""
    out = []
    df = None
    for st in f.body:
        if not isinstance(st, ast.If) or st.orelse:
            continue
        # equivalent keyless idiom:  if self._v is None: self._v = compute(...)   ...   return self._v
        t0 = st.test
        if isinstance(t0, ast.Compare) and len(t0.ops) == 1 and isinstance(t0.ops[0], ast.Is) and \
                _self_attr(t0.left) is not None and isinstance(t0.comparators[0], ast.Constant) and \
                t0.comparators[0].value is None and len(st.body) == 1 and isinstance(st.body[0], ast.Assign) and \
                any(_self_attr(t) == _self_attr(t0.left) for t in st.body[0].targets):
            slot0 = _self_attr(t0.left)
            returns_slot = any(isinstance(r, ast.Return) and _self_attr(r.value) == slot0 for r in f.body)
            n_stores = sum(1 for n in walk_no_nested(f.node) if isinstance(n, ast.Assign)
                           and any(_self_attr(t) == slot0 for t in n.targets))
            if returns_slot and n_stores == 1:
                df0 = flow.df(f)
                out.append(Memo("keyless", f, c, {slot0}, [], (df0.cfg.node_of(st.body[0]).idx, st.body[0].value)))
            continue
        if not (len(st.body) == 1 and isinstance(st.body[0], ast.Return) and _self_attr(st.body[0].value) is not None):
            continue
        slot = _self_attr(st.body[0].value)
        test = st.test
        key_expr = key_attr = None
        keyless = False
        if isinstance(test, ast.Compare) and len(test.ops) == 1 and isinstance(test.ops[0], ast.Eq):
            a, b = test.left, test.comparators[0]
            for x, y in ((a, b), (b, a)):
                if _self_attr(y) is not None and _self_attr(x) is None:
                    key_expr, key_attr = x, _self_attr(y)
        elif isinstance(test, ast.Compare) and len(test.ops) == 1 and isinstance(test.ops[0], ast.IsNot) and \
                _self_attr(test.left) == slot and isinstance(test.comparators[0], ast.Constant) and \
                test.comparators[0].value is None:
            keyless = True
        else:
            continue
        if key_expr is None and not keyless:
            continue
        # later store self.<slot> = compute
        stores = [n for n in walk_no_nested(f.node) if isinstance(n, ast.Assign) and any(
            _self_attr(t) == slot for t in n.targets)]
        if len(stores) != 1:
            continue
        df = flow.df(f)
        vnode = df.cfg.node_of(stores[0]).idx
        tnode = df.cfg.node_of(st).idx
        if keyless:
            out.append(Memo("keyless", f, c, {slot}, [], (vnode, stores[0].value)))
        else:
            kstores = [n for n in walk_no_nested(f.node) if isinstance(n, ast.Assign) and any(
                _self_attr(t) == key_attr for t in n.targets)]
            if len(kstores) != 1:
                raise AnalysisError(f"{f.qualname}: slot memo with {len(kstores)} stores of self.{key_attr}")
            knode = df.cfg.node_of(kstores[0]).idx
            out.append(Memo("slot", f, c, {slot, key_attr}, [(tnode, key_expr), (knode, kstores[0].value)],
                            (vnode, stores[0].value)))
    return out


# ----------------------------------------------------------------------------------------- lifetime of the owning object
def held_sites(repo: Repo, cls: ClassInfo) -> tuple[list[str], int]:
    """Construction sites of `cls` (or a subclass) whose object outlives the constructing call."""
    family = {id(c.node) for c in repo.all_classes() if any(x is cls for x in c.mro())}
    held: list[str] = []
    n_sites = 0
    for f in repo.all_functions():
        for n in ast.walk(f.node):
            if not isinstance(n, ast.Call):
                continue
            d = dotted(n.func)
            if d is None:
                continue
            t = repo.resolve_name(f.module, d)
            if not (isinstance(t, ClassInfo) and id(t.node) in family):
                continue
            n_sites += 1
            why = _escapes(repo, f, n)
            if why:
                held.append(f"{f.qualname}: {why}")
    return held, n_sites


def _escapes(repo: Repo, f: FuncInfo, ctor: ast.Call) -> Optional[str]:
    parents: dict[int, ast.AST] = {}
    for n in ast.walk(f.node):
        for ch in ast.iter_child_nodes(n):
            parents[id(ch)] = n

    def is_ctor_like(call: ast.Call) -> bool:
        fn = call.func
        if isinstance(fn, ast.Attribute) and fn.attr == "__init__":
            return True
        d = dotted(fn)
        if d:
            t = repo.resolve_name(f.module, d)
            if isinstance(t, ClassInfo):
                return True
            if d in ("cls",) or d.endswith(".__class__"):
                return True
        return False

    def use_escapes(node: ast.AST) -> Optional[str]:
        par = parents.get(id(node))
        while isinstance(par, (ast.Tuple, ast.List, ast.Dict, ast.Starred, ast.IfExp)):
            node, par = par, parents.get(id(par))
        if isinstance(par, ast.keyword):
            call = parents.get(id(par))
            if isinstance(call, ast.Call) and is_ctor_like(call):
                return f"passed to constructor `{norm_text(call.func)}`"
            return None
        if isinstance(par, ast.Call) and node in par.args:
            if is_ctor_like(par):
                return f"passed to constructor `{norm_text(par.func)}`"
            return None
        if isinstance(par, (ast.Return, ast.Yield)):
            return "returned"
        if isinstance(par, ast.Assign) and par.value is node:
            for t in par.targets:
                if isinstance(t, (ast.Attribute, ast.Subscript)):
                    return f"stored into `{norm_text(t)}`"
        return None

    r = use_escapes(ctor)
    if r:
        return r
    par = parents.get(id(ctor))
    if isinstance(par, ast.Assign) and par.value is ctor:
        for t in par.targets:
            if isinstance(t, ast.Name):
                for n in ast.walk(f.node):
                    if isinstance(n, ast.Name) and n.id == t.id and isinstance(n.ctx, ast.Load):
                        r = use_escapes(n)
                        if r:
                            return r
    return None


# ----------------------------------------------------------------------------------------- run
ANCHORS = [
    ("abtem.integrals", "ScatteringFactorProjectionIntegrals", "get_scattering_factor", "dict"),
    ("abtem.integrals", "QuadratureProjectionIntegrals", "get_integral_table", "dict"),
    ("abtem.multislice", "FresnelPropagator", "get_array", "slot"),
    ("abtem.antialias", "AntialiasAperture", "get_array", "slot"),
    ("abtem.finite_difference", "LaplaceOperator", "get_stencil", "slot"),
    ("abtem.potentials.iam", "_FieldBuilderFromAtoms", "get_sliced_atoms", "keyless"),
]


def _fmt(p: Path) -> str:
    if p[0] == "self":
        return f"self.{p[1]}"
    return p[1] if p[2] == WHOLE else f"{p[1]}.{p[2]}"


def run(ctx) -> None:
    repo = ctx.repo
    rule = "R-MEMOKEY"
    ctx.rule(rule, "for every memo (dict memo try/except KeyError, single-slot `if key == self._key: return`, keyless "
             "`if self._x is not None: return`): each access path (parameter, parameter.attribute, mutable self "
             "attribute) that flows into the memoised value — through package-defined callees, property getters and "
             "self-method calls — also flows into the key; self attributes never assigned or mutated outside the "
             "executed constructor chain are exempt (immutable for the cache's lifetime); a keyless memo may depend "
             "on immutable attributes only. Omissions in caches whose owner never outlives a single call are latent "
             "(info)")
    ctx.undecided("that rebuilding after a grid change equals a fresh potential numerically")
    ctx.undecided("ambient configuration read inside memoised values (config.get('antialias.*'), precision) is not "
                  "part of any key; changing the configuration between calls is outside C11's histories")
    ctx.undecided("objects mutated from outside through aliases (e.g. grid.match) are covered only via the "
                  "mutability of the attribute that holds them")

    flow = Flow(repo)
    memos = find_memos(repo, flow)
    found = {(m.f.module.name, m.cls.name, m.f.name): m for m in memos}
    for mod, cname, meth, kind in ANCHORS:
        m = found.get((mod, cname, meth))
        ctx.require(m is not None and m.kind == kind,
                    f"anchored memo {mod}.{cname}.{meth} ({kind}) was not recognised "
                    f"(found: {m.kind if m else 'nothing'})")
    ctx.require(len(memos) >= 6, f"only {len(memos)} memo patterns recognised")

    mut_cache: dict[int, dict[str, str]] = {}
    held_cache: dict[int, tuple] = {}
    for m in sorted(memos, key=lambda m: m.f.qualname):
        f, c = m.f, m.cls
        # concrete classes the method runs on: the defining class and every subclass inheriting it
        runs_on = [k for k in repo.all_classes() if any(x is c for x in k.mro()) and k.find_method(f.name, "getter") is f]
        v_paths: set = set()
        k_paths: set = set()
        for k in runs_on or [c]:
            vp = flow.inputs(f, k, m.value_site[0], m.value_site[1], 0, frozenset())
            v_par, v_leaves = flow.expand_self(k, vp, m.cache_attrs)
            v_paths |= v_par | {("self", a) for a in v_leaves}
            for node, ke in m.key_sites:
                kp = flow.inputs(f, k, node, ke, 0, frozenset())
                k_par, k_leaves = flow.expand_self(k, kp, m.cache_attrs)
                k_paths |= k_par | {("self", a) for a in k_leaves}
        if id(c.node) not in mut_cache:
            mut_cache[id(c.node)] = mutable_attrs(repo, c, flow)
        mut = mut_cache[id(c.node)]

        # dict memos: read key and write key must be the same term
        key_mismatch = ""
        if m.kind == "dict":
            a, b = m.key_sites[0][1], m.key_sites[1][1]
            if norm_text(a) != norm_text(b):
                pa = flow.inputs(f, c, m.key_sites[0][0], a)
                pb = flow.inputs(f, c, m.key_sites[1][0], b)
                if pa != pb:
                    key_mismatch = f"the table is read with key `{norm_text(a)}` but written with `{norm_text(b)}`"

        def covered(p: Path) -> bool:
            if p in k_paths:
                return True
            if p[0] == "param" and ("param", p[1], WHOLE) in k_paths:
                return True
            return False

        missing = []
        immut = []
        for p in sorted(v_paths, key=str):
            if covered(p):
                continue
            if p[0] == "self":
                if p[1] in mut:
                    missing.append((p, mut[p[1]]))
                else:
                    immut.append(p)
                continue
            missing.append((p, ""))
        # an attribute path of a parameter that is missing as a whole adds nothing to the message
        whole_missing = {p[1] for p, _ in missing if p[0] == "param" and p[2] == WHOLE}
        missing = [(p, w) for p, w in missing if not (p[0] == "param" and p[2] != WHOLE and p[1] in whole_missing)]
        if id(c.node) not in held_cache:
            held_cache[id(c.node)] = held_sites(repo, c)
        held, n_sites = held_cache[id(c.node)]
        per_call = n_sites > 0 and not held
        construct = f.qualname
        key_txt = ("[" + ", ".join(_fmt(p) for p in sorted(k_paths, key=str)) + "]") if m.key_sites else "(no key)"
        detail_ok = (f"{m.kind} memo, key {key_txt}: every input of the value is keyed "
                     f"[{', '.join(_fmt(p) for p in sorted(v_paths, key=str) if covered(p)) or '-'}]"
                     + (f"; immutable after construction: {', '.join(_fmt(p) for p in immut)}" if immut else ""))
        if key_mismatch:
            ctx.violation(rule, construct, f.where, key_mismatch, key_detail="key-mismatch")
            continue
        if not missing:
            ctx.ok(rule, construct, f.where, detail_ok)
            continue
        miss_txt = ", ".join(_fmt(p) + (f" ({why})" if why else "") for p, why in missing)
        msg = (f"{m.kind} memo `{norm_text(m.value_site[1])[:70]}` keyed by {key_txt}: the value also depends on "
               f"{miss_txt}, which the key omits — after these change the stale entry is returned")
        if per_call:
            ctx.info(rule, construct, f.where, "LATENT (the owning object is created per call at all "
                     f"{n_sites} construction sites and never stored): " + msg)
            ctx.ok(rule, construct, f.where, f"{m.kind} memo, key {key_txt}: key omissions are latent only "
                   f"({', '.join(_fmt(p) for p, _ in missing)}) — owner never outlives one call", nontrivial=True)
        else:
            life = (f"the owner outlives the call ({held[0]})" if held else
                    "no construction site in the package (user-held object)")
            ctx.violation(rule, construct, f.where, msg + f"; {life}", key_detail="key-omits")
    ctx.extra["memo_patterns_recognised"] = len(memos)
    ctx.extra["unresolved_callees_treated_conservatively"] = sorted(flow.unresolved)[:60]


# ---- added: package rule R-CACHEKEY (sa/rules/memo2.py) for the modules this property is anchored in
_inner_run = run


def run(ctx) -> None:  # noqa: F811
    from ..rules import memo2

    ctx.rule("R-CACHEKEY", memo2.__doc__.split("\n\n", 1)[1])
    memo2.positive_control(ctx)
    n = memo2.check(ctx, modules={"abtem.integrals", "abtem.potentials.iam", "abtem.multislice", "abtem.antialias", "abtem.finite_difference", "abtem.magnetism.iam", "abtem.potentials.charge_density", "abtem.potentials.gpaw", "abtem.slicing"})
    ctx.ok("R-CACHEKEY", "scan", "abtem/", f"{n} cache stores found in the anchored modules; positive control matched")
    _inner_run(ctx)


# ---- added: grid setters of potentials must not assign their own property (found on the tree: CrystalPotential.sampling)
_inner_run_c11b = run


def run(ctx) -> None:  # noqa: F811
    import ast as _ast

    from ..model import dotted as _dotted, norm_text as _nt, walk_no_nested as _walk

    ctx.rule("R-SETTERSELF", "a property setter of a potential / field class never assigns its own property on self "
             "(`self.sampling = ...` inside the `sampling` setter calls the setter again, without bound): changing the "
             "grid of such a potential raises RecursionError instead of re-gridding it.  The grid setters of "
             "CrystalPotential forward the new value to self.grid and to the potential unit")
    repo = ctx.repo
    mods = ("abtem.potentials.iam", "abtem.potentials.charge_density", "abtem.potentials.gpaw", "abtem.magnetism.iam",
            "abtem.core.grid")
    # positive control
    ctrl = _ast.parse("class K:\n    @property\n    def s(self):\n        return 1\n    @s.setter\n    def s(self, v):\n        self.s = v\n")
    cs = [st for st in _ast.walk(ctrl) if isinstance(st, _ast.Assign) and _dotted(st.targets[0]) == "self.s"]
    ctx.require(len(cs) == 1, "R-SETTERSELF positive control failed")
    n = 0
    for mname in mods:
        mod = repo.modules.get(mname)
        if mod is None:
            continue
        for c in mod.classes.values():
            for defs in c.methods.values():
                for f in defs:
                    if not f.is_setter:
                        continue
                    n += 1
                    own = [st for st in _walk(f.node) if isinstance(st, (_ast.Assign, _ast.AugAssign)) and any(
                        _dotted(t) == f"self.{f.name}" for t in (st.targets if isinstance(st, _ast.Assign) else [st.target]))]
                    ctx.check(not own, "R-SETTERSELF", f"{f.qualname}.setter", f.loc(own[0]) if own else f.where,
                              "does not assign its own property",
                              f"`{_nt(own[0])}` inside the `{f.name}` setter invokes the setter again: unbounded "
                              "recursion, the potential's grid cannot be changed" if own else "", key_detail="self-assign")
    ctx.require(n >= 6, f"R-SETTERSELF examined only {n} setters")
    _inner_run_c11b(ctx)


# ---- added: R-GRIDHISTORY (seeded change C11-r7seed3) — the state a Grid setter leaves does not depend on the value a
# recomputed field had before the edit.  Built on C17's symbolic interpreter of the Grid setters.
_inner_run_c11_hist = run


def _grid_history(ctx) -> None:
    from . import c17 as gs

    repo = ctx.repo
    cls = repo.cls(gs.MOD, "Grid")
    it = gs.Interp(gs._Muted(ctx), cls)
    groups: dict[tuple, list] = {}
    setters: dict[str, object] = {}
    for setter, pname, kind, defined, locks, v_none, init, o in gs._setter_outcomes(it, repo):
        setters[pname] = setter
        # a potential that has been used has a fully defined grid; the edit assigns a value
        if v_none or not all(defined):
            continue
        groups.setdefault((pname, locks), []).append((init, o))
    ctx.require(set(setters) == set(gs.PROPS), "R-GRIDHISTORY did not reach the three Grid setters")

    stats = {p: {"configs": 0, "paths": 0, "compared": 0, "bad": {}} for p in setters}
    for (pname, locks), items in groups.items():
        s = stats[pname]
        s["configs"] += 1
        init = items[0][0]
        E0, G0, S0 = init["_extent"], init["_gpts"], init["_sampling"]
        # the grid was consistent before the edit
        rules0 = {gs.adj("E", G0, S0): E0, gs.adj("S", E0, G0): S0, gs.adj("G", E0, S0): G0}
        live = [o for _, o in items if o.status != "raise"]
        s["paths"] += len(live)
        for o in live:
            if not o.facts:
                continue
            rules = gs.fact_rules(o.facts, rules0, strict=True)
            olds = [x for a, b in o.facts for x in (a, b) if x in (E0, G0, S0)]
            mine = set(o.facts)
            refs = [r for r in live if r is not o and set(r.facts) < mine
                    and it.satisfiable(list(o.epconds) + list(r.epconds))]
            if not refs:
                continue  # the other arm raises: nothing to compare with (e.g. a locked extent re-assigned)
            s["compared"] += 1
            got = tuple(gs.simplify(o.fields[f], rules) for f in gs.FIELDS)
            exps = [tuple(gs.simplify(r.fields[f], rules) for f in gs.FIELDS) for r in refs]
            if got in exps:
                continue
            what = "+".join(sorted({gs.KIND_NAME[gs.kind_of(x)] for x in olds})) or "value"
            e = s["bad"].setdefault(what, {"n": 0})
            e["n"] += 1
            e.setdefault("text", (
                f"a test finds {' and '.join(gs.show(a) + ' == ' + gs.show(b) for a, b in o.facts)} (a quantity "
                f"compared with the {what} the grid had BEFORE this edit) and the arm taken then leaves "
                f"(extent, gpts, sampling) = ({', '.join(gs.show(x) for x in got)}), whereas the other arm — the one a "
                f"grid with any other previous {what} takes for the same assigned value — leaves "
                f"({', '.join(gs.show(x) for x in exps[0])}) under the same equality: the grid after `grid.{pname} = "
                f"new` depends on its history, so a potential re-gridded to `new` is built on a different grid than a "
                f"fresh one given `new`; stores on the path: {'; '.join(o.trace) or 'none'} "
                f"[first configuration: {gs._cfg_text((True, True, True), locks, False, pname)}"))
    for pname, s in sorted(stats.items()):
        f = setters[pname]
        for what, e in sorted(s["bad"].items()):
            ctx.violation("R-GRIDHISTORY", f"{f.qualname}:setter", f.where, e["text"] + f"; {e['n']} path(s)]",
                          key_detail=f"previous-{what}")
        if not s["bad"]:
            ctx.ok("R-GRIDHISTORY", f"{f.qualname}:setter", f.where,
                   f"{s['configs']} lock configurations of a fully defined grid, {s['paths']} non-raising paths, "
                   f"{s['compared']} arm(s) selected by an equality with a previous value: each leaves the state the "
                   "other arm leaves under that equality")


def run(ctx) -> None:  # noqa: F811
    ctx.rule("R-GRIDHISTORY", "symbolic interpretation of the Grid extent/gpts/sampling setters (the interpreter of "
             "C17) on every lock configuration of a fully defined, consistent grid: the state (extent, gpts, sampling) "
             "an assignment leaves is a function of the assigned value and of the fields the edit keeps.  Whenever a "
             "path is selected by an equality test between grid quantities (a re-derived field compared with a "
             "snapshot of it taken before the edit, the new value compared with the current one), the state it leaves "
             "must be the state the other arm leaves, rewritten with that equality and the consistency of the grid "
             "before the edit (extent == gpts * sampling); a no-op shortcut satisfies this, a shortcut that stores a "
             "different term does not.  Necessary: Potential re-grids through these setters (lock_extent grid), and a "
             "reused potential must be built on the grid a fresh potential with the same parameters gets")
    _grid_history(ctx)
    _inner_run_c11_hist(ctx)
