"""C25 — each atomic potential parametrization is internally consistent (two structural clauses only).

The analytic content of C25 (the real-space and reciprocal-space kernels are a Fourier pair, positivity,
monotonicity) is not decidable statically.  Two necessary conditions are:
the tables an element's forms are computed from are never modified by computing a form, and every function a
parametrization offers has scaled parameters.
"""
from __future__ import annotations

import ast

from ..cfg import DataFlow
from ..model import AnalysisError, call_name, dotted, norm_text, walk_no_nested

MOD = "abtem.parametrizations"
COPY_CALLS = {"np.array", "numpy.array", "copy.copy", "copy.deepcopy", "copy", "deepcopy", "np.copy", "list"}
ALIAS_CALLS = {"np.asarray", "numpy.asarray", "np.asanyarray", "np.ascontiguousarray", "np.atleast_1d",
               "np.atleast_2d"}


def _is_stored(e: ast.AST) -> bool:
    """self.parameters[...] / self._parameters[...] (or the dict itself)."""
    while isinstance(e, ast.Subscript):
        e = e.value
    return dotted(e) in ("self.parameters", "self._parameters")


def run(ctx) -> None:
    repo = ctx.repo
    ctx.rule("R-TABLEOWN", "a `scaled_parameters` accessor never modifies the stored coefficient table of an element: a "
             "local that may alias self.parameters[symbol] (assigned without a copy, e.g. through np.asarray or plain "
             "indexing) is not the target of an in-place update; otherwise each evaluation rescales the table again and "
             "the real-space and reciprocal-space forms of the same element are computed from different coefficients")
    ctx.rule("R-FUNCKEYS", "every function name a parametrization offers (`_functions`) has an entry in the table "
             "returned by its scaled_parameters, and no entry is offered without a function")
    ctx.undecided("that the real-space and reciprocal-space kernels are a Fourier pair; positivity and monotonicity of "
                  "the radial functions; the numerical tables themselves")
    base = repo.cls(MOD, "Parametrization")
    classes = [c for c in repo.subclasses(base) if c.own_method("scaled_parameters") is not None]
    ctx.require(len(classes) >= 3, f"only {len(classes)} scaled_parameters implementations found")
    for c in sorted(classes, key=lambda k: k.name):
        f = c.own_method("scaled_parameters")
        df = DataFlow(f.node)

        def may_alias(name: str, at: int, seen=()) -> bool:
            for d in df.reaching(at, name):
                if d.kind == "param":
                    continue
                v = d.value
                if d.kind != "assign" or v is None:
                    continue
                if _is_stored(v):
                    return True
                if isinstance(v, ast.Call):
                    cn = call_name(v) or ""
                    if cn in ALIAS_CALLS and v.args and (_is_stored(v.args[0]) or (
                            isinstance(v.args[0], ast.Name) and v.args[0].id not in seen
                            and may_alias(v.args[0].id, d.node, seen + (name,)))):
                        return True
                    if cn in ("np.array", "numpy.array") and any(
                            k.arg == "copy" and isinstance(k.value, ast.Constant) and k.value.value is False
                            for k in v.keywords) and v.args and _is_stored(v.args[0]):
                        return True
                if isinstance(v, ast.Name) and v.id not in seen and may_alias(v.id, d.node, seen + (name,)):
                    return True
                if isinstance(v, ast.Subscript) and isinstance(v.value, ast.Name) and v.value.id not in seen and \
                        may_alias(v.value.id, d.node, seen + (name,)):
                    return True  # a view of an aliasing array
            return False

        n_updates = 0
        for node in df.cfg.nodes:
            st = node.ast
            if st is None or node.kind != "stmt":
                continue
            tgt = None
            if isinstance(st, ast.AugAssign):
                tgt = st.target
            elif isinstance(st, ast.Assign) and isinstance(st.targets[0], ast.Subscript):
                tgt = st.targets[0]
            if tgt is None:
                continue
            b = tgt
            while isinstance(b, ast.Subscript):
                b = b.value
            if _is_stored(tgt) and isinstance(tgt, ast.Subscript):
                n_updates += 1
                ctx.violation("R-TABLEOWN", f"{f.qualname}:{norm_text(tgt)}", f.loc(st),
                              f"`{norm_text(st)[:70]}` writes the stored table", key_detail="direct")
                continue
            if isinstance(b, ast.Name) and (tgt is not b or isinstance(st, ast.AugAssign)):
                n_updates += 1
                bad = may_alias(b.id, node.idx)
                ctx.check(not bad, "R-TABLEOWN", f"{f.qualname}:{norm_text(st)[:50]}", f.loc(st),
                          f"`{b.id}` is a private copy when it is updated in place",
                          f"`{norm_text(st)[:70]}` updates `{b.id}` in place while it may still be the stored table "
                          f"self.parameters[...] (no copy was made): the table is rescaled again on every call",
                          key_detail="alias")
        # the source of every table read is a copy or is only read
        reads = [st for st in walk_no_nested(f.node) if isinstance(st, ast.Assign) and any(
            _is_stored(x) for x in ast.walk(st.value))]
        if not reads:
            ctx.info("R-TABLEOWN", f.qualname, f.where, "does not read a stored coefficient table")
        for st in reads:
            v = st.value
            copied = isinstance(v, ast.Call) and (call_name(v) or "") in COPY_CALLS and not any(
                k.arg == "copy" and isinstance(k.value, ast.Constant) and k.value.value is False for k in v.keywords)
            name = norm_text(st.targets[0])
            returned_or_updated = n_updates > 0
            ctx.ok("R-TABLEOWN", f"{f.qualname}:read {name}", f.loc(st),
                   ("table copied on read" if copied else "table read without a copy (never updated in place)"))

        # ---- R-FUNCKEYS
        fa = c.find_class_attr("_functions")
        dicts = [d for d in walk_no_nested(f.node) if isinstance(d, ast.Dict) and d.keys and all(
            isinstance(k, ast.Constant) and isinstance(k.value, str) for k in d.keys)]
        if fa is None or not isinstance(fa[1], ast.Dict) or not dicts:
            ctx.info("R-FUNCKEYS", c.qualname, c.where, "no literal `_functions` / scaled-parameter table to compare")
            continue
        offered = {k.value for k in fa[1].keys if isinstance(k, ast.Constant)}
        table = {k.value for k in dicts[-1].keys}
        missing = sorted(offered - table)
        ctx.check(not missing, "R-FUNCKEYS", c.qualname, c.where,
                  f"{len(offered)} offered functions all have scaled parameters",
                  f"functions {missing} of {c.name} have no entry in the scaled-parameter table (KeyError on use)",
                  key_detail="keys")
        extra = sorted(table - offered)
        if extra:
            ctx.info("R-FUNCKEYS", c.qualname, c.where, f"scaled parameters without a function: {extra}")


# ---- added after the seeded change C25-r3seed3: memoised parameter arrays follow the table they were derived from
_inner_run_c25 = run


def run(ctx) -> None:  # noqa: F811
    from ..report import OnlyConstructs
    from . import c11

    ctx.rule("R-MEMOKEY", "(the package rule of C11, kept for abtem/parametrizations) a value memoised on a "
             "parametrization object is keyed by everything it depends on, including mutable attributes of the "
             "object: the coefficient table can be replaced by from_json() / fit(), so converted parameter arrays "
             "cached per (function, symbol) must be invalidated or keyed by the table — otherwise functions "
             "requested before and after the change describe different atoms and the real-space and reciprocal-space "
             "forms no longer belong together")
    c11._inner_run(OnlyConstructs(ctx, ("abtem.parametrizations",)))
    _inner_run_c25(ctx)

