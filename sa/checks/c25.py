"""C25 — each atomic potential parametrization is internally consistent (two structural clauses only).

The analytic content of C25 (the real-space and reciprocal-space kernels are a Fourier pair, positivity,
monotonicity) is not decidable statically.  Two necessary conditions are:
the tables an element's forms are computed from are never modified by computing a form, and every function a
parametrization offers has scaled parameters.
"""
from __future__ import annotations

import ast
from fractions import Fraction

from ..cfg import DataFlow
from ..model import AnalysisError, call_name, dotted, norm_text, walk_no_nested

MOD = "abtem.parametrizations"
COPY_CALLS = {"np.array", "numpy.array", "copy.copy", "copy.deepcopy", "copy", "deepcopy", "np.copy", "list"}
ALIAS_CALLS = {"np.asarray", "numpy.asarray", "np.asanyarray", "np.ascontiguousarray", "np.atleast_1d",
               "np.atleast_2d"}


def _is_stored(e: ast.AST) -> bool:
    """self.parameters[...] / self._parameters[...] (or the dict itself)."""
    while isinstance(e, ast.Subscript):
        e = e.value
    return dotted(e) in ("self.parameters", "self._parameters")


def run(ctx) -> None:
    repo = ctx.repo
    ctx.rule("R-TABLEOWN", "a `scaled_parameters` accessor never modifies the stored coefficient table of an element: a "
             "local that may alias self.parameters[symbol] (assigned without a copy, e.g. through np.asarray or plain "
             "indexing) is not the target of an in-place update; otherwise each evaluation rescales the table again and "
             "the real-space and reciprocal-space forms of the same element are computed from different coefficients")
    ctx.rule("R-FUNCKEYS", "every function name a parametrization offers (`_functions`) has an entry in the table "
             "returned by its scaled_parameters, and no entry is offered without a function")
    ctx.undecided("that the real-space and reciprocal-space kernels are a Fourier pair; positivity and monotonicity of "
                  "the radial functions; the numerical tables themselves")
    base = repo.cls(MOD, "Parametrization")
    classes = [c for c in repo.subclasses(base) if c.own_method("scaled_parameters") is not None]
    ctx.require(len(classes) >= 3, f"only {len(classes)} scaled_parameters implementations found")
    for c in sorted(classes, key=lambda k: k.name):
        f = c.own_method("scaled_parameters")
        df = DataFlow(f.node)

        def may_alias(name: str, at: int, seen=()) -> bool:
            for d in df.reaching(at, name):
                if d.kind == "param":
                    continue
                v = d.value
                if d.kind != "assign" or v is None:
                    continue
                if _is_stored(v):
                    return True
                if isinstance(v, ast.Call):
                    cn = call_name(v) or ""
                    if cn in ALIAS_CALLS and v.args and (_is_stored(v.args[0]) or (
                            isinstance(v.args[0], ast.Name) and v.args[0].id not in seen
                            and may_alias(v.args[0].id, d.node, seen + (name,)))):
                        return True
                    if cn in ("np.array", "numpy.array") and any(
                            k.arg == "copy" and isinstance(k.value, ast.Constant) and k.value.value is False
                            for k in v.keywords) and v.args and _is_stored(v.args[0]):
                        return True
                if isinstance(v, ast.Name) and v.id not in seen and may_alias(v.id, d.node, seen + (name,)):
                    return True
                if isinstance(v, ast.Subscript) and isinstance(v.value, ast.Name) and v.value.id not in seen and \
                        may_alias(v.value.id, d.node, seen + (name,)):
                    return True  # a view of an aliasing array
            return False

        n_updates = 0
        for node in df.cfg.nodes:
            st = node.ast
            if st is None or node.kind != "stmt":
                continue
            tgt = None
            if isinstance(st, ast.AugAssign):
                tgt = st.target
            elif isinstance(st, ast.Assign) and isinstance(st.targets[0], ast.Subscript):
                tgt = st.targets[0]
            if tgt is None:
                continue
            b = tgt
            while isinstance(b, ast.Subscript):
                b = b.value
            if _is_stored(tgt) and isinstance(tgt, ast.Subscript):
                n_updates += 1
                ctx.violation("R-TABLEOWN", f"{f.qualname}:{norm_text(tgt)}", f.loc(st),
                              f"`{norm_text(st)[:70]}` writes the stored table", key_detail="direct")
                continue
            if isinstance(b, ast.Name) and (tgt is not b or isinstance(st, ast.AugAssign)):
                n_updates += 1
                bad = may_alias(b.id, node.idx)
                ctx.check(not bad, "R-TABLEOWN", f"{f.qualname}:{norm_text(st)[:50]}", f.loc(st),
                          f"`{b.id}` is a private copy when it is updated in place",
                          f"`{norm_text(st)[:70]}` updates `{b.id}` in place while it may still be the stored table "
                          f"self.parameters[...] (no copy was made): the table is rescaled again on every call",
                          key_detail="alias")
        # the source of every table read is a copy or is only read
        reads = [st for st in walk_no_nested(f.node) if isinstance(st, ast.Assign) and any(
            _is_stored(x) for x in ast.walk(st.value))]
        if not reads:
            ctx.info("R-TABLEOWN", f.qualname, f.where, "does not read a stored coefficient table")
        for st in reads:
            v = st.value
            copied = isinstance(v, ast.Call) and (call_name(v) or "") in COPY_CALLS and not any(
                k.arg == "copy" and isinstance(k.value, ast.Constant) and k.value.value is False for k in v.keywords)
            name = norm_text(st.targets[0])
            returned_or_updated = n_updates > 0
            ctx.ok("R-TABLEOWN", f"{f.qualname}:read {name}", f.loc(st),
                   ("table copied on read" if copied else "table read without a copy (never updated in place)"))

        # ---- R-FUNCKEYS
        fa = c.find_class_attr("_functions")
        dicts = [d for d in walk_no_nested(f.node) if isinstance(d, ast.Dict) and d.keys and all(
            isinstance(k, ast.Constant) and isinstance(k.value, str) for k in d.keys)]
        if fa is None or not isinstance(fa[1], ast.Dict) or not dicts:
            ctx.info("R-FUNCKEYS", c.qualname, c.where, "no literal `_functions` / scaled-parameter table to compare")
            continue
        offered = {k.value for k in fa[1].keys if isinstance(k, ast.Constant)}
        table = {k.value for k in dicts[-1].keys}
        missing = sorted(offered - table)
        ctx.check(not missing, "R-FUNCKEYS", c.qualname, c.where,
                  f"{len(offered)} offered functions all have scaled parameters",
                  f"functions {missing} of {c.name} have no entry in the scaled-parameter table (KeyError on use)",
                  key_detail="keys")
        extra = sorted(table - offered)
        if extra:
            ctx.info("R-FUNCKEYS", c.qualname, c.where, f"scaled parameters without a function: {extra}")


# ---- added after the seeded change C25-r3seed3: memoised parameter arrays follow the table they were derived from
_inner_run_c25 = run


def run(ctx) -> None:  # noqa: F811
    from ..report import OnlyConstructs
    from . import c11

    ctx.rule("R-MEMOKEY", "(the package rule of C11, kept for abtem/parametrizations) a value memoised on a "
             "parametrization object is keyed by everything it depends on, including mutable attributes of the "
             "object: the coefficient table can be replaced by from_json() / fit(), so converted parameter arrays "
             "cached per (function, symbol) must be invalidated or keyed by the table — otherwise functions "
             "requested before and after the change describe different atoms and the real-space and reciprocal-space "
             "forms no longer belong together")
    c11._inner_run(OnlyConstructs(ctx, ("abtem.parametrizations",)))
    _inner_run_c25(ctx)


# ---- added after the mutation sweep: the conversions between the forms of one atom are decided as term identities
_inner_run_c25_forms = run


def run(ctx) -> None:  # noqa: F811
    from ..rules import c25_forms as F
    from ..rules.ratfun import Rat
    from ..terms import PI, Poly

    ctx.rule("R-CENTRALSLICE", "the projected scattering factor of a parametrization is the 2D Fourier transform of its "
             "projected potential, i.e. (Fourier slice theorem) the central slice of the 3D transform of its potential, "
             "which is scattering_factor / kappa.  Both callables take the squared spatial frequency, so for every "
             "component j:  kappa * K_psf(x; scaled('projected_scattering_factor')) == K_sf(x; scaled('scattering_factor')) "
             "as rational functions of x, the table rows, pi and kappa (exp factors compared by the normal form of "
             "their argument).  The scaled rows are read from scaled_parameters, the kernels K from "
             "abtem/parametrizations/functions.  A wrong power, a swapped table row or a misplaced kappa in a "
             "conversion makes the reciprocal-space forms describe different atoms")
    ctx.rule("R-GAUSSPAIR", "Gaussian addends A*exp(-B*r^2) of the potential kernel: the projected potential has the "
             "addend A*sqrt(pi/B)*exp(-B*r^2) (analytic projection along z) and the projected scattering factor the "
             "addend A'*exp(-B'*k^2) with A' = A_pp*pi/B_pp, B' = pi^2/B_pp (2D Fourier transform of a Gaussian); "
             "amplitudes and exponents are compared as terms after substituting the scaled rows of each form")
    ctx.rule("R-FINITEZ", "finite (z-limited) projections integrate the real-space Gaussian exp(-B z^2) over [a, b]: "
             "the erf scale (third row) is sqrt(B) with B the exponent row of projected_potential, for the real-space "
             "AND for the reciprocal-space finite form (the z integration is in real space in both); their first two "
             "rows are the rows of projected_potential / projected_scattering_factor")
    repo = ctx.repo
    base = repo.cls(MOD, "Parametrization")
    classes = sorted((c for c in repo.subclasses(base) if c.own_method("scaled_parameters") is not None),
                     key=lambda k: k.name)
    kappa = Rat(Poly.atom(F.KAPPA))
    n_slice = n_gauss = 0
    for c in classes:
        f = c.own_method("scaled_parameters")
        fa = c.find_class_attr("_functions")
        offered = {k.value for k in fa[1].keys if isinstance(k, ast.Constant)} if fa and isinstance(fa[1], ast.Dict) \
            else set()
        if not {"scattering_factor", "projected_scattering_factor"} <= offered:
            ctx.info("R-CENTRALSLICE", c.qualname, c.where, "does not offer both scattering-factor forms")
            continue
        rows = F.scaled_rows(c)
        for need in ("scattering_factor", "projected_scattering_factor"):
            ctx.require(need in rows, f"{c.qualname}: no scaled parameters for '{need}'")
        sf = F.kernel_components(F.resolve_kernel(repo, c, "scattering_factor"), rows["scattering_factor"])
        psf = F.kernel_components(F.resolve_kernel(repo, c, "projected_scattering_factor"),
                                  rows["projected_scattering_factor"])
        ctx.require(set(sf) == set(psf) and sf, f"{c.qualname}: the two kernels have different components")
        bad = None
        for j in sorted(sf):
            a, b = F.total(sf[j]), F.total(psf[j]) * kappa
            if not (a == b):
                bad = (j, a, b)
                break
        n_slice += 1
        ctx.check(bad is None, "R-CENTRALSLICE", f"{c.qualname}:projected_scattering_factor", f.where,
                  f"kappa * projected_scattering_factor == scattering_factor for all {len(sf)} components",
                  (f"component {bad[0]}: scattering_factor is {bad[1].key()[:150]} but kappa * "
                   f"projected_scattering_factor is {bad[2].key()[:220]} (T<i>_<j> = table row i, component j; "
                   "x = k^2): the conversion of the table to the scaled parameters is not the Fourier pair")
                  if bad else "", key_detail="central-slice")

        # ---- R-GAUSSPAIR
        if not {"potential", "projected_potential"} <= offered:
            continue
        pot = F.kernel_components(F.resolve_kernel(repo, c, "potential"), rows["potential"])
        gp = {j: [g for g in map(F.gaussian, comps) if g is not None] for j, comps in pot.items()}
        if not any(gp.values()):
            ctx.info("R-GAUSSPAIR", c.qualname, c.where, "the potential kernel has no Gaussian addends")
            continue
        pp = F.kernel_components(F.resolve_kernel(repo, c, "projected_potential"), rows["projected_potential"])
        gpp = {j: [g for g in map(F.gaussian, comps) if g is not None] for j, comps in pp.items()}
        gpsf = {j: [g for g in map(F.gaussian, comps) if g is not None] for j, comps in psf.items()}
        pi = Poly.atom(PI)
        problems = []
        for j in sorted(gp):
            ctx.require(len(gp[j]) == 1 and len(gpp.get(j, [])) == 1 and len(gpsf.get(j, [])) == 1,
                        f"{c.qualname}: component {j} does not have exactly one Gaussian addend in each of potential / "
                        "projected_potential / projected_scattering_factor")
            (A, B, n), (Ap, Bp, np_), (Af, Bf, nf) = gp[j][0], gpp[j][0], gpsf[j][0]
            ctx.require(n == 2 and np_ == 2 and nf == 1, f"{c.qualname}: Gaussian addends in unexpected variables")
            ctx.require(B.is_monomial() and Bp.is_monomial(), f"{c.qualname}: Gaussian exponent is not a monomial")
            if not (Bp == B):
                problems.append(f"component {j}: projected_potential decays with {Bp.key()}, potential with {B.key()}")
            elif not (Ap == A * (pi * B.inverse()).power(Fraction(1, 2))):
                problems.append(f"component {j}: projected_potential amplitude {Ap.key()} is not "
                                f"A*sqrt(pi/B) = {(A * (pi * B.inverse()).power(Fraction(1, 2))).key()}")
            if not (Bf == pi * pi * Bp.inverse()):
                problems.append(f"component {j}: projected_scattering_factor decays with {Bf.key()}, the transform of "
                                f"the projected potential with {(pi * pi * Bp.inverse()).key()}")
            elif not (Af == Ap * pi * Bp.inverse()):
                problems.append(f"component {j}: projected_scattering_factor amplitude {Af.key()} is not "
                                f"A_pp*pi/B_pp = {(Ap * pi * Bp.inverse()).key()}")
        n_gauss += 1
        ctx.check(not problems, "R-GAUSSPAIR", f"{c.qualname}:gaussian addends", f.where,
                  f"{len(gp)} Gaussian components: projection and 2D transform agree",
                  "; ".join(problems[:2]) + (f" (+{len(problems) - 2} more)" if len(problems) > 2 else ""),
                  key_detail="gauss")

        # ---- R-FINITEZ
        fin = [n for n in ("finite_projected_potential", "finite_projected_scattering_factor") if n in offered]
        for name, src in (("finite_projected_potential", "projected_potential"),
                          ("finite_projected_scattering_factor", "projected_scattering_factor")):
            if name not in offered:
                continue
            ctx.require(name in rows and isinstance(rows[name], list) and isinstance(rows[src], list),
                        f"{c.qualname}: rows of '{name}' not read")
            fk = F.resolve_kernel(repo, c, name)
            pk = fk.positional_params[1] if len(fk.positional_params) > 1 else "?"
            erfs = [x for x in ast.walk(fk.node) if isinstance(x, ast.Call) and (call_name(x) or "").split(".")[-1] == "erf"]
            ctx.require(bool(erfs) and all(any(isinstance(y, ast.Subscript) and dotted(y.value) == pk and
                                               norm_text(y.slice) == "2" for y in ast.walk(x)) for x in erfs),
                        f"{fk.qualname}: not an erf-limited Gaussian kernel with the erf scale in row 2")
            r, s = rows[name], rows[src]
            ctx.require(len(r) == 3 and len(s) == 2, f"{c.qualname}: '{name}' is expected to have 3 rows")
            Bpp = rows["projected_potential"][1]
            good_rows = r[0] == s[0] and r[1] == s[1]
            good_z = r[2] * r[2] == Bpp
            ctx.check(good_rows and good_z, "R-FINITEZ", f"{c.qualname}:{name}", f.where,
                      "rows 0,1 are those of the infinite projection; erf scale^2 == real-space Gaussian exponent",
                      (f"the first two rows of '{name}' are not the rows of '{src}'" if not good_rows else
                       f"the erf scale of '{name}' is {r[2].key()}, its square is not the real-space Gaussian exponent "
                       f"{Bpp.key()} of projected_potential: the z-limited integral belongs to another atom"),
                      key_detail="finite")
    ctx.require(n_slice >= 3, f"R-CENTRALSLICE matched {n_slice} parametrizations")
    ctx.require(n_gauss >= 2, f"R-GAUSSPAIR matched {n_gauss} parametrizations")
    _inner_run_c25_forms(ctx)


# ---- added after the seeded change C25-r5seed2: a collection of elements is served by the same function, element by
# ---- element, with everything else the caller asked for
_inner_run_c25_delegate = run
ANCHOR_PREFIX = "abtem.parametrizations"


def _delegate_forward(ctx) -> None:
    from ..rules import delegate as D

    repo = ctx.repo
    funcs = sorted((f for f in repo.all_functions() if f.module.name == ANCHOR_PREFIX
                    or f.module.name.startswith(ANCHOR_PREFIX + ".")), key=lambda f: f.qualname)
    ctx.require(len(funcs) >= 20, f"only {len(funcs)} functions found under {ANCHOR_PREFIX}")
    n = 0
    for f in funcs:
        delegations, notes = D.analyse(repo, f)
        for t in notes:
            ctx.info("R-DELEGATE-FORWARD", f.qualname, f.where, t)
        for d in delegations:
            g = d.site.callee
            target = "itself" if d.kind == "self" else g.short
            for v in d.verdicts:
                if v.status == "unread":
                    ctx.info("R-DELEGATE-FORWARD", f"{f.qualname}:{v.param}", f.loc(d.site.call), v.detail)
                    continue
                n += 1
                ctx.check(v.status == "forwarded", "R-DELEGATE-FORWARD", f"{f.qualname}:{v.param}", f.loc(d.site.call),
                          f"per element of {'/'.join(d.source_params)} {f.short} calls {target}; `{v.param}` is handed "
                          "over unchanged",
                          f"{f.short} serves a collection in `{'/'.join(d.source_params)}` by calling {target} once per "
                          f"element, but {v.detail}: the forms returned for several elements at once are not the forms "
                          "of the same atoms returned one by one", key_detail=v.status)
    ctx.require(n >= 1, "R-DELEGATE-FORWARD matched no per-element delegation under abtem/parametrizations "
                        "(Parametrization.line_profiles serves a sequence of symbols element by element)")


def run(ctx) -> None:  # noqa: F811
    from ..rules import deferred

    ctx.rule("R-DELEGATE-FORWARD", "a function that accepts one element or a collection of elements and serves the "
             "collection by calling ITSELF (or a sibling function of its class / module) once per element hands every "
             "other parameter that is read on a path serving one element to that call unchanged — by keyword, by "
             "position, through a literal **mapping, through temporaries; the origin of the bound argument is the "
             "parameter itself.  A parameter that is not bound (left to its default), or is bound to a literal, an "
             "attribute or another parameter, makes f([e1, e2], q) differ from the join of f(e1, q) and f(e2, q): "
             "line_profiles of several symbols would return another function (name), another range (cutoff) or another "
             "grid (sampling) than the same request made symbol by symbol, so the real-space and reciprocal-space forms "
             "obtained together no longer describe the atoms obtained one by one.  Decided for every function under "
             "abtem/parametrizations that calls itself / a sibling inside a comprehension, a loop or map(lambda) over "
             "one of its own parameters; forwarding that cannot be read (**kwargs that is not a literal, "
             "functools.partial, a computation on the parameter) is an ANALYSIS-ERROR")
    deferred.run(ctx, lambda: _delegate_forward(ctx), _inner_run_c25_delegate)
