"""C38 — results do not depend on the FFT backend or precision setting: the ownership clause.

The FFTW back end transforms in place.  NumPy's never does.  Results can only agree if an in-place plan
never destroys data the caller still owns:

  R-COPYGUARD  in _fftw_dispatch and CachedFFTWConvolution.__call__ every in-place operation on the
               (alias of the) caller's array is reached only with overwrite_x true or after `x = x.copy()`;
               the cached plans are executed only while bound to the current array.
  R-OWN        at every call site in the package that requests overwriting with a literal True
               (overwrite_x=True / in_place=True / overwrite=True), followed transitively through functions
               that pass their own parameter on, the array is FRESH in the caller (a copy, an allocation, an
               astype) and is not read afterwards except through the result.
  R-FLAG       a function that forwards an overwrite flag forwards its own flag (or False), so that the
               caller's decision is respected.
  R-DTYPE      get_dtype maps {float32, float64} x {real, complex} to exactly
               float32/complex64/float64/complex128 and raises for any other precision.
"""
from __future__ import annotations

import ast
from typing import Optional

from ..cfg import CFG, DataFlow, forward_states
from ..model import AnalysisError, ClassInfo, FuncInfo, ModuleInfo, call_name, dotted, last_attr, norm_text, \
    walk_no_nested
from ..rules.absint import NotConst, const_eval
from ..rules.arrayown import FRESH, ITER, UNKNOWN, Ownership, all_scopes

FFT = "abtem.core.fft"
FLAG_NAMES = {"overwrite_x", "in_place", "overwrite"}


# ---------------------------------------------------------------------- helpers
def _flag_polarity(test: ast.expr, flag: str) -> Optional[bool]:
    """`flag` -> True, `not flag` -> False (value of flag on the T edge), else None."""
    neg = False
    while isinstance(test, ast.UnaryOp) and isinstance(test.op, ast.Not):
        neg = not neg
        test = test.operand
    if isinstance(test, ast.Name) and test.id == flag:
        return not neg
    return None


def _is_copy_of(value: ast.expr, var: str) -> bool:
    if isinstance(value, ast.Call):
        if isinstance(value.func, ast.Attribute) and value.func.attr == "copy" and dotted(value.func.value) == var \
                and not value.args:
            return True
        if last_attr(value) in ("copy", "array") and dotted(value.func) in ("np.copy", "np.array", "xp.copy", "xp.array",
                                                                          "copy", "copy.copy") \
                and len(value.args) == 1 and dotted(value.args[0]) == var:
            return True
    return False


def _stmt_of(func: ast.FunctionDef, target: ast.AST) -> ast.stmt:
    best = None
    for st in walk_no_nested(func):
        if isinstance(st, ast.stmt) and not isinstance(st, (ast.If, ast.For, ast.While, ast.With, ast.Try,
                                                            ast.FunctionDef)):
            if any(n is target for n in ast.walk(st)):
                best = st
    if best is None:
        for st in walk_no_nested(func):  # call inside a test / loop header
            if isinstance(st, (ast.If, ast.For, ast.While, ast.With)) and any(n is target for n in ast.walk(st)):
                best = st
    if best is None:
        raise AnalysisError(f"{func.name}: statement of `{norm_text(target)[:40]}` not found")
    return best


def run(ctx) -> None:
    repo = ctx.repo
    ctx.rule("R-COPYGUARD", "in the FFTW dispatchers every in-place operation on the caller's array (plan execution, "
             "`array *= kernel`, get_fftw_object(x)) is reached only on paths where overwrite_x is known true or the "
             "variable holds a private copy; cached plans are executed only while bound (update_arrays / creation) to "
             "the array of the current call")
    ctx.rule("R-OWN", "every call that requests in-place FFT with a literal True — and, transitively, every call of a "
             "function that hands its own parameter to such a call — passes an array that is fresh in the caller "
             "(copy / allocation / astype / arithmetic, possibly through functions returning their argument) and "
             "that is dead afterwards except through the result")
    ctx.rule("R-FLAG", "functions forwarding an overwrite flag to an FFT routine forward their own flag parameter, an "
             "attribute of self, or a literal; the forwarded value is recorded for R-OWN")
    ctx.rule("R-DTYPE", "get_dtype reads the `precision` configuration and returns float32/complex64 for 'float32', "
             "float64/complex128 for 'float64' (complex iff requested) and raises for every other value")
    ctx.undecided("numerical agreement of NumPy, FFTW and MKL transforms and of single vs double precision")
    ctx.undecided("in-place flags stored on objects (self._in_place of transforms) — forwarded faithfully, origin "
                  "outside the literal-True rule")

    _copyguard_dispatch(ctx, repo)
    _copyguard_cached(ctx, repo)
    _own(ctx, repo)
    _dtype(ctx, repo)


# ---------------------------------------------------------------------- R-COPYGUARD (_fftw_dispatch)
def _copyguard_dispatch(ctx, repo) -> None:
    f = repo.function(FFT, "_fftw_dispatch")
    ctx.require("overwrite_x" in f.params, f"{f.qualname}: lost its overwrite_x parameter")
    var, flag = f.positional_params[0], "overwrite_x"
    cfg = CFG(f.node)
    sinks = []
    for n in cfg.nodes:
        if n.ast is None or n.kind not in ("stmt",):
            continue
        for c in walk_no_nested(n.ast):
            if isinstance(c, ast.Call) and call_name(c) == "get_fftw_object" and c.args and dotted(c.args[0]) == var:
                sinks.append((n.idx, c))
    ctx.require(len(sinks) >= 1, f"{f.qualname}: no FFTW plan is built on the argument")

    def transfer(node, state, label, succ):
        v, o = state
        if node.kind == "test":
            pol = _flag_polarity(node.ast.test, flag)
            if pol is not None and label in ("T", "F"):
                o = "T" if (pol == (label == "T")) else "F"
        st = node.ast
        if node.kind == "stmt" and isinstance(st, ast.Assign) and any(dotted(t) == var for t in st.targets):
            if _is_copy_of(st.value, var):
                v = "C"
            else:
                raise AnalysisError(f"{f.qualname}: `{norm_text(st)}` rebinds the array in an unrecognised way")
        if node.kind == "stmt" and isinstance(st, ast.Assign) and any(dotted(t) == flag for t in st.targets):
            raise AnalysisError(f"{f.qualname}: the overwrite flag is reassigned")
        return (v, o)

    at = forward_states(cfg, ("P", "?"), transfer)
    for idx, c in sinks:
        bad = [s for s in at[idx] if not (s[0] == "C" or s[1] == "T")]
        ctx.check(not bad, "R-COPYGUARD", f"{f.qualname}:in-place plan on `{var}`", f.loc(c),
                  "reached only with overwrite_x true or on a private copy",
                  f"`{norm_text(c)[:70]}` builds an in-place FFTW plan on the caller's array on a path where "
                  "overwrite_x may be false and no copy was taken: the caller's input is destroyed (NumPy's back end "
                  "leaves it intact)", key_detail="guard")
        fl = {k.arg: k.value for k in c.keywords if k.arg}.get("overwrite_x")
        ctx.check(fl is not None and dotted(fl) == flag, "R-FLAG", f"{f.qualname}:flag to get_fftw_object", f.loc(c),
                  "the caller's flag decides FFTW_DESTROY_INPUT",
                  f"get_fftw_object receives overwrite_x={norm_text(fl) if fl is not None else 'default'} instead of the "
                  "caller's flag", key_detail="flag")
    # _fft_dispatch hands its own array and flag to the back ends
    g = repo.function(FFT, "_fft_dispatch")
    for name in ("_fftw_dispatch", "_mkl_fft_dispatch"):
        cs = [c for c in walk_no_nested(g.node) if isinstance(c, ast.Call) and call_name(c) == name]
        ctx.require(len(cs) == 1, f"{g.qualname}: expected one call of {name}")
        callee = repo.function(FFT, name)
        b = {}
        for p, a in zip(callee.positional_params, cs[0].args):
            b[p] = a
        for k in cs[0].keywords:
            if k.arg:
                b[k.arg] = k.value
        ctx.check(dotted(b.get("overwrite_x")) == "overwrite_x" and dotted(b.get(callee.positional_params[0])) ==
                  g.positional_params[0], "R-FLAG", f"{g.qualname}:{name}", g.loc(cs[0]),
                  "array and overwrite_x forwarded unchanged",
                  f"`{norm_text(cs[0])}` does not forward the caller's array / overwrite_x", key_detail="flag")


# ---------------------------------------------------------------------- R-COPYGUARD (CachedFFTWConvolution)
def _copyguard_cached(ctx, repo) -> None:
    cls = repo.cls(FFT, "CachedFFTWConvolution")
    f = repo.method(FFT, "CachedFFTWConvolution", "__call__")
    ctx.require("overwrite_x" in f.params, f"{f.qualname}: lost its overwrite_x parameter")
    var, flag = f.positional_params[1], "overwrite_x"
    PLANS = "self._fftw_objects"
    # constant propagation for the cache key: which values can self._shape hold?
    shape_vals = []
    for defs in cls.methods.values():
        for m in defs:
            for st in ast.walk(m.node):
                if isinstance(st, ast.Assign) and any(dotted(t) == "self._shape" for t in st.targets):
                    shape_vals.append(st.value)
    shape_always_none = bool(shape_vals) and all(isinstance(v, ast.Constant) and v.value is None for v in shape_vals)
    cfg = CFG(f.node)

    def plan_key(e: ast.AST) -> Optional[str]:
        if isinstance(e, ast.Subscript) and dotted(e.value) == PLANS and isinstance(e.slice, ast.Constant):
            return e.slice.value
        return None

    keys = sorted({plan_key(n) for n in ast.walk(f.node) if plan_key(n)} - {None})
    ctx.require(len(keys) >= 2, f"{f.qualname}: forward and inverse plan not found")
    sinks = []  # (node idx, kind, key or None, ast)

    def classify(st: ast.AST):
        """events of one simple statement, in execution order"""
        ev = []
        for c in walk_no_nested(st):
            if isinstance(c, ast.Call):
                if call_name(c) == "_new_fftw_object" and c.args and dotted(c.args[0]) == var:
                    ev.append(("create", None, c))
                elif isinstance(c.func, ast.Attribute) and c.func.attr == "update_arrays" and plan_key(c.func.value):
                    if not (len(c.args) == 2 and all(dotted(a) == var for a in c.args)):
                        raise AnalysisError(f"{f.qualname}: update_arrays with unexpected arguments")
                    ev.append(("bind", plan_key(c.func.value), c))
                elif plan_key(c.func) and not c.args:
                    ev.append(("exec", plan_key(c.func), c))
        return ev

    def transfer(node, state, label, succ):
        v, o, b = state
        b = dict(b)
        st = node.ast
        if node.kind == "test":
            t = st.test
            pol = _flag_polarity(t, flag)
            if pol is not None and label in ("T", "F"):
                o = "T" if (pol == (label == "T")) else "F"
            # cache-key test: array.shape != self._shape
            if isinstance(t, ast.Compare) and "self._shape" in {dotted(x) for x in ast.walk(t)} and shape_always_none:
                if isinstance(t.ops[0], ast.NotEq) and label == "F":
                    return None
                if isinstance(t.ops[0], ast.Eq) and label == "T":
                    return None
            # plans is None ?
            if isinstance(t, ast.Compare) and dotted(t.left) == PLANS and isinstance(t.comparators[0], ast.Constant) \
                    and t.comparators[0].value is None:
                is_none_edge = (label == "T") == isinstance(t.ops[0], ast.Is)
                vals = set(b.values())
                if is_none_edge:
                    if vals <= {"P", "C"}:
                        return None
                    b = {k: "none" for k in b}
                else:
                    if vals == {"none"}:
                        return None
            return (v, o, tuple(sorted(b.items())))
        if node.kind != "stmt" or st is None:
            return state
        if isinstance(st, ast.Assign) and any(dotted(t) == PLANS for t in st.targets) and \
                isinstance(st.value, ast.Constant) and st.value.value is None:
            b = {k: "none" for k in b}
        for kind, key, c in classify(st):
            if kind == "create":
                b = {k: v for k in b}
            elif kind == "bind":
                b[key] = v
            elif kind == "exec":
                if isinstance(st, ast.Assign) and any(dotted(t) == var for t in st.targets):
                    v = b[key] if b[key] in ("P", "C") else v
        if isinstance(st, ast.Assign) and any(dotted(t) == var for t in st.targets):
            if _is_copy_of(st.value, var):
                v = "C"
            elif not any(k == "exec" for k, _, _ in classify(st)):
                raise AnalysisError(f"{f.qualname}: `{norm_text(st)}` rebinds the array in an unrecognised way")
        return (v, o, tuple(sorted(b.items())))

    init = ("P", "?", tuple((k, "old") for k in keys))
    at = forward_states(cfg, init, transfer, max_states=256)
    n_sinks = 0
    for n in cfg.nodes:
        st = n.ast
        if n.kind != "stmt" or st is None:
            continue
        for kind, key, c in classify(st):
            if kind != "exec":
                continue
            n_sinks += 1
            stale, unsafe = [], []
            for v, o, b in at[n.idx]:
                bk = dict(b)[key]
                if bk in ("old", "none"):
                    stale.append((v, o, bk))
                elif bk == "P" and o != "T":
                    unsafe.append((v, o, bk))
            ctx.check(not stale, "R-COPYGUARD", f"{f.qualname}:plan {key!r} bound to current array", f.loc(c),
                      "executed only after creation / update_arrays in this call",
                      f"the cached plan {key!r} can be executed while still bound to the arrays of a previous call "
                      "(no update_arrays on that path): the transform runs on stale data", key_detail=f"stale-{key}")
            ctx.check(not unsafe, "R-COPYGUARD", f"{f.qualname}:plan {key!r} in place", f.loc(c),
                      "runs on the caller's array only when overwrite_x is true",
                      f"the in-place plan {key!r} can run on the caller's own array although overwrite_x is false "
                      "(after the copy the plan was not re-pointed with update_arrays, or no copy is taken)",
                      key_detail=f"unsafe-{key}")
        if isinstance(st, ast.AugAssign) and dotted(st.target) == var:
            n_sinks += 1
            bad = [s for s in at[n.idx] if not (s[0] == "C" or s[1] == "T")]
            ctx.check(not bad, "R-COPYGUARD", f"{f.qualname}:`{norm_text(st)}`", f.loc(st),
                      "in-place multiply on a private copy or with overwrite_x true",
                      f"`{norm_text(st)}` can modify the caller's array although overwrite_x is false",
                      key_detail="aug")
    ctx.require(n_sinks >= 3, f"{f.qualname}: expected two plan executions and the kernel multiplication")
    ctx.info("R-COPYGUARD", f"{f.qualname}:cache key", f.where,
             "self._shape is only ever None, so the plans are rebuilt on every call (the cache never hits); the "
             "stale-plan path is infeasible for that reason" if shape_always_none else
             "self._shape is updated: cached plans are reused across calls")


# ---------------------------------------------------------------------- R-OWN
class Sink:
    def __init__(self, name: str, func: FuncInfo, flag: Optional[str], array: str, is_method: bool, via: str):
        self.name, self.func, self.flag, self.array, self.is_method, self.via = name, func, flag, array, is_method, via


def _bind(call: ast.Call, sink: Sink) -> dict[str, ast.expr]:
    params = sink.func.positional_params
    if sink.is_method and params and params[0] in ("self", "cls"):
        params = params[1:]
    out = {}
    for p, a in zip(params, call.args):
        if isinstance(a, ast.Starred):
            break
        out[p] = a
    for k in call.keywords:
        if k.arg:
            out[k.arg] = k.value
    return out


def _own(ctx, repo) -> None:
    own = Ownership(repo)
    scopes = list(all_scopes(repo))
    # attribute names holding CachedFFTWConvolution instances
    conv_attrs = set()
    for f in scopes:
        for st in walk_no_nested(f.node):
            if isinstance(st, ast.Assign) and isinstance(st.value, ast.Call) and \
                    last_attr(st.value) == "CachedFFTWConvolution":
                for t in st.targets:
                    if isinstance(t, ast.Attribute):
                        conv_attrs.add(t.attr)
    sinks: dict[tuple[str, str], Sink] = {}

    def add(s: Sink) -> bool:
        k = (s.name, s.array, s.flag or "")
        if k in sinks:
            return False
        sinks[k] = s
        return True

    add(Sink("_fftw_dispatch", repo.function(FFT, "_fftw_dispatch"), "overwrite_x", "x", False, "seed"))
    add(Sink("_mkl_fft_dispatch", repo.function(FFT, "_mkl_fft_dispatch"), "overwrite_x", "x", False, "seed"))
    call_m = repo.method(FFT, "CachedFFTWConvolution", "__call__")
    for a in conv_attrs:
        add(Sink(a, call_m, "overwrite_x", call_m.positional_params[1], True, "seed"))

    checked: set[tuple[int, int]] = set()
    true_sites = 0
    all_calls = {id(g.node): [c for c in walk_no_nested(g.node) if isinstance(c, ast.Call)] for g in scopes}
    for _round in range(8):
        changed = False
        by_name: dict[str, list[Sink]] = {}
        for s in sinks.values():
            by_name.setdefault(s.name, []).append(s)
        for g in scopes:
            calls = [c for c in all_calls[id(g.node)] if last_attr(c) in by_name]
            if not calls:
                continue
            for c in calls:
                for s in by_name[last_attr(c)]:
                    if s.func.node is g.node and s.via == "seed":
                        continue
                    # a plain-name call must not be shadowed by a numpy module function (np.fft.fft2)
                    root = (dotted(c.func) or "").split(".")[0]
                    if root in ("np", "xp", "cp", "numpy", "cupy", "scipy", "mkl_fft", "pyfftw"):
                        continue
                    b = _bind(c, s)
                    if s.array not in b:
                        continue
                    arr = b[s.array]
                    if s.flag is not None:
                        fl = b.get(s.flag)
                        if fl is None:
                            d = s.func.defaults().get(s.flag)
                            if d is None or not (isinstance(d, ast.Constant) and d.value is False):
                                continue
                            continue
                        if isinstance(fl, ast.Constant) and fl.value is False:
                            continue
                        if isinstance(fl, ast.Constant) and fl.value is True:
                            mode = "true"
                        elif isinstance(fl, ast.Name) and fl.id in g.params:
                            mode = "param"
                        elif (dotted(fl) or "").startswith("self."):
                            mode = "attr"
                        else:
                            raise AnalysisError(f"{g.qualname}: overwrite flag `{norm_text(fl)}` passed to {s.name} "
                                                "is neither a literal, a parameter nor an attribute of self")
                    else:
                        mode = "true"
                    st = _stmt_of(g.node, c)
                    node = own.df_of(g).cfg.node_of(st).idx
                    classes = own.classify_expr(g, node, arr)
                    pclasses = sorted(x[6:] for x in classes if x.startswith("PARAM:"))
                    if g.cls is not None and g.positional_params and g.positional_params[0] in ("self", "cls") and \
                            g.positional_params[0] in pclasses:
                        # the receiver's own state: not something a caller hands in for consumption
                        pclasses.remove(g.positional_params[0])
                        classes = (classes - {f"PARAM:{g.positional_params[0]}"}) | {f"ATTR:{norm_text(arr)[:30]}"}
                    if mode in ("param", "attr"):
                        if (id(c), 0) not in checked:
                            checked.add((id(c), 0))
                            ctx.ok("R-FLAG", f"{g.qualname}:{s.name}({norm_text(arr)[:30]}, {s.flag}={norm_text(fl)})",
                                   g.loc(c), f"forwards its own flag; array is {', '.join(sorted(classes))}")
                        if mode == "param":
                            for p in pclasses:
                                if p != fl.id:
                                    changed |= add(Sink(g.name, g, fl.id, p, g.cls is not None, f"{s.name}"))
                        continue
                    # literal True (or unconditional sink): ownership obligations
                    if (id(c), 1) in checked:
                        continue
                    checked.add((id(c), 1))
                    true_sites += 1
                    construct = f"{g.qualname}:{s.name}({norm_text(arr)[:30]})"
                    foreign = sorted(x for x in classes if x.split(":")[0] in ("ATTR", "OBJ", "CLOSURE", "READONLY"))
                    owned = FRESH in classes or ITER in classes or bool(pclasses)
                    if UNKNOWN in classes and not owned:
                        raise AnalysisError(f"{g.qualname}: ownership of `{norm_text(arr)}` passed to {s.name} with "
                                            "overwrite requested cannot be classified")
                    note = (f" (may-alias over-approximation also lists {', '.join(foreign)})" if foreign and owned else "")
                    if foreign and not owned:
                        ctx.violation("R-OWN", construct, g.loc(c),
                                      f"`{norm_text(c)[:80]}` overwrites `{norm_text(arr)}`, which is "
                                      f"{', '.join(foreign)} — shared state, not a fresh local of {g.name}: with the "
                                      "FFTW back end the owner's data is replaced by its transform", key_detail="fresh")
                    elif pclasses:
                        for p in pclasses:
                            changed |= add(Sink(g.name, g, None, p, g.cls is not None, s.name))
                        ctx.ok("R-OWN", construct, g.loc(c),
                               f"array is the caller-supplied `{', '.join(pclasses)}`: obligation moves to the callers of "
                               f"{g.name}{note}", nontrivial=True)
                    else:
                        extra = " (elements of an iterator: freshness not decided)" if ITER in classes else ""
                        ctx.ok("R-OWN", construct, g.loc(c), f"array is {', '.join(sorted(classes - set(foreign)))}{extra}{note}")
                    # dead afterwards except through the result
                    live = _read_after(own.df_of(g), node, st, arr)
                    ctx.check(not live, "R-OWN", f"{construct}:dead-after", g.loc(c),
                              "not read again except through the result",
                              f"`{norm_text(arr)}` is overwritten in place by `{norm_text(c)[:60]}` but read again at "
                              f"line {live[0] if live else '?'} — with the FFTW back end it then holds the transform, "
                              "with NumPy the original", key_detail="dead")
        if not changed:
            break
    ctx.require(true_sites >= 4, f"R-OWN found only {true_sites} call sites requesting in-place transforms")
    ctx.extra["inplace_sinks"] = sorted(f"{s.func.qualname}({s.array}; flag={s.flag})" for s in sinks.values())


def _read_after(df: DataFlow, node: int, st: ast.stmt, arr: ast.expr) -> list[int]:
    """Lines where the variable passed in `arr` is read after `node` while still holding the same object."""
    root = arr
    while isinstance(root, (ast.Attribute, ast.Subscript)):
        root = root.value
    if not isinstance(root, ast.Name):
        return []
    name = root.id
    # rebinding by the statement itself
    targets = []
    if isinstance(st, ast.Assign):
        for t in st.targets:
            targets += [n.id for n in ast.walk(t) if isinstance(n, ast.Name) and isinstance(n.ctx, ast.Store)]
    if isinstance(st, (ast.Return, ast.Raise)):
        return []
    if name in targets and isinstance(arr, ast.Name):
        return []
    before = {id(d) for d in df.reaching(node, name) if d.strong}
    out = []
    seen = set()
    stack = list(df.cfg.nodes[node].succ)
    while stack:
        n = stack.pop()
        if n in seen:
            continue
        seen.add(n)
        if n == node:
            continue
        cur = {id(d) for d in df.reaching(n, name) if d.strong}
        if not (cur & before):
            continue
        if name in df.node_uses.get(n, set()):
            out.append(getattr(df.cfg.nodes[n].ast, "lineno", 0))
        stack.extend(df.cfg.nodes[n].succ)
    return sorted(set(out))


# ---------------------------------------------------------------------- R-DTYPE
def _dtype(ctx, repo) -> None:
    f = repo.function("abtem.core.utils", "get_dtype")
    ctx.require(f.positional_params[:1] == ["complex"], f"{f.qualname}: signature changed")
    # the precision variable: assigned from config.get("precision")
    src = [st for st in f.body if isinstance(st, ast.Assign) and isinstance(st.value, ast.Call)
           and last_attr(st.value) == "get" and st.value.args and isinstance(st.value.args[0], ast.Constant)]
    ctx.require(len(src) == 1 and isinstance(src[0].targets[0], ast.Name), f"{f.qualname}: configuration read not found")
    pvar = src[0].targets[0].id
    ctx.check(src[0].value.args[0].value == "precision", "R-DTYPE", f"{f.qualname}:reads precision", f.loc(src[0]),
              "reads config key 'precision'", f"reads config key {src[0].value.args[0].value!r}", key_detail="key")
    want = {("float32", False): "float32", ("float32", True): "complex64", ("float64", False): "float64",
            ("float64", True): "complex128"}

    def run_path(prec: str, cplx: bool):
        env: dict = {pvar: prec, "complex": cplx}
        stmts = list(f.body)
        result = None
        i = 0
        work = stmts[stmts.index(src[0]) + 1:]
        while work:
            st = work.pop(0)
            if isinstance(st, ast.If):
                try:
                    t = const_eval(st.test, env)
                except NotConst:
                    raise AnalysisError(f"{f.qualname}: cannot evaluate `{norm_text(st.test)}`")
                work = list(st.body if t else st.orelse) + work
            elif isinstance(st, ast.Assign) and isinstance(st.targets[0], ast.Name):
                val = st.value
                while isinstance(val, ast.IfExp):
                    try:
                        val = val.body if const_eval(val.test, env) else val.orelse
                    except NotConst:
                        raise AnalysisError(f"{f.qualname}: cannot evaluate `{norm_text(val.test)}`")
                d = dotted(val)
                if d is None:
                    raise AnalysisError(f"{f.qualname}: unexpected assignment `{norm_text(st)}`")
                env[st.targets[0].id] = ("dtype", d.split(".")[-1])
            elif isinstance(st, ast.Return):
                if isinstance(st.value, ast.Name):
                    return env.get(st.value.id)
                d = dotted(st.value)
                return ("dtype", d.split(".")[-1]) if d else None
            elif isinstance(st, ast.Raise):
                return "raise"
            elif isinstance(st, (ast.Expr, ast.Pass)):
                continue
            else:
                raise AnalysisError(f"{f.qualname}: unsupported statement `{norm_text(st)[:50]}`")
        return None

    for (prec, cplx), dt in want.items():
        got = run_path(prec, cplx)
        ctx.check(got == ("dtype", dt), "R-DTYPE", f"{f.qualname}:{prec}/{'complex' if cplx else 'real'}", f.where,
                  f"-> np.{dt}", f"precision {prec!r}, complex={cplx} yields "
                  f"{'np.' + got[1] if isinstance(got, tuple) else got!r} instead of np.{dt}",
                  key_detail=f"{prec}-{cplx}")
    for prec in ("float16", "double", ""):
        for cplx in (False, True):
            got = run_path(prec, cplx)
            ctx.check(got == "raise", "R-DTYPE", f"{f.qualname}:{prec!r}/{'complex' if cplx else 'real'} rejected",
                      f.where, "raises",
                      f"unsupported precision {prec!r} silently yields {got!r}", key_detail=f"bad-{prec}-{cplx}")


# ---- added after the seeded change C38-r3seed5: the plan that is handed out transforms the requested axes
_inner_run_c38b = run


def run(ctx) -> None:  # noqa: F811
    ctx.rule("R-PLANAXES", "get_fftw_object(array, name, ..., axes) returns a transform over `axes` on every path: a "
             "pyfftw.FFTW(...) constructed with axes=<the parameter>, a recursive get_fftw_object(..., axes=axes), or "
             "the pyfftw.builders fallback for the named transform.  Returning the object planned by a helper whose "
             "axes are fixed ((-2, -1) in _new_fftw_object) transforms the last two axes whatever was requested — n-d "
             "transforms (fft_interpolate of 3-d data) then differ between the FFTW and NumPy back ends")
    repo = ctx.repo
    f = repo.function(FFT, "get_fftw_object")
    ctx.require("axes" in f.params, f"{f.qualname}: no `axes` parameter")
    df = DataFlow(f.node)
    rets = [r for r in walk_no_nested(f.node) if isinstance(r, ast.Return) and r.value is not None]
    ctx.require(len(rets) >= 2, f"{f.qualname}: expected several returns")

    def axes_kw_is_param(call: ast.Call) -> bool:
        v = next((k.value for k in call.keywords if k.arg == "axes"), None)
        if v is None and call_name(call) == f.name:  # the recursive call may pass axes positionally
            from ..model import bind_args

            v = bind_args(call, f).get("axes")
        return isinstance(v, ast.Name) and v.id == "axes"

    n = 0
    for r in rets:
        v, at = r.value, df.cfg.node_of(r).idx
        hops = 0
        while isinstance(v, ast.Name) and hops < 4:
            d = df.single_def(at, v.id)
            if d is None or d.value is None:
                break
            v, at, hops = d.value, d.node, hops + 1
        n += 1
        ok, why = False, norm_text(v)[:60]
        if isinstance(v, ast.Call):
            cn = call_name(v) or ""
            if cn.endswith("FFTW") or cn == f.name:
                ok = axes_kw_is_param(v)
                why = f"`{cn}(...)` is not given axes=axes"
            elif isinstance(v.func, ast.Call) and call_name(v.func) == "getattr" and "builders" in norm_text(v.func):
                ok = True  # numpy-compatible builder of the named transform (fallback)
            else:
                tgt = repo.resolve_name(f.module, cn)
                fixed = None
                if tgt is not None and hasattr(tgt, "node"):
                    for c in walk_no_nested(tgt.node):
                        if isinstance(c, ast.Call) and (call_name(c) or "").endswith("FFTW"):
                            av = next((k.value for k in c.keywords if k.arg == "axes"), None)
                            if av is not None and not (isinstance(av, ast.Name) and av.id in tgt.params):
                                fixed = norm_text(av)
                ok = fixed is None and tgt is not None and "axes" in getattr(tgt, "params", ())
                why = (f"`{cn}(...)` plans for the fixed axes {fixed}, not for the requested `axes`" if fixed else
                       f"`{cn}(...)` does not receive the requested axes")
        ctx.check(ok, "R-PLANAXES", f"{f.qualname}:return {norm_text(r.value)[:30]}", f.loc(r),
                  "the returned transform is planned for the requested axes",
                  f"{why}: the caller asked for a transform over `axes` and gets one over other axes",
                  key_detail="planaxes")
    _inner_run_c38b(ctx)


# ---- added after the mutation sweep: every supported value of the `fft` key selects its own transform library
_inner_run_c38c = run

_LIBRARY = {"numpy": "numpy", "mkl_fft": "mkl", "pyfftw": "fftw", "cupy": "cupy", "scipy": "scipy"}
FFT_VALUES = ("numpy", "fftw", "mkl")  # the documented values of the configuration key (abtem/core/abtem.yaml)


def _library_root(mod: ModuleInfo, expr: ast.AST) -> Optional[str]:
    """Transform library a dotted expression belongs to (`np.fft` -> numpy), through the module's import aliases."""
    d = dotted(expr)
    if not d:
        return None
    head = d.split(".")[0]
    target = (mod.imports.get(head) or head).split(".")[0]
    if target not in _LIBRARY:  # aliases bound inside try/except import blocks
        for st in ast.walk(mod.tree):
            if isinstance(st, ast.Import):
                for a in st.names:
                    if (a.asname or a.name.split(".")[0]) == head:
                        target = a.name.split(".")[0]
    lib = _LIBRARY.get(target)
    if lib in ("numpy", "cupy", "scipy") and "fft" not in d.split(".")[1:]:
        return None  # array helpers (np.zeros_like, ...) are not transforms
    return lib


def _libraries_called(repo, mod: ModuleInfo, expr: ast.AST, depth: int = 0) -> set[str]:
    """Transform libraries that evaluating the call `expr` can run: getattr(<lib>, name)(...), <lib>.fft.f(...),
    <lib>.FFTW(...), or a package function that does one of these (followed through package calls)."""
    out: set[str] = set()
    if not isinstance(expr, ast.Call):
        return out
    fn = expr.func
    if isinstance(fn, ast.Call) and call_name(fn) == "getattr" and fn.args:
        lib = _library_root(mod, fn.args[0])
        if lib:
            out.add(lib)
        return out
    lib = _library_root(mod, fn)
    if lib:
        out.add(lib)
        return out
    g = repo.resolve_name(mod, call_name(expr) or "")
    if isinstance(g, FuncInfo) and depth < 3:
        for c in ast.walk(g.node):
            if isinstance(c, ast.Call) and c is not expr:
                if isinstance(c.func, ast.Call) or _library_root(g.module, c.func):
                    out |= _libraries_called(repo, g.module, c, depth + 1)
                else:
                    h = repo.resolve_name(g.module, call_name(c) or "")
                    if isinstance(h, FuncInfo) and h.node is not g.node:
                        out |= _libraries_called(repo, g.module, c, depth + 1)
    return out


class _KeyDomain:
    """Domain for sa.rules.absint.PathInterp: values are the expressions themselves; a test is decided only when it
    compares a read of the configuration key with a string literal."""

    def __init__(self, key: str, value: str):
        self.key, self.value = key, value

    def is_read(self, e, env) -> bool:
        if isinstance(e, ast.Name) and e.id in env:
            e = env[e.id]
        return isinstance(e, ast.Call) and last_attr(e) == "get" and len(e.args) >= 1 and isinstance(
            e.args[0], ast.Constant) and e.args[0].value == self.key and (dotted(e.func) or "").split(".")[-2:-1] == [
            "config"]

    def eval(self, expr, env):
        if isinstance(expr, ast.Name) and expr.id in env:
            return env[expr.id]
        return expr

    def truth(self, test, env):
        if isinstance(test, ast.UnaryOp) and isinstance(test.op, ast.Not):
            t = self.truth(test.operand, env)
            return None if t is None else not t
        if isinstance(test, ast.BoolOp):
            ts = [self.truth(v, env) for v in test.values]
            if isinstance(test.op, ast.And):
                return False if False in ts else (None if None in ts else True)
            return True if True in ts else (None if None in ts else False)
        if isinstance(test, ast.Compare) and len(test.ops) == 1:
            a, b = test.left, test.comparators[0]
            for x, y in ((a, b), (b, a)):
                if self.is_read(x, env):
                    if isinstance(test.ops[0], (ast.Eq, ast.NotEq)) and isinstance(y, ast.Constant) and isinstance(y.value, str):
                        return (self.value == y.value) == isinstance(test.ops[0], ast.Eq)
                    if isinstance(test.ops[0], (ast.In, ast.NotIn)) and isinstance(y, (ast.Tuple, ast.List, ast.Set)) and all(
                            isinstance(e, ast.Constant) for e in y.elts):
                        return (self.value in [e.value for e in y.elts]) == isinstance(test.ops[0], ast.In)
                    raise AnalysisError(f"test `{norm_text(test)}` on the configuration key is not a comparison with a "
                                        "string literal")
        return None

    def assign(self, target, value, env):
        if isinstance(target, ast.Name):
            env[target.id] = value

    def augassign(self, stmt, env):
        if isinstance(stmt.target, ast.Name):
            env.pop(stmt.target.id, None)


def _dispatch(ctx, repo) -> None:
    from ..rules.absint import PathInterp

    f = repo.function(FFT, "_fft_dispatch")
    n = 0
    for v in FFT_VALUES:
        dom = _KeyDomain("fft", v)
        paths = PathInterp(dom).run(f.body, {})
        decided = [p for p in paths if any(dom.truth(t, p.env) is not None for t, _ in p.trace)]
        ctx.require(decided, f"{f.qualname}: no path depends on the configuration key 'fft'")
        for k, p in enumerate(decided):
            # only the tests on the key select among these paths; one path per arm of the other tests
            n += 1
            construct = f"{f.qualname}:fft={v!r}" + (f" path #{k + 1}" if len(decided) > 1 else "")
            if p.kind != "return":
                ctx.violation("R-DISPATCH", construct, f.loc(p.node) if p.node is not None else f.where,
                              f"with the supported configuration fft={v!r} the dispatcher does not reach a transform "
                              f"({'raises' if p.kind == 'raise' else 'returns nothing'}): every FFT of a run configured "
                              "this way fails, while the other back ends work", key_detail="unreached")
                continue
            val = p.value
            if isinstance(val, ast.Call) and isinstance(val.func, ast.Name) and isinstance(p.env.get(val.func.id), ast.AST):
                val = ast.Call(func=p.env[val.func.id], args=val.args, keywords=val.keywords)  # transform held in a local
            libs = _libraries_called(repo, f.module, val)
            ctx.require(libs, f"{f.qualname}: cannot tell which library `{norm_text(p.value)[:60]}` transforms with")
            ctx.check(libs == {v}, "R-DISPATCH", construct, f.loc(p.node),
                      f"transforms with {', '.join(sorted(libs))}",
                      f"with fft={v!r} the transform is done by {', '.join(sorted(libs))} (`{norm_text(p.value)[:60]}`): "
                      f"the configured library is not the one that runs — a run configured for {v} needs (and fails "
                      f"without) {', '.join(sorted(libs - {v})) or '?'}", key_detail="library")
    ctx.require(n >= 3, f"{f.qualname}: fewer than three configuration-dependent paths")


def run(ctx) -> None:  # noqa: F811
    ctx.rule("R-DISPATCH", "_fft_dispatch, abstractly executed once for each documented value of the `fft` key "
             "('numpy', 'fftw', 'mkl') with every test on config.get('fft') decided and all other tests forked, returns "
             "on each path that depends on the key a transform of exactly that library (numpy.fft / pyfftw via "
             "get_fftw_object / mkl_fft, followed through package functions) and never raises — the property "
             "quantifies over all supported values of the key, the test suite runs with one")
    _dispatch(ctx, ctx.repo)
    _inner_run_c38c(ctx)
