"""C34 — temporary configuration changes are always undone (abtem/core/config.py).

Full structural decision of the record/undo protocol of `config.set`.
"""
from __future__ import annotations

import ast

from ..cfg import CFG, forward_states
from ..model import AnalysisError, call_name, dotted, norm_text, walk_no_nested

MOD = "abtem.core.config"


def _is_record_append(st: ast.AST):
    """`self._record.append((op, path, old))` -> the tuple node, else None."""
    if isinstance(st, ast.Expr) and isinstance(st.value, ast.Call):
        c = st.value
        if isinstance(c.func, ast.Attribute) and c.func.attr == "append" and dotted(c.func.value) == "self._record":
            if len(c.args) == 1 and isinstance(c.args[0], ast.Tuple) and len(c.args[0].elts) == 3:
                return c.args[0]
            raise AnalysisError("config.set: _record.append with an unrecognised argument shape")
    return None


def run(ctx) -> None:
    repo = ctx.repo
    ctx.rule("R-UNDO-RECORD", "in set._assign every store into the configuration dict (d[key] = ...) is reached only "
             "by paths that appended an undo record, or on which `record` is false because an enclosing insert was "
             "recorded; `record` may only be switched off (assignment/keyword False) after such a record")
    ctx.rule("R-UNDO-OLDVALUE", "a 'replace' record carries the old value d[key] read from the same dict and key as "
             "the overwriting store, and the recorded path contains the key being assigned")
    ctx.rule("R-UNDO-OPS", "the op literals produced by _assign are exactly those __exit__ distinguishes; each op's "
             "handler applies the inverse effect at path[-1] (replace: store the recorded value; insert: delete)")
    ctx.rule("R-UNDO-ORDER", "__exit__ iterates reversed(self._record), never leaves the loop early "
             "(no return/raise/break at loop level) and does not depend on the exception arguments")
    ctx.rule("R-CONFIG-WRITERS", "only config.set, config.refresh and config.update_defaults mutate config.config")
    ctx.undecided("that dask.config.canonical_name / update behave as documented")

    cset = repo.cls(MOD, "set")
    assign = repo.method(MOD, "set", "_assign")
    exit_ = repo.method(MOD, "set", "__exit__")
    init = repo.method(MOD, "set", "__init__")

    # ---------------- R-UNDO-RECORD (path-sensitive typestate over _assign)
    params = assign.positional_params
    ctx.require("record" in assign.params, "set._assign lost its `record` parameter")
    dparam = "d"
    ctx.require(dparam in params, "set._assign lost its dict parameter `d`")
    cfg = CFG(assign.node)
    stores = []
    switches = []
    appends = {}
    for n in cfg.nodes:
        st = n.ast
        if n.kind != "stmt" or st is None:
            continue
        tup = _is_record_append(st)
        if tup is not None:
            appends[n.idx] = tup
        if isinstance(st, ast.Assign):
            for t in st.targets:
                if isinstance(t, ast.Subscript) and isinstance(t.value, ast.Name) and t.value.id == dparam:
                    stores.append((n.idx, st, t))
                if isinstance(t, ast.Name) and t.id == "record":
                    if not (isinstance(st.value, ast.Constant) and st.value.value is False):
                        raise AnalysisError("set._assign assigns `record` a non-literal value")
                    switches.append((n.idx, st))
        if isinstance(st, ast.AugAssign) and isinstance(st.target, ast.Subscript) and dotted(st.target.value) == dparam:
            stores.append((n.idx, st, st.target))
        for c in walk_no_nested(st):
            if isinstance(c, ast.Call):
                cn = call_name(c)
                if isinstance(c.func, ast.Attribute) and dotted(c.func.value) == dparam and c.func.attr in (
                        "update", "pop", "clear", "setdefault", "popitem", "__setitem__", "__delitem__"):
                    stores.append((n.idx, st, c))
                if cn == "self._assign":
                    for k in c.keywords:
                        if k.arg == "record" and isinstance(k.value, ast.Constant) and k.value.value is False:
                            switches.append((n.idx, st))
        if isinstance(st, ast.Delete):
            for t in st.targets:
                if isinstance(t, ast.Subscript) and dotted(t.value) == dparam:
                    stores.append((n.idx, st, t))
    ctx.require(len(stores) >= 2, f"set._assign: expected >=2 stores into the config dict, found {len(stores)}")

    def test_polarity(node, label):
        """Does taking edge `label` out of test node imply `record` is false?"""
        st = node.ast
        if not isinstance(st, ast.If):
            return False
        t = st.test
        if isinstance(t, ast.Name) and t.id == "record":
            return label == "F"
        if isinstance(t, ast.UnaryOp) and isinstance(t.op, ast.Not) and isinstance(t.operand, ast.Name) and \
                t.operand.id == "record":
            return label == "T"
        if isinstance(t, ast.BoolOp) and isinstance(t.op, ast.And) and any(
                isinstance(v, ast.Name) and v.id == "record" for v in t.values):
            return False  # F edge of `record and x` does not imply not record
        return False

    def transfer(node, state, label, succ):
        if node.idx in appends:
            return "recorded"
        if node.kind == "test" and test_polarity(node, label):
            return "norecord"
        return state

    at = forward_states(cfg, "unrecorded", transfer)
    for idx, st, tgt in stores:
        bad = "unrecorded" in at[idx]
        ctx.check(not bad, "R-UNDO-RECORD", f"{assign.qualname}:store {norm_text(tgt)}", assign.loc(st),
                  "store reached only after an undo record or with record=False",
                  "a path reaches this store of the configuration dict without appending an undo record while "
                  "`record` may be true", key_detail=norm_text(st))
    for idx, st in switches:
        bad = "unrecorded" in at[idx]
        ctx.check(not bad, "R-UNDO-RECORD", f"{assign.qualname}:record-off {norm_text(st)[:60]}", assign.loc(st),
                  "recording is switched off only after a recorded insert",
                  "`record` is switched off on a path where no enclosing change was recorded", key_detail="switch")

    # ---------------- R-UNDO-OLDVALUE
    produced: dict[str, ast.Tuple] = {}
    for idx, tup in appends.items():
        op = tup.elts[0]
        ctx.require(isinstance(op, ast.Constant) and isinstance(op.value, str), "record op is not a string literal")
        produced[op.value] = tup
        pathvar = tup.elts[1]
    ctx.require(len(produced) >= 2, "fewer than two record ops are produced")
    # path variable must include the key: path = path + (key,)
    from ..cfg import DataFlow

    df = DataFlow(assign.node)
    # the key being assigned: the name that subscripts the dict in the stores
    keyvars = {t.slice.id for _, _, t in stores if isinstance(t, ast.Subscript) and isinstance(t.slice, ast.Name)}
    ctx.require(len(keyvars) == 1, f"set._assign: stores use several key variables {sorted(keyvars)}")
    keyvar = next(iter(keyvars))
    for idx, tup in appends.items():
        sl = df.backward_slice(idx, tup.elts[1])
        keyok = keyvar in sl.visited
        ctx.check(keyok and "path" in sl.params, "R-UNDO-OLDVALUE",
                  f"{assign.qualname}:record-path {tup.elts[0].value}", assign.loc(tup),
                  "recorded path = inherited path + the key being assigned",
                  "the recorded path does not include the key being assigned (or drops the inherited prefix)",
                  key_detail="path-" + tup.elts[0].value)
    if "replace" in produced:
        old = produced["replace"].elts[2]
        leaf_stores = [t for _, st, t in stores if isinstance(t, ast.Subscript)]
        good = isinstance(old, ast.Subscript) and any(ast.dump(old.value) == ast.dump(t.value) and
                                                     ast.dump(old.slice) == ast.dump(t.slice) for t in leaf_stores)
        ctx.check(good, "R-UNDO-OLDVALUE", f"{assign.qualname}:replace-old-value", assign.loc(old),
                  f"old value {ast.unparse(old)} read from the stored-to location before the store",
                  f"'replace' record stores {ast.unparse(old)} which is not the previous value of the location "
                  "being overwritten", key_detail="old")
    else:
        ctx.violation("R-UNDO-OLDVALUE", f"{assign.qualname}:replace-old-value", assign.where,
                      "no 'replace' record is produced although existing keys are overwritten", "noreplace")
    # recursion: _assign(keys[1:], value, d[key], path, record=record)
    rec_calls = [c for c in walk_no_nested(assign.node) if isinstance(c, ast.Call) and call_name(c) == "self._assign"]
    ctx.require(len(rec_calls) == 1, "set._assign: expected exactly one recursive call")
    rc = rec_calls[0]
    bound = {p: a for p, a in zip(params[1:], rc.args)}
    bound.update({k.arg: k.value for k in rc.keywords if k.arg})
    good = (isinstance(bound.get("d"), ast.Subscript) and dotted(bound["d"].value) == dparam
            and isinstance(bound["d"].slice, ast.Name) and bound["d"].slice.id == keyvar
            and isinstance(bound.get("path"), ast.Name) and bound["path"].id == "path"
            and ast.unparse(bound.get("keys")) == "keys[1:]")
    ctx.check(good, "R-UNDO-OLDVALUE", f"{assign.qualname}:recursion", assign.loc(rc),
              "recursion descends into d[key] with the extended path and the remaining keys",
              f"recursive call {ast.unparse(rc)} does not descend into d[key] with (keys[1:], path)", "recursion")

    # ---------------- R-UNDO-ORDER / R-UNDO-OPS on __exit__
    loops = [st for st in exit_.body if isinstance(st, ast.For)]
    ctx.require(len(loops) == 1, "set.__exit__: expected exactly one top-level loop over the record")
    loop = loops[0]
    it = loop.iter
    is_rev = (isinstance(it, ast.Call) and call_name(it) == "reversed" and len(it.args) == 1
              and dotted(it.args[0]) == "self._record")
    alt = (isinstance(it, ast.Subscript) and dotted(it.value) == "self._record" and isinstance(it.slice, ast.Slice)
           and it.slice.lower is None and it.slice.upper is None and it.slice.step is not None
           and ast.unparse(it.slice.step) == "-1")
    ctx.check(is_rev or alt, "R-UNDO-ORDER", f"{exit_.qualname}:iteration", exit_.loc(loop),
              "records are undone in reverse order", f"__exit__ iterates {ast.unparse(it)}, not the reversed record",
              "reversed")
    # no early exit at loop level
    early = []

    def scan(body, depth):
        for st in body:
            if isinstance(st, (ast.Return, ast.Raise)):
                early.append(st)
            elif isinstance(st, (ast.Break, ast.Continue)) and depth == 0:
                # continue at depth 0 skips the rest of one record's handler
                early.append(st)
            elif isinstance(st, (ast.For, ast.While)):
                scan(st.body, depth + 1)
                scan(st.orelse, depth)
            elif isinstance(st, ast.If):
                scan(st.body, depth)
                scan(st.orelse, depth)
            elif isinstance(st, ast.Try):
                scan(st.body, depth)
                for h in st.handlers:
                    scan(h.body, depth)
                scan(st.orelse, depth)
                scan(st.finalbody, depth)
            elif isinstance(st, ast.With):
                scan(st.body, depth)

    scan(loop.body, 0)
    ctx.check(not early, "R-UNDO-ORDER", f"{exit_.qualname}:no-early-exit", exit_.loc(loop),
              "no return/raise/break/continue at record-loop level",
              "the undo loop can be left early: " + "; ".join(norm_text(e) for e in early), "early")
    others = [st for st in exit_.body if st is not loop]
    bad_other = [st for st in others if isinstance(st, (ast.Return, ast.Raise, ast.If, ast.Try, ast.With))
                 and exit_.body.index(st) < exit_.body.index(loop)]
    ctx.check(not bad_other, "R-UNDO-ORDER", f"{exit_.qualname}:unconditional", exit_.where,
              "the undo loop is reached unconditionally",
              "statements before the undo loop may skip it: " + "; ".join(norm_text(e)[:50] for e in bad_other),
              "uncond")
    exc_params = set(exit_.positional_params[1:])
    # loop target shadows (e.g. `value`) — names bound by the loop are not exception args
    bound_names = {n.id for n in ast.walk(loop.target) if isinstance(n, ast.Name)}
    used_exc = set()
    for n in ast.walk(loop):
        if isinstance(n, ast.Name) and isinstance(n.ctx, ast.Load) and n.id in exc_params - bound_names:
            used_exc.add(n.id)
    ctx.check(not used_exc, "R-UNDO-ORDER", f"{exit_.qualname}:exception-independent", exit_.loc(loop),
              "undo does not look at the exception arguments",
              f"undo depends on exception arguments {sorted(used_exc)}", "exc")

    # per-op handlers
    ctx.require(isinstance(loop.target, ast.Tuple) and len(loop.target.elts) == 3 and
                all(isinstance(e, ast.Name) for e in loop.target.elts), "__exit__ loop target is not (op, path, value)")
    opv, pathv, valv = (e.id for e in loop.target.elts)
    arms: dict[str, list[ast.stmt]] = {}
    else_arm = None
    compared: set[str] = set()

    def split(body):
        nonlocal else_arm
        ifs = [st for st in body if isinstance(st, ast.If) and _op_compare(st.test, opv) is not None]
        if len(ifs) != 1:
            raise AnalysisError("__exit__: cannot find the single dispatch on the record op")
        cur = ifs[0]
        while True:
            lit = _op_compare(cur.test, opv)
            compared.add(lit)
            arms[lit] = cur.body
            if len(cur.orelse) == 1 and isinstance(cur.orelse[0], ast.If) and _op_compare(cur.orelse[0].test, opv):
                cur = cur.orelse[0]
                continue
            else_arm = cur.orelse or None
            break

    split(loop.body)
    unmatched = sorted(set(produced) - compared)
    stale = sorted(compared - set(produced))
    okops = not stale and (len(unmatched) == 0 or (len(unmatched) == 1 and else_arm is not None))
    ctx.check(okops, "R-UNDO-OPS", f"{exit_.qualname}:op-table", exit_.loc(loop),
              f"produced {sorted(produced)} / dispatched {sorted(compared)}" + (" + else" if else_arm else ""),
              f"op literals produced {sorted(produced)} do not match those dispatched {sorted(compared)}"
              + (" + else" if else_arm else ""), "optable")
    if okops:
        for op in sorted(produced):
            body = arms.get(op, else_arm)
            if op == "replace":
                good = any(
                    isinstance(n, ast.Assign) and any(
                        isinstance(t, ast.Subscript) and ast.unparse(t.slice) == f"{pathv}[-1]" for t in n.targets)
                    and isinstance(n.value, ast.Name) and n.value.id == valv
                    for st in body for n in ast.walk(st))
                ctx.check(good, "R-UNDO-OPS", f"{exit_.qualname}:handler replace", exit_.loc(body[0]),
                          "replace is undone by storing the recorded value at path[-1]",
                          "the 'replace' handler does not store the recorded old value at path[-1]", "h-replace")
                bad_del = any(isinstance(n, ast.Call) and isinstance(n.func, ast.Attribute) and n.func.attr in
                              ("pop", "clear", "popitem") for st in body for n in ast.walk(st)) or any(
                    isinstance(n, ast.Delete) for st in body for n in ast.walk(st))
                ctx.check(not bad_del, "R-UNDO-OPS", f"{exit_.qualname}:handler replace no-delete", exit_.loc(body[0]),
                          "replace handler deletes nothing", "the 'replace' handler deletes entries", "h-replace-del")
            elif op == "insert":
                good = False
                for st in body:
                    for n in ast.walk(st):
                        if isinstance(n, ast.Call) and isinstance(n.func, ast.Attribute) and n.func.attr == "pop" \
                                and n.args and ast.unparse(n.args[0]) == f"{pathv}[-1]":
                            good = True
                        if isinstance(n, ast.Delete) and any(
                                isinstance(t, ast.Subscript) and ast.unparse(t.slice) == f"{pathv}[-1]"
                                for t in n.targets):
                            good = True
                ctx.check(good, "R-UNDO-OPS", f"{exit_.qualname}:handler insert", exit_.loc(body[0]),
                          "insert is undone by deleting path[-1]",
                          "the 'insert' handler does not delete the inserted key path[-1]", "h-insert")
                bad_store = any(isinstance(n, ast.Assign) and any(isinstance(t, ast.Subscript) for t in n.targets)
                                for st in body for n in ast.walk(st))
                ctx.check(not bad_store, "R-UNDO-OPS", f"{exit_.qualname}:handler insert no-store",
                          exit_.loc(body[0]), "insert handler stores nothing",
                          "the 'insert' handler stores into the configuration", "h-insert-store")
            else:
                raise AnalysisError(f"unknown record op {op!r}: the inverse-effect table has no entry for it")
            # every handler walks path[:-1] from self.config
            walks = [n for st in body for n in ast.walk(st)
                     if isinstance(n, ast.For) and ast.unparse(n.iter) == f"{pathv}[:-1]"]
            ctx.check(bool(walks), "R-UNDO-OPS", f"{exit_.qualname}:handler {op} walk", exit_.loc(body[0]),
                      "handler descends along path[:-1]", f"the '{op}' handler does not descend along path[:-1]",
                      f"h-{op}-walk")
        # the root of every walk is self.config
        roots = [st for st in loop.body if isinstance(st, ast.Assign) and dotted(st.value) == "self.config"]
        ctx.check(bool(roots), "R-UNDO-OPS", f"{exit_.qualname}:root", exit_.loc(loop),
                  "each undo starts from self.config", "undo does not start from self.config", "root")

    # __init__ stores the dict it mutates as self.config and starts with an empty record
    init_src = {norm_text(st) for st in ast.walk(init.node) if isinstance(st, ast.Assign)}
    ctx.check("self.config = config" in init_src and "self._record = []" in init_src, "R-UNDO-OPS",
              f"{init.qualname}:state", init.where, "self.config is the dict that _assign mutates; record starts empty",
              "__init__ no longer binds self.config to the mutated dict / an empty record", "init")
    calls = [c for c in ast.walk(init.node) if isinstance(c, ast.Call) and call_name(c) == "self._assign"]
    ctx.require(len(calls) >= 1, "set.__init__ no longer calls _assign")
    for c in calls:
        b = {p: a for p, a in zip(params[1:], c.args)}
        b.update({k.arg: k.value for k in c.keywords if k.arg})
        rec_off = "record" in b and not (isinstance(b["record"], ast.Constant) and b["record"].value is True)
        ctx.check(dotted(b.get("d")) in ("config", "self.config") and not rec_off and "path" not in b,
                  "R-UNDO-RECORD", f"{init.qualname}:call {norm_text(c)[:50]}", init.loc(c),
                  "top-level assignment starts at the root with recording on",
                  "top-level _assign call does not start at the config root with recording on", "initcall")

    # ---------------- R-CONFIG-WRITERS (who may write config.config)
    allowed = {f"{MOD}.set._assign", f"{MOD}.set.__exit__", f"{MOD}.refresh", f"{MOD}.update_defaults",
               f"{MOD}.set.__init__"}
    writers = 0
    scanned = 0
    for f in repo.all_functions():
        scanned += 1
        cfgnames = set()
        m = f.module
        imports = dict(m.imports)
        for n in ast.walk(f.node):  # function-level imports
            if isinstance(n, ast.ImportFrom) and n.module and not n.level:
                for a in n.names:
                    imports[a.asname or a.name] = f"{n.module}.{a.name}"
            elif isinstance(n, ast.Import):
                for a in n.names:
                    if a.asname:
                        imports[a.asname] = a.name
                    else:
                        cfgnames.add(a.name + ".config") if a.name in (MOD, "abtem.config") else None
        # names by which the global dict is visible in this function
        for local, target in imports.items():
            if target in (f"{MOD}.config", "abtem.config.config"):
                cfgnames.add(local)
            if target in (MOD, "abtem.config"):
                cfgnames.add(local + ".config")
        if m.name == MOD:
            cfgnames.add("config")
        for n in walk_no_nested(f.node):
            tgt = None
            if isinstance(n, (ast.Assign, ast.AugAssign, ast.Delete)):
                ts = n.targets if not isinstance(n, ast.AugAssign) else [n.target]
                for t in ts:
                    if isinstance(t, ast.Subscript):
                        base = t.value
                        while isinstance(base, ast.Subscript):
                            base = base.value
                        if dotted(base) in cfgnames:
                            tgt = t
            if isinstance(n, ast.Call) and isinstance(n.func, ast.Attribute) and n.func.attr in (
                    "update", "pop", "clear", "setdefault", "popitem", "__setitem__"):
                base = n.func.value
                while isinstance(base, ast.Subscript):
                    base = base.value
                if dotted(base) in cfgnames:
                    tgt = n
            if isinstance(n, ast.Call) and call_name(n) in ("update", "dask.config.update") and n.args and \
                    dotted(n.args[0]) in cfgnames:
                tgt = n
            if tgt is not None:
                writers += 1
                ctx.check(f.qualname in allowed, "R-CONFIG-WRITERS", f"{f.qualname}:{norm_text(tgt)[:60]}",
                          f.loc(tgt), "writer is part of the config API",
                          "configuration dict mutated outside set/refresh/update_defaults — such a change is not "
                          "recorded and cannot be undone by an enclosing config.set", norm_text(tgt)[:60])
    ctx.require(writers >= 3, f"R-CONFIG-WRITERS matched only {writers} writers (positive control: refresh/"
                              "update_defaults must match)")
    ctx.extra["functions_scanned_for_config_writes"] = scanned


def _op_compare(test: ast.expr, opv: str):
    if isinstance(test, ast.Compare) and len(test.ops) == 1 and isinstance(test.ops[0], ast.Eq):
        a, b = test.left, test.comparators[0]
        if isinstance(a, ast.Name) and a.id == opv and isinstance(b, ast.Constant) and isinstance(b.value, str):
            return b.value
        if isinstance(b, ast.Name) and b.id == opv and isinstance(a, ast.Constant) and isinstance(a.value, str):
            return a.value
    return None


# ---- added after the seeded change C34-r5seed1: the kind of an undo record matches what the store does
_inner_run_c34 = run


def _membership_facts(test: ast.expr, label: str, keyvar: str, dparam: str):
    """What does leaving a test along `label` establish about `key in d`?  -> 'present' | 'absent' | None"""
    want = label == "T"

    def atom(t):
        if isinstance(t, ast.Compare) and len(t.ops) == 1 and isinstance(t.ops[0], (ast.In, ast.NotIn)) and \
                isinstance(t.left, ast.Name) and t.left.id == keyvar and dotted(t.comparators[0]) == dparam:
            return "present" if isinstance(t.ops[0], ast.In) else "absent"
        return None

    def flip(v):
        return {"present": "absent", "absent": "present"}.get(v)

    a = atom(test)
    if a is not None:
        return a if want else flip(a)
    if isinstance(test, ast.BoolOp):
        if isinstance(test.op, ast.And) and want:      # every conjunct holds
            facts = {atom(v) for v in test.values} - {None}
        elif isinstance(test.op, ast.Or) and not want:  # every disjunct fails
            facts = {flip(atom(v)) for v in test.values} - {None}
        else:
            return None
        if len(facts) == 1:
            return facts.pop()
    return None


def _undo_kind(ctx) -> int:
    repo = ctx.repo
    assign = repo.method(MOD, "set", "_assign")
    exit_ = repo.method(MOD, "set", "__exit__")
    dparam = "d"
    ctx.require(dparam in assign.positional_params, "set._assign lost its dict parameter `d`")
    cfg = CFG(assign.node)
    # which ops does __exit__ undo by REMOVING the key (as opposed to storing the recorded value)?
    loops = [l for l in ast.walk(exit_.node) if isinstance(l, ast.For)]
    ctx.require(bool(loops) and isinstance(loops[0].target, ast.Tuple) and len(loops[0].target.elts) == 3,
                "set.__exit__: loop over (op, path, value) records not found")
    opv, _, valv = (e.id for e in loops[0].target.elts)
    removing, restoring, default_removes = set(), set(), None

    def effect(body) -> str:
        rm = any(isinstance(n, ast.Call) and isinstance(n.func, ast.Attribute) and n.func.attr in ("pop", "__delitem__")
                 for st in body for n in ast.walk(st)) or any(isinstance(n, ast.Delete) for st in body for n in ast.walk(st))
        rs = any(isinstance(n, ast.Assign) and isinstance(n.targets[0], ast.Subscript) and isinstance(n.value, ast.Name)
                 and n.value.id == valv for st in body for n in ast.walk(st))
        if rm == rs:
            raise AnalysisError("set.__exit__: cannot tell whether a handler removes the key or restores the value")
        return "remove" if rm else "restore"

    st = next((s for s in loops[0].body if isinstance(s, ast.If)), None)
    while isinstance(st, ast.If):
        op = _op_compare(st.test, opv)
        ctx.require(op is not None, "set.__exit__: handler test is not `op == <literal>`")
        (removing if effect(st.body) == "remove" else restoring).add(op)
        if len(st.orelse) == 1 and isinstance(st.orelse[0], ast.If):
            st = st.orelse[0]
        else:
            if st.orelse:
                default_removes = effect(st.orelse) == "remove"
            st = None
    keyvars = set()
    for n in cfg.nodes:
        if n.kind == "stmt" and isinstance(n.ast, ast.Assign):
            for t in n.ast.targets:
                if isinstance(t, ast.Subscript) and dotted(t.value) == dparam and isinstance(t.slice, ast.Name):
                    keyvars.add(t.slice.id)
    ctx.require(len(keyvars) == 1, f"set._assign: stores use several key variables {sorted(keyvars)}")
    keyvar = keyvars.pop()

    from ..cfg import DataFlow

    df = DataFlow(assign.node)

    def resolve(t: ast.expr, at: int) -> ast.expr:
        """a test that is a local flag: `missing = key not in d; if missing:`"""
        if isinstance(t, ast.Name):
            d_ = df.single_def(at, t.id)
            if d_ is not None and d_.kind == "assign" and isinstance(d_.value, (ast.Compare, ast.BoolOp)):
                return d_.value
        return t

    def transfer(node, state, label, succ):
        st_ = node.ast
        if node.kind == "test" and isinstance(st_, ast.If) and label in ("T", "F"):
            f = _membership_facts(resolve(st_.test, node.idx), label, keyvar, dparam)
            return f or state
        if node.kind == "stmt" and isinstance(st_, ast.Assign):
            for t in st_.targets:
                if isinstance(t, ast.Name) and t.id in (keyvar, dparam):
                    return "unknown"
                if isinstance(t, ast.Subscript) and dotted(t.value) == dparam:
                    return "present"
        return state

    at = forward_states(cfg, "unknown", transfer)
    n = 0
    for node in cfg.nodes:
        if node.kind != "stmt" or node.ast is None:
            continue
        tup = _is_record_append(node.ast)
        if tup is None:
            continue
        op = tup.elts[0]
        if not (isinstance(op, ast.Constant) and isinstance(op.value, str)):
            continue
        removes = op.value in removing or (op.value not in restoring and default_removes is True)
        states = at[node.idx]
        n += 1
        if removes:
            bad = sorted(states - {"absent"})
            ctx.check(not bad, "R-UNDO-KIND", f"{assign.qualname}:record '{op.value}'", assign.loc(node.ast),
                      f"'{op.value}' (undone by removing the key) is recorded only where `{keyvar} not in {dparam}` holds",
                      f"the record '{op.value}' is undone by removing the key, but it is appended on a path where "
                      f"`{keyvar}` may already be in `{dparam}` ({', '.join(bad)}): the value that is about to be "
                      "overwritten is not recorded, and leaving the block deletes the key instead of restoring it",
                      key_detail="insert")
        else:
            bad = sorted(states - {"present"})
            ctx.check(not bad, "R-UNDO-KIND", f"{assign.qualname}:record '{op.value}'", assign.loc(node.ast),
                      f"'{op.value}' (undone by storing the recorded value) is recorded only where `{keyvar} in {dparam}` holds",
                      f"the record '{op.value}' is undone by storing the recorded value, but it is appended on a path "
                      f"where `{keyvar}` may be missing from `{dparam}` ({', '.join(bad)}): leaving the block creates a "
                      "key that did not exist", key_detail="replace")
    return n


def run(ctx) -> None:  # noqa: F811
    ctx.rule("R-UNDO-KIND", "path-sensitive membership typestate over set._assign (present / absent / unknown, "
             "established by the `key in d` / `key not in d` tests on the edge taken — a disjunction establishes "
             "nothing on its true edge): a record whose handler in __exit__ removes the key is appended only where the "
             "key is absent, a record whose handler stores the recorded value only where it is present.  An existing "
             "value that is replaced under an 'insert' record is lost when the block is left")
    pending = None
    try:
        n = _undo_kind(ctx)
        ctx.require(n >= 1, "R-UNDO-KIND found no undo record in set._assign")
    except AnalysisError as e:
        pending = e
    _inner_run_c34(ctx)
    if pending is not None:
        raise pending
