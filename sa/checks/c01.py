"""C01 — lazy and eager evaluation produce the same simulation results (structural clauses)."""
from __future__ import annotations

import ast

from ..model import call_name, dotted, norm_text, walk_no_nested
from ..rules import loopstate, recon, twins


def run(ctx) -> None:
    repo = ctx.repo
    ctx.rule("R-TWIN", twins.__doc__.split("\n\n", 1)[1])
    doc = recon.__doc__
    ctx.rule("R-RECON-GET", doc.split("R-RECON-GET", 1)[1].split("R-RECON-CTOR")[0])
    ctx.rule("R-RECON-CTOR", doc.split("R-RECON-CTOR", 1)[1].split("R-RECON-SUPPLY")[0])
    ctx.rule("R-LOOPSTATE", loopstate.__doc__.split("\n\n", 1)[1])
    ctx.rule("R-APPLY", "ArrayObject.apply_transform: the block function of the lazy arm (_apply_transform) and the "
             "eager arm call the same transform method on (transform, array object); the lazy arm rebuilds both "
             "operands from self._from_partitioned_args() / transform._from_partitioned_args() and partitions the "
             "transform with the validated chunks of its own ensemble axes; output metadata is derived outside the "
             "lazy/eager switch (shared by both modes)")
    ctx.undecided("numerical equality of the FFT pipelines; independence from the dask scheduler (no shared mutable "
                  "state is written from block functions is only covered for caller inputs by C32); max_batch "
                  "independence beyond the reconstruction and twin rules")
    ctx.assume("dask.array.map_blocks/map_overlap/blockwise apply the given function blockwise with the given keywords")

    n = twins.check_package(ctx)
    ctx.require(n >= 35, f"R-TWIN compared only {n} twins (hand-confirmed floor 35)")
    ng = recon.check_get(ctx)
    ctx.require(ng >= 40, f"R-RECON-GET matched only {ng} classes")
    nc = recon.check_ctor(ctx)
    ctx.require(nc >= 40, f"R-RECON-CTOR matched only {nc} classes")
    for fn in ("multislice_and_detect", "transition_potential_multislice_and_detect"):
        loopstate.check(ctx, repo.function("abtem.multislice", fn))

    # ---------------- R-APPLY
    at = repo.method("abtem.array", "ArrayObject", "apply_transform")
    blk = repo.method("abtem.array", "ArrayObject", "_apply_transform")
    sites = list(twins.find_twin_sites(at))
    sites = [s for s in sites if any(isinstance(c, ast.Call) and (call_name(c) or "").endswith("multi_output_blockwise")
                                     for st in s[1] for c in ast.walk(st))]
    ctx.require(len(sites) == 1, "apply_transform: lazy arm with multi_output_blockwise not found")
    site, lazy_arm, eager_arm = sites[0]
    mob = [c for st in lazy_arm for c in ast.walk(st) if isinstance(c, ast.Call) and
           (call_name(c) or "").endswith("multi_output_blockwise")][0]
    ctx.check(bool(mob.args) and dotted(mob.args[0]) == "self._apply_transform", "R-APPLY",
              f"{at.qualname}:block-function", at.loc(mob), "block function is self._apply_transform",
              f"block function is {ast.unparse(mob.args[0]) if mob.args else '?'}", "blockfn")
    tparam = at.positional_params[1]

    def method_calls_on(body, recv_pred):
        out = []
        for st in body:
            for c in ast.walk(st):
                if isinstance(c, ast.Call) and isinstance(c.func, ast.Attribute) and recv_pred(c.func.value) \
                        and c.func.attr.startswith("_calculate"):
                    out.append(c)
        return out

    eager_calls = method_calls_on(eager_arm, lambda v: isinstance(v, ast.Name) and v.id == tparam)
    blk_assign = {st.targets[0].id: st.value for st in walk_no_nested(blk.node)
                  if isinstance(st, ast.Assign) and len(st.targets) == 1 and isinstance(st.targets[0], ast.Name)}
    blk_calls = method_calls_on(blk.body, lambda v: isinstance(v, ast.Name))
    ctx.require(len(eager_calls) == 1 and len(blk_calls) == 1, "apply_transform/_apply_transform: transform call not found")
    ec, bc = eager_calls[0], blk_calls[0]
    same_method = ec.func.attr == bc.func.attr
    ctx.check(same_method, "R-APPLY", f"{at.qualname}:transform-method", at.loc(ec),
              f"both modes call transform.{ec.func.attr}",
              f"eager arm calls transform.{ec.func.attr} but the block function calls .{bc.func.attr}", "method")
    # operands of the block call come from the two partials
    recv = bc.func.value.id
    arg0 = bc.args[0] if bc.args else None
    def origin(name):
        v = blk_assign.get(name)
        while isinstance(v, ast.Call) and isinstance(v.func, ast.Attribute) and v.func.attr == "item":
            v = v.func.value
        return dotted(v.func) if isinstance(v, ast.Call) else None
    ok_ops = origin(recv) == "transform_partial" and isinstance(arg0, ast.Name) and origin(arg0.id) == "array_object_partial"
    ctx.check(ok_ops, "R-APPLY", f"{blk.qualname}:operands", blk.loc(bc),
              "block applies transform_partial(...) to array_object_partial(...)",
              f"block call {norm_text(bc)} does not apply the rebuilt transform to the rebuilt array object", "operands")
    ok_eager = len(ec.args) == 1 and dotted(ec.args[0]) == "self"
    ctx.check(ok_eager, "R-APPLY", f"{at.qualname}:eager-operands", at.loc(ec), "eager arm applies transform to self",
              f"eager call {norm_text(ec)} is not applied to self", "eager-operands")
    kws = {k.arg: k.value for k in mob.keywords if k.arg}
    _mob_f = repo.resolve_name(at.module, call_name(mob) or "")
    if hasattr(_mob_f, "positional_params"):  # arguments may be passed positionally as well
        from ..model import bind_args

        kws = {**bind_args(mob, _mob_f), **kws}
    lazy_assign = {}
    for st in lazy_arm:
        if isinstance(st, ast.Assign) and len(st.targets) == 1 and isinstance(st.targets[0], ast.Name):
            lazy_assign[st.targets[0].id] = st.value
    def resolved(name):
        v = kws.get(name)
        if isinstance(v, ast.Name) and v.id in lazy_assign:
            v = lazy_assign[v.id]
        return ast.unparse(v) if v is not None else None
    ok_partials = (resolved("array_object_partial") == "self._from_partitioned_args()" and
                   resolved("transform_partial") == f"{tparam}._from_partitioned_args()")
    ctx.check(ok_partials, "R-APPLY", f"{at.qualname}:partials", at.loc(mob),
              "operands rebuilt from self._from_partitioned_args() and transform._from_partitioned_args()",
              f"partials are {resolved('array_object_partial')} / {resolved('transform_partial')}", "partials")
    na = resolved("new_axes") or ""
    nav = kws.get("new_axes")
    if isinstance(nav, ast.Name) and nav.id in lazy_assign:
        nav = lazy_assign[nav.id]
    ok_axes = False
    if isinstance(nav, ast.Call) and call_name(nav) == f"{tparam}._partition_args" and nav.args:
        a0 = nav.args[0]
        if isinstance(a0, ast.Subscript) and isinstance(a0.slice, ast.Slice) and a0.slice.lower is None and \
                a0.slice.upper is not None and norm_text(a0.slice.upper) == f"len({tparam}.ensemble_shape)":
            basev = lazy_assign.get(dotted(a0.value) or "", None)
            ok_axes = isinstance(basev, ast.Call) and call_name(basev) == "validate_chunks"
    ctx.check(ok_axes, "R-APPLY", f"{at.qualname}:transform-partition", at.loc(mob),
              f"transform partitioned with its own validated chunks ({na})",
              f"transform partition argument is {na}", "new_axes")
    # metadata derivation shared: the statements after the switch that compute output metadata are not in an arm
    after = at.node.body[at.node.body.index(site) + 1:] if site in at.node.body else None
    ctx.require(after is not None, "apply_transform: lazy/eager switch is not a top-level statement")
    shared = [st for st in after if isinstance(st, ast.Assign) and isinstance(st.value, ast.Call)
              and (call_name(st.value) or "").startswith(f"{tparam}._out_")]
    in_arms = [c for arm in (lazy_arm, eager_arm) for st in arm for c in ast.walk(st)
               if isinstance(c, ast.Call) and (call_name(c) or "") in (
                   f"{tparam}._out_metadata", f"{tparam}._out_base_axes_metadata",
                   f"{tparam}._out_ensemble_axes_metadata", f"{tparam}._out_type")]
    ctx.check(len(shared) >= 4 and not in_arms, "R-APPLY", f"{at.qualname}:shared-metadata", at.loc(site),
              f"{len(shared)} output-metadata derivations are shared by both modes",
              "output metadata/type is derived inside a lazy/eager arm — the two modes can return different "
              "axes metadata or types", "shared-metadata")


# ---- added after the seeded change C01-r2seed0: the lazy-only partition of a distribution
_inner_run_c01 = run


def run(ctx) -> None:  # noqa: F811
    from ..rules import sameslice

    ctx.rule("R-SAMESLICE", "(shared with C19/C36) DistributionFromValues.divide is executed on the lazy path only — "
             "the eager path evaluates the whole distribution at once: every block it builds takes values and weights "
             "[Σ : Σ + n] of the receiver (sa/rules/partition.py), otherwise lazily applied weighted distributions "
             "(focal spread, tilt series) differ from the eager result as soon as the axis is split into blocks")
    sameslice.check(ctx, ctx.repo.method("abtem.distributions", "DistributionFromValues", "divide"))
    _inner_run_c01(ctx)


# ---- added: rank of the block function's packing vs. the blockwise output symbols (found on the tree)
_inner_run_c01b = run


def run(ctx) -> None:  # noqa: F811
    import ast as _ast

    from ..model import call_name as _cn, dotted as _dotted, norm_text as _nt, walk_no_nested as _walk

    ctx.rule("R-BLOCKRANK", "writer/reader agreement of the lazy apply_transform: multi_output_blockwise declares one "
             "output symbol per *dimension* of every transform-argument array (sum of len(axis.shape)) plus the "
             "array's own dimensions; the block function _apply_transform must pack its result into an object array "
             "of that rank.  A rank that counts one dimension per *argument* is only right while every transform's "
             "_partition_args returns 1-d blocks: it is a violation as soon as some _partition_args adds a dimension "
             "to an argument array (x[..., None]) — dask then concatenates mis-shaped blocks whenever base axes are "
             "dropped (scalar detectors), in lazy mode only")
    repo = ctx.repo
    mob = repo.function("abtem.array", "multi_output_blockwise")
    at = repo.method("abtem.array", "ArrayObject", "_apply_transform")
    # reader: out_ndim = new_ndim + base_ndim with new_ndim = sum(len(axis.shape) for axis in new_axes)
    decl_by_dim = any(isinstance(c, _ast.Call) and _cn(c) == "sum" and "shape" in _nt(c) for c in _walk(mob.node))
    ctx.require(decl_by_dim, f"{mob.qualname}: the number of output symbols is no longer sum(len(axis.shape) ...) + ndim")
    # writer: packing = np.zeros((1,) * <rank>, dtype=object)
    zeros = [c for c in _walk(at.node) if isinstance(c, _ast.Call) and (_cn(c) or "").endswith("zeros") and c.args
             and isinstance(c.args[0], _ast.BinOp) and isinstance(c.args[0].op, _ast.Mult)]
    ctx.require(len(zeros) == 1, f"{at.qualname}: packing array `np.zeros((1,) * rank, dtype=object)` not found")
    rank = zeros[0].args[0].right if isinstance(zeros[0].args[0].left, _ast.Tuple) else zeros[0].args[0].left
    from ..cfg import DataFlow as _DF

    dfa = _DF(at.node)
    st = next(s for s in _walk(at.node) if isinstance(s, _ast.stmt) and any(x is zeros[0] for x in _ast.walk(s))
              and not isinstance(s, (_ast.If, _ast.For, _ast.With, _ast.Try, _ast.FunctionDef)))
    expr = rank
    if isinstance(rank, _ast.Name):
        d = dfa.single_def(dfa.cfg.node_of(st).idx, rank.id)
        ctx.require(d is not None and d.value is not None, f"{at.qualname}: rank `{rank.id}` has no single definition")
        expr = d.value
    text = _nt(expr)
    by_dim = any(isinstance(c, _ast.Call) and _cn(c) == "sum" and ("ndim" in _nt(c) or "shape" in _nt(c))
                 for c in _ast.walk(expr))
    adders = []
    if not by_dim:
        for f in repo.all_functions():
            if f.name != "_partition_args" or f.cls is None:
                continue
            for r in _walk(f.node):
                if not isinstance(r, (_ast.Return, _ast.Assign)):
                    continue
                for sub in _ast.walk(r.value) if r.value is not None else ():
                    if isinstance(sub, _ast.Subscript):
                        idx = sub.slice.elts if isinstance(sub.slice, _ast.Tuple) else [sub.slice]
                        if any(isinstance(i_, _ast.Constant) and i_.value is None for i_ in idx):
                            adders.append((f, sub))
                    if isinstance(sub, _ast.Call) and (_cn(sub) or "").split(".")[-1] in ("expand_dims", "atleast_2d"):
                        adders.append((f, sub))
    if by_dim:
        ctx.ok("R-BLOCKRANK", f"{at.qualname}:packing rank", at.loc(zeros[0]),
               f"packing rank `{text[:70]}` counts the dimensions of every argument block")
    else:
        ctx.check(not adders, "R-BLOCKRANK", f"{at.qualname}:packing rank", at.loc(zeros[0]),
                  f"packing rank `{text[:60]}` counts arguments; every _partition_args returns 1-d blocks",
                  f"the packing rank `{text[:60]}` counts one dimension per transform argument, but "
                  + "; ".join(f"{f.qualname} returns `{_nt(s_)[:40]}` (an added dimension)" for f, s_ in adders[:3])
                  + ": multi_output_blockwise declares one symbol per dimension, so the packed block has too few "
                    "dimensions and dask fails (or mis-assembles) when base axes are dropped", key_detail="rank")
    _inner_run_c01b(ctx)


# ---- added after the seeded change C01-r3seed0: parameters read back are the parameters given
_inner_run_c01c = run


def run(ctx) -> None:  # noqa: F811
    ctx.rule("R-RECON-ROUNDTRIP", recon.check_roundtrip.__doc__)
    n = recon.check_roundtrip(ctx)
    ctx.require(n >= 3, f"R-RECON-ROUNDTRIP judged only {n} (class, parameter) pairs")
    _inner_run_c01c(ctx)



# =============================================================================================
# ---- added after the mutation sweep (round 4): the block bookkeeping that only one of the two modes executes
_inner_run_c01d = run


def run(ctx) -> None:  # noqa: F811
    from ..model import AnalysisError
    from ..rules import argindex, blockflow
    from . import c19

    ctx.rule("R-ARGINDEX", "(shared with C19) " + argindex.__doc__.split("\n\n", 1)[1] + "  ensemble_blocks is executed "
             "by the lazy mode only and generate_blocks by the eager block loops only: a slip in either index "
             "bookkeeping changes one mode and not the other")
    ctx.rule("R-BLOCKFLOW", "(shared with C19) " + blockflow.__doc__.split("\n\n", 1)[1] + "  The partitioning functions "
             "have a lazy and an eager arm (or are used by one mode only); a block that is built but not stored, "
             "stored at the wrong index or not forwarded in one arm makes that mode differ from the other")
    pending = []
    try:
        argindex.check(ctx, ctx.repo.method("abtem.core.ensemble", "Ensemble", "ensemble_blocks"),
                       ctx.repo.method("abtem.core.ensemble", "Ensemble", "generate_blocks"))
    except AnalysisError as e:
        pending.append(e)
    try:
        argindex.check_multi_output(ctx, ctx.repo.function("abtem.array", "multi_output_blockwise"))
    except AnalysisError as e:
        pending.append(e)
    n = 0
    for m, c, fn in c19.BLOCKFLOW_TARGETS:
        try:
            n += blockflow.check(ctx, ctx.repo.method(m, c, fn))
        except AnalysisError as e:
            pending.append(e)
    _inner_run_c01d(ctx)
    if pending:
        raise pending[0]
    ctx.require(n >= 30, f"R-BLOCKFLOW examined only {n} instances")


# ---- round 4, continued: the (array block, metadata) pair of ArrayObject._partition_args in both arms
_inner_run_c01e = run


def run(ctx) -> None:  # noqa: F811
    from ..model import AnalysisError
    from ..rules import blockpair

    ctx.rule("R-BLOCKPAIR", blockpair.__doc__.split("\n\n", 1)[1])
    err = None
    try:
        n = blockpair.check(ctx, ctx.repo.method("abtem.array", "ArrayObject", "_partition_args"),
                            ctx.repo.method("abtem.array", "ArrayObject", "_partition_ensemble_axes_metadata"))
        ctx.require(n >= 3, f"R-BLOCKPAIR examined only {n} instances")
    except AnalysisError as e:
        err = e
    _inner_run_c01e(ctx)
    if err is not None:
        raise err


# ---- added after the seeded change C01-r4seed0: a cached FFT plan never runs on the buffer of an earlier call
_inner_run_c01f = run


def run(ctx) -> None:  # noqa: F811
    from . import c38

    ctx.rule("R-COPYGUARD", "(shared with C38/C02/C04; the rule lives in c38) the eager multislice loop keeps ONE "
             "FresnelPropagator, hence one CachedFFTWConvolution, for all frozen-phonon configurations and starts every "
             "configuration from a fresh copy of the incident waves, while the lazy graph builds a propagator per block. "
             "A cached plan that can be executed while still bound to the arrays of a previous call transforms (and "
             "returns) the old buffer: configurations 2..n of the eager run continue from the previous exit wave and "
             "the eager result differs from the lazy one.  Decided on the CFG of CachedFFTWConvolution.__call__: every "
             "path to the execution of a plan passes the creation of the plans on the current array or update_arrays "
             "with it, taking into account which values the cache key can hold")
    c38._copyguard_cached(ctx, ctx.repo)
    _inner_run_c01f(ctx)
