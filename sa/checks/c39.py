"""C39 — beam tilt acts as a lateral shift per propagation distance (abtem/multislice.py, abtem/tilt.py)."""
from __future__ import annotations

import ast
from fractions import Fraction

from ..cfg import DataFlow
from ..model import AnalysisError, FuncInfo, bind_args, call_name, dotted, kw, last_attr, norm_text, walk_no_nested
from ..rules import modulus as M
from ..terms import FlowNormalizer, PI, Poly

MS = "abtem.multislice"
TILT_FN = "_apply_tilt_to_fresnel_propagator_array"
IDENTITY = {"expand_dims", "array", "asarray", "ascontiguousarray", "squeeze", "reshape", "broadcast_to", "cast", "float",
            "astype"}


def _bare(k: str) -> str:
    return k[2:] if k.startswith("1*") else k


def _slice_items(sl: ast.expr) -> list[ast.expr]:
    return list(sl.elts) if isinstance(sl, ast.Tuple) else [sl]


def _is_none(e) -> bool:
    return (isinstance(e, ast.Constant) and e.value is None) or dotted(e) in ("np.newaxis", "xp.newaxis")


def _is_full(e) -> bool:
    return isinstance(e, ast.Slice) and e.lower is None and e.upper is None and e.step is None


def _is_ellipsis(e) -> bool:
    return isinstance(e, ast.Constant) and e.value is Ellipsis


def reshape_only(sub: ast.Subscript) -> bool:
    return all(_is_none(e) or _is_full(e) or _is_ellipsis(e) for e in _slice_items(sub.slice))


def data_axis_from_end(sub: ast.Subscript) -> int:
    """For a 1-D array indexed only with None / ':' / '...': position (negative) of its data axis in the result."""
    items = _slice_items(sub.slice)
    kinds = ["n" if _is_none(e) else "d" for e in items]
    if kinds.count("d") == 0:
        kinds.append("d")  # implicit trailing full slice
    if kinds.count("d") != 1:
        raise AnalysisError(f"reshape `{norm_text(sub)}` of a 1-D array has more than one data axis")
    return kinds.index("d") - len(kinds)


class ShapeFreeNorm(FlowNormalizer):
    """Term normal form that ignores pure reshaping (None / ':' indexing, expand_dims, asarray, cast) and writes the
    selection of component c on the last axis as base⟨c⟩, tan(t) as tan(<normal form of t>)."""

    def norm(self, n):
        if isinstance(n, ast.Subscript):
            items = _slice_items(n.slice)
            if reshape_only(n):
                return self.norm(n.value)
            rest = [e for e in items if not _is_none(e)]
            if rest and all(_is_full(e) or _is_ellipsis(e) for e in rest[:-1]) and not isinstance(rest[-1], ast.Slice):
                bp = self.norm(n.value)
                comp = _bare(self.norm(rest[-1]).key())
                if bp.is_monomial() and not bp.is_const():
                    (mono, coef), = bp.terms.items()
                    if len(mono) == 1 and mono[0][1] == 1:  # selection commutes with scaling: (c·t)⟨i⟩ = c·t⟨i⟩
                        return Poly.const(coef) * Poly.atom(f"{mono[0][0]}⟨{comp}⟩")
                base = _bare(bp.key())
                return Poly.atom(f"{base}⟨{comp}⟩")
        if isinstance(n, ast.Call):
            s = last_attr(n)
            if s == "cast" and len(n.args) == 2:
                return self.norm(n.args[1])
            if s in IDENTITY and n.args:
                return self.norm(n.args[0])
            if s in IDENTITY and isinstance(n.func, ast.Attribute) and not n.args:
                return self.norm(n.func.value)
            if s == "tan" and len(n.args) == 1:
                return Poly.atom(f"tan({self.norm(n.args[0]).key()})")
        return super().norm(n)


def _stmt_node(df: DataFlow, f: FuncInfo, target: ast.AST) -> int:
    for n in df.cfg.nodes:
        if n.ast is None or n.kind in ("entry", "exit", "raise"):
            continue
        roots = [n.ast]
        if isinstance(n.ast, ast.If):
            roots = [n.ast.test]
        elif isinstance(n.ast, ast.For):
            roots = [n.ast.iter, n.ast.target]
        elif isinstance(n.ast, ast.While):
            roots = [n.ast.test]
        elif isinstance(n.ast, ast.With):
            roots = [i.context_expr for i in n.ast.items]
        elif isinstance(n.ast, (ast.FunctionDef, ast.ClassDef, ast.Try, ast.ExceptHandler)):
            continue
        for r in roots:
            for m in ast.walk(r):
                if m is target:
                    return n.idx
    raise AnalysisError(f"{f.qualname}: expression at line {getattr(target, 'lineno', '?')} has no CFG node")


def frequency_names(f: FuncInfo) -> tuple[str, str]:
    """(x-name, y-name) bound by `kx, ky = spatial_frequencies(...)` in `f`."""
    for st in walk_no_nested(f.node):
        if isinstance(st, ast.Assign) and isinstance(st.value, ast.Call) and last_attr(st.value) == "spatial_frequencies" \
                and len(st.targets) == 1 and isinstance(st.targets[0], ast.Tuple) and len(st.targets[0].elts) == 2 and \
                all(isinstance(e, ast.Name) for e in st.targets[0].elts):
            return st.targets[0].elts[0].id, st.targets[0].elts[1].id
    raise AnalysisError(f"{f.qualname}: `kx, ky = spatial_frequencies(...)` not found")


def _aliases(f: FuncInfo, names: tuple[str, str]) -> dict[str, int]:
    """name -> 0 (x) / 1 (y) for the frequency names and names assigned from (reshapes of) them."""
    out = {names[0]: 0, names[1]: 1}
    changed = True
    while changed:
        changed = False
        for st in walk_no_nested(f.node):
            if not isinstance(st, ast.Assign) or len(st.targets) != 1:
                continue
            pairs = []
            t, v = st.targets[0], st.value
            if isinstance(t, ast.Tuple) and isinstance(v, ast.Tuple) and len(t.elts) == len(v.elts):
                pairs = list(zip(t.elts, v.elts))
            elif isinstance(t, ast.Name):
                pairs = [(t, v)]
            for tt, vv in pairs:
                base = vv
                while isinstance(base, ast.Subscript) and reshape_only(base):
                    base = base.value
                if isinstance(tt, ast.Name) and isinstance(base, ast.Name) and base.id in out and tt.id not in out:
                    out[tt.id] = out[base.id]
                    changed = True
    return out


def check_axis_placement(ctx, f: FuncInfo, rule: str) -> None:
    names = frequency_names(f)
    al = _aliases(f, names)
    seen = {0: 0, 1: 0}
    for sub in walk_no_nested(f.node):
        if isinstance(sub, ast.Subscript) and isinstance(sub.value, ast.Name) and sub.value.id in al and reshape_only(sub):
            ax = al[sub.value.id]
            pos = data_axis_from_end(sub)
            seen[ax] += 1
            want = -2 if ax == 0 else -1
            ctx.check(pos == want, rule, f"{f.qualname}:{'xy'[ax]}-frequency placement `{norm_text(sub)}`", f.loc(sub),
                      f"{'xy'[ax]} frequencies vary along array axis {want}",
                      f"`{norm_text(sub)}` puts the {'xy'[ax]} spatial frequencies (first/second result of "
                      f"spatial_frequencies) along array axis {pos}; the wave arrays are laid out (..., x, y), so the "
                      f"{'xy'[ax]} phase ramp is applied along the wrong axis", key_detail=f"axis-{'xy'[ax]}")
    if not (seen[0] and seen[1]):
        raise AnalysisError(f"{f.qualname}: broadcasting reshape of the spatial frequencies not recognised")


# ====================================================================== main
def run(ctx) -> None:
    repo = ctx.repo
    ctx.rule("R-TILTPHASE", "each factor of the tilt kernel is e^(i·phase) with phase/(k_axis · x_axis) equal to the same "
             "constant as in core.fft.fft_shift_kernel (−2π), where x_axis = thickness · tan(tilt_axis / 1000): "
             "propagation with tilt = propagation without tilt followed by a shift by dz·tan(t) per axis")
    ctx.rule("R-AXIS", "the x frequencies (first result of spatial_frequencies) vary along array axis −2 and are paired "
             "with tilt component 0, the y frequencies along axis −1 with component 1 (tilt kernel and propagator)")
    ctx.rule("R-SAMEFUNC", "the base-tilt arm and the tilt-axis arm of FresnelPropagator._calculate_array call the same "
             "kernel function with the same sampling and thickness; the tilt-axis loop and _get_tilt_axes use the "
             "same predicate")
    ctx.rule("R-AXISTILT", "AxisAlignedTiltAxis.tilt maps direction x to (v, 0) and y to (0, v); TiltAxis.tilt returns "
             "its values: per-axis tilts and 2D pairs reach the kernel in the same (x, y) form")
    ctx.rule("R-TILTMETA", "base_tilt is read as (base_tilt_x, base_tilt_y); BeamTilt/BeamTilt2D write component 0 / "
             "tilt_x under base_tilt_x and component 1 / tilt_y under base_tilt_y; BeamTilt2D labels the tilt_x "
             "distribution direction 'x' and tilt_y 'y'")
    ctx.rule("R-MODULUS", "the tilt kernel has modulus 1 (a tilted plane wave keeps unit modulus in vacuum)")
    ctx.assume("fft_shift_kernel(positions) shifts by +positions (C15/C20 own that clause); tilt angles are in mrad")
    ctx.undecided("numerical equality of tilted propagation and shifted untilted propagation; interpolation of "
                  "non-integer shifts")

    tf = repo.function(MS, TILT_FN)
    df = DataFlow(tf.node)
    # ---------------- reference: fft_shift_kernel
    fk = repo.function("abtem.core.fft", "fft_shift_kernel")
    dfk = DataFlow(fk.node)
    pos_param = fk.positional_params[0]
    refs = [c for c in walk_no_nested(fk.node) if isinstance(c, ast.Call) and last_attr(c) == "complex_exponential"
            and len(c.args) == 1]
    ctx.require(len(refs) == 1, f"{fk.qualname}: expected one phase-ramp construction")
    nzk = ShapeFreeNorm(dfk, _stmt_node(dfk, fk, refs[0]))
    pk = nzk.norm(refs[0].args[0])
    ctx.require(len(pk.terms) == 1, f"{fk.qualname}: phase {pk.key()} is not a single product")
    (mono, coef), = pk.terms.items()
    xs = [a for a, e in mono if a.startswith(pos_param + "⟨") and e == 1]
    ks = [a for a, e in mono if a not in xs and a != PI and e == 1]
    ctx.require(len(xs) == 1 and len(ks) == 1 and len(mono) == 3,
                f"{fk.qualname}: phase {pk.key()} is not const · k[i] · positions[..., i]")
    comp_idx = xs[0].split("⟨", 1)[1].rstrip("⟩")
    ctx.require(ks[0].endswith(f"[{comp_idx}]") or ks[0].endswith(f"⟨{comp_idx}⟩"),
                f"{fk.qualname}: frequency {ks[0]} and position {xs[0]} are indexed differently")
    ref_ratio = pk * (Poly.atom(xs[0]) * Poly.atom(ks[0])).inverse()
    ctx.require(ref_ratio.atoms() <= {PI}, f"{fk.qualname}: phase ratio {ref_ratio.key()} is not a constant")
    ctx.ok("R-TILTPHASE", f"{fk.qualname}:reference", fk.loc(refs[0]),
           f"shift kernel phase / (k_i · x_i) = {ref_ratio.key()}")

    # ---------------- tilt kernel factors
    fx, fy = frequency_names(tf)
    calls = [c for c in walk_no_nested(tf.node) if isinstance(c, ast.Call) and last_attr(c) == "complex_exponential"
             and len(c.args) == 1]
    ctx.require(len(calls) >= 1, f"{tf.qualname}: no complex_exponential factor found")
    tparam = "tilt"
    ctx.require(tparam in tf.params and "thickness" in tf.params, f"{tf.qualname}: parameters tilt/thickness not found")
    covered = set()
    for c in calls:
        nz = ShapeFreeNorm(df, _stmt_node(df, tf, c))
        nz.no_inline.update({tparam, "thickness"})
        p = nz.norm(c.args[0])
        axes = [i for i, nm in enumerate((fx, fy)) if nm in p.atoms()]
        if len(axes) != 1 or len(p.terms) != 1:
            if len(p.terms) == 2 and set(axes) == {0, 1}:
                parts = [Poly({m: v}) for m, v in p.terms.items()]
            else:
                raise AnalysisError(f"{tf.qualname}: phase {p.key()[:100]} does not split into per-axis ramps")
        else:
            parts = [p]
        for part in parts:
            ax = [i for i, nm in enumerate((fx, fy)) if nm in part.atoms()]
            ctx.require(len(ax) == 1, f"{tf.qualname}: phase term {part.key()[:80]} mixes the axes")
            ax = ax[0]
            covered.add(ax)
            kname = (fx, fy)[ax]
            rest = part * (ref_ratio * Poly.atom(kname)).inverse()  # should be the displacement x_axis
            comp = f"{tparam}⟨{ax}⟩"
            want = Poly.atom("thickness") * Poly.atom(f"tan({(Poly.const(Fraction(1, 1000)) * Poly.atom(comp)).key()})")
            other = f"{tparam}⟨{1 - ax}⟩"
            swapped = any(other in a for a in rest.atoms())
            ctx.check(not swapped, "R-AXIS", f"{tf.qualname}:{'xy'[ax]}-ramp tilt component", tf.loc(c),
                      f"{'xy'[ax]} frequencies are paired with tilt component {ax}",
                      f"the {'xy'[ax]} phase ramp uses tilt component {1 - ax}: x and y tilts are exchanged",
                      key_detail=f"pair-{'xy'[ax]}")
            if swapped:
                continue
            ctx.check(rest == want, "R-TILTPHASE", f"{tf.qualname}:{'xy'[ax]}-ramp", tf.loc(c),
                      f"phase = ({ref_ratio.key()}) · {kname} · {want.key()}",
                      f"the {'xy'[ax]} tilt phase equals ({ref_ratio.key()}) · {kname} · [{rest.key()[:120]}] but a shift by "
                      f"dz·tan(t) needs [{want.key()}] (tilt in mrad): tilted propagation is not a lateral shift by "
                      "thickness·tan(tilt)", key_detail=f"phase-{'xy'[ax]}")
    ctx.check(covered == {0, 1}, "R-TILTPHASE", f"{tf.qualname}:both-axes", tf.where,
              "a phase ramp exists for x and for y", f"only axes {sorted(covered)} receive a tilt phase ramp",
              key_detail="both")
    # the factors multiply the propagator
    ip = M.Interp(repo, attr_oracle=M.standard_attr_oracle({"shape"}))
    s = ip.run(tf, {"array": M.UNIT, "sampling": M.SeqV(M.real(0, M.INF)), "thickness": M.real(), tparam: M.real()})
    for label, st, v in M.return_paths(s):
        M.decide(ctx, "R-MODULUS", f"{tf.qualname}:{label}", tf.loc(st) if st is not None else tf.where, v, "eq1",
                 "tilted unit-modulus propagator", key_detail="eq1")

    # ---------------- R-AXIS placement
    check_axis_placement(ctx, tf, "R-AXIS")
    check_axis_placement(ctx, repo.function(MS, "_fresnel_propagator_array"), "R-AXIS")

    # ---------------- R-SAMEFUNC
    _same_func(ctx, tf)
    # ---------------- R-AXISTILT / R-TILTMETA
    _axis_tilt(ctx)
    _tilt_meta(ctx)


def _same_func(ctx, tf: FuncInfo) -> None:
    repo = ctx.repo
    pc = repo.method(MS, "FresnelPropagator", "_calculate_array")
    df = DataFlow(pc.node)
    calls = [c for c in walk_no_nested(pc.node) if isinstance(c, ast.Call) and call_name(c) == tf.name]
    others = [c for c in walk_no_nested(pc.node) if isinstance(c, ast.Call) and (call_name(c) or "") != tf.name and
              "tilt" in (call_name(c) or "").lower() and (call_name(c) or "") not in ("_get_tilt_axes",)]
    ctx.check(len(calls) >= 2 and not others, "R-SAMEFUNC", f"{pc.qualname}:kernel-function", pc.where,
              f"{len(calls)} tilt applications, all through {tf.name}",
              f"base-tilt and tilt-axis arms do not both go through {tf.name} (calls: {len(calls)}, other tilt helpers: "
              f"{[call_name(c) for c in others]})", key_detail="function")
    if not calls:
        raise AnalysisError(f"{pc.qualname}: no application of {tf.name} left to compare")
    wparam = pc.positional_params[0]
    bound = []
    for c in calls:
        b = bind_args(c, tf)
        ctx.require({"array", "sampling", "thickness", "tilt"} <= set(b), f"{pc.qualname}: cannot bind {norm_text(c)[:60]}")
        at = _stmt_node(df, pc, c)
        nz = FlowNormalizer(df, at)
        sl = df.backward_slice(at, b["tilt"])
        bound.append((c, at, nz.norm(b["sampling"]), nz.norm(b["thickness"]), b, sl))
    s0, t0 = bound[0][2], bound[0][3]
    for c, at, sp, tp, b, sl in bound:
        ctx.check(sp == s0 and tp == t0 and tp == Poly.atom("thickness"), "R-SAMEFUNC",
                  f"{pc.qualname}:arguments `{norm_text(b['tilt'])[:30]}`", pc.loc(c),
                  f"sampling {sp.key()} and thickness {tp.key()} agree across the arms",
                  f"this arm passes sampling {sp.key()} / thickness {tp.key()} while the first arm passes {s0.key()} / "
                  f"{t0.key()} (and the propagation distance is `thickness`)", key_detail="args")
    srcs = []
    for c, at, sp, tp, b, sl in bound:
        t = b["tilt"]
        origin = None
        nzt = ShapeFreeNorm(df, at)
        k = _bare(nzt.norm(t).key())
        if k == f"{wparam}.base_tilt":
            origin = "base"
        elif k.endswith(".tilt"):
            origin = "axis"
        srcs.append(origin)
        ctx.check(origin is not None, "R-SAMEFUNC", f"{pc.qualname}:tilt-source `{norm_text(t)[:30]}`", pc.loc(c),
                  f"tilt argument is {k}", f"tilt argument {k} is neither {wparam}.base_tilt nor the tilt of an "
                  "ensemble axis", key_detail="source")
    ctx.check("base" in srcs and "axis" in srcs, "R-SAMEFUNC", f"{pc.qualname}:both-sources", pc.where,
              "base tilt and tilt axes are both applied", f"tilt sources applied: {srcs}", key_detail="sources")
    # predicate agreement with _get_tilt_axes
    gta = repo.function("abtem.tilt", "_get_tilt_axes")

    def predicates(f: FuncInfo):
        out = set()
        for c in walk_no_nested(f.node):
            if isinstance(c, ast.Call) and call_name(c) == "hasattr" and len(c.args) == 2 and \
                    isinstance(c.args[1], ast.Constant):
                out.add(c.args[1].value)
            if isinstance(c, ast.Call) and call_name(c) == "isinstance" and len(c.args) == 2:
                out.add("isinstance:" + norm_text(c.args[1]))
        return out

    p1, p2 = predicates(gta), predicates(pc)
    ctx.check(p1 == p2 and p1, "R-SAMEFUNC", f"{pc.qualname}:tilt-axis-predicate", pc.where,
              f"loop and _get_tilt_axes select axes by {sorted(p1)}",
              f"_get_tilt_axes selects tilt axes by {sorted(p1)} but the loop applying them by {sorted(p2)}",
              key_detail="predicate")


def _axis_tilt(ctx) -> None:
    repo = ctx.repo
    f = repo.method("abtem.core.axes", "AxisAlignedTiltAxis", "tilt")
    arms = {}
    for st in f.body:
        cur = st
        while isinstance(cur, ast.If):
            t = cur.test
            lit = None
            if isinstance(t, ast.Compare) and len(t.ops) == 1 and isinstance(t.ops[0], ast.Eq):
                for a, b in ((t.left, t.comparators[0]), (t.comparators[0], t.left)):
                    if dotted(a) in ("self.direction", "self._direction") and isinstance(b, ast.Constant):
                        lit = b.value
            if lit is not None:
                arms[lit] = cur.body
            if len(cur.orelse) == 1 and isinstance(cur.orelse[0], ast.If):
                cur = cur.orelse[0]
            else:
                break
    ctx.require({"x", "y"} <= set(arms), f"{f.qualname}: arms for directions 'x' and 'y' not found")
    for d in ("x", "y"):
        pat = None
        for st in arms[d]:
            for n in ast.walk(st):
                if isinstance(n, (ast.GeneratorExp, ast.ListComp)) and isinstance(n.elt, ast.Tuple) and \
                        len(n.elt.elts) == 2 and len(n.generators) == 1 and isinstance(n.generators[0].target, ast.Name):
                    v = n.generators[0].target.id
                    it = dotted(n.generators[0].iter)
                    kinds = []
                    for e in n.elt.elts:
                        if isinstance(e, ast.Name) and e.id == v:
                            kinds.append("v")
                        elif isinstance(e, ast.Constant) and e.value == 0:
                            kinds.append("0")
                        else:
                            kinds.append("?")
                    pat = ("".join(kinds), it)
        if pat is None:
            raise AnalysisError(f"{f.qualname}: tuple construction for direction {d!r} not recognised")
        want = "v0" if d == "x" else "0v"
        ctx.check(pat[0] == want and pat[1] == "self.values", "R-AXISTILT", f"{f.qualname}:direction {d}", f.loc(arms[d][0]),
                  f"direction {d} -> {'(v, 0)' if d == 'x' else '(0, v)'} for v in self.values",
                  f"direction {d!r} builds pairs of the form {pat[0]} over {pat[1]}; expected "
                  f"{'(v, 0)' if d == 'x' else '(0, v)'} over self.values — a tilt along {d} reaches the propagator as a "
                  "tilt along the other axis or with the wrong magnitude", key_detail=f"dir-{d}")
    g = repo.method("abtem.core.axes", "TiltAxis", "tilt")
    rets = [r for r in walk_no_nested(g.node) if isinstance(r, ast.Return)]
    ctx.check(bool(rets) and all(r.value is not None and dotted(r.value) == "self.values" for r in rets), "R-AXISTILT",
              f"{g.qualname}:values", g.where, "TiltAxis.tilt returns the (x, y) pairs unchanged",
              "TiltAxis.tilt does not return self.values", key_detail="values")


def _keys_in(e: ast.AST) -> list[str]:
    return [n.value for n in ast.walk(e) if isinstance(n, ast.Constant) and isinstance(n.value, str)]


def _tilt_meta(ctx) -> None:
    repo = ctx.repo
    bt = repo.method("abtem.waves", "Waves", "base_tilt")
    rets = [r for r in walk_no_nested(bt.node) if isinstance(r, ast.Return) and isinstance(r.value, ast.Tuple)]
    ctx.require(len(rets) == 1 and len(rets[0].value.elts) == 2, f"{bt.qualname}: does not return a pair")
    kx, ky = (_keys_in(e) for e in rets[0].value.elts)
    ctx.check(kx == ["base_tilt_x"] and ky == ["base_tilt_y"], "R-TILTMETA", f"{bt.qualname}:order", bt.loc(rets[0]),
              "base_tilt = (metadata base_tilt_x, metadata base_tilt_y)",
              f"base_tilt is built from metadata keys {kx} and {ky}, not (base_tilt_x, base_tilt_y)", key_detail="order")
    # BeamTilt.metadata
    m = repo.method("abtem.tilt", "BeamTilt", "metadata")
    found = 0
    for d in ast.walk(m.node):
        if isinstance(d, ast.Dict):
            pairs = {k.value: v for k, v in zip(d.keys, d.values) if isinstance(k, ast.Constant)}
            if {"base_tilt_x", "base_tilt_y"} <= set(pairs) and not all(isinstance(v, ast.Constant) for v in pairs.values()):
                found += 1
                good = norm_text(pairs["base_tilt_x"]) in ("self.tilt[0]", "self._tilt[0]") and \
                    norm_text(pairs["base_tilt_y"]) in ("self.tilt[1]", "self._tilt[1]")
                ctx.check(good, "R-TILTMETA", f"{m.qualname}:components", m.loc(d),
                          "base_tilt_x = tilt[0], base_tilt_y = tilt[1]",
                          f"BeamTilt writes base_tilt_x = {norm_text(pairs['base_tilt_x'])}, base_tilt_y = "
                          f"{norm_text(pairs['base_tilt_y'])}", key_detail="components")
    ctx.require(found >= 1, f"{m.qualname}: metadata dictionary of a fixed tilt not found")
    # BeamTilt2D.metadata
    m2 = repo.method("abtem.tilt", "BeamTilt2D", "metadata")
    seen = set()
    for st in ast.walk(m2.node):
        if isinstance(st, ast.Assign) and len(st.targets) == 1 and isinstance(st.targets[0], ast.Subscript) and \
                isinstance(st.targets[0].slice, ast.Constant) and not isinstance(st.value, ast.Constant):
            key = st.targets[0].slice.value
            d = key.rsplit("_", 1)[-1]
            seen.add(d)
            ctx.check(dotted(st.value) in (f"self.tilt_{d}", f"self._tilt_{d}"), "R-TILTMETA",
                      f"{m2.qualname}:{key}", m2.loc(st), f"{key} = tilt_{d}",
                      f"BeamTilt2D writes {key} = {norm_text(st.value)}", key_detail=key)
    ctx.require(seen == {"x", "y"}, f"{m2.qualname}: assignments of base_tilt_x/base_tilt_y not found")
    # BeamTilt2D.ensemble_axes_metadata
    e2 = repo.method("abtem.tilt", "BeamTilt2D", "ensemble_axes_metadata")
    dirs = set()
    for c in ast.walk(e2.node):
        if isinstance(c, ast.Call) and call_name(c) == "AxisAlignedTiltAxis":
            d = kw(c, "direction")
            vals = kw(c, "values")
            ctx.require(isinstance(d, ast.Constant) and vals is not None, f"{e2.qualname}: AxisAlignedTiltAxis call shape")
            dirs.add(d.value)
            srcs = {dotted(n) for n in ast.walk(vals) if isinstance(n, ast.Attribute) and dotted(n) and
                    dotted(n).startswith("self.") and dotted(n).count(".") == 1}
            ctx.check(srcs <= {f"self.tilt_{d.value}", f"self._tilt_{d.value}"} and srcs, "R-TILTMETA",
                      f"{e2.qualname}:direction {d.value}", e2.loc(c),
                      f"axis with direction {d.value!r} carries the values of tilt_{d.value}",
                      f"the axis labelled direction {d.value!r} carries the values of {sorted(srcs)}",
                      key_detail=f"dir-{d.value}")
    ctx.require(dirs == {"x", "y"}, f"{e2.qualname}: axes for both directions not found")


# ---- added after the seeded change C39-seed2: the fixed (base) tilt is applied on every path
_inner_run_c39 = run


def run(ctx) -> None:  # noqa: F811
    import ast as _ast

    from ..cfg import CFG as _CFG
    from ..model import call_name as _cn, norm_text as _nt, walk_no_nested as _walk

    ctx.rule("R-BASETILT-ALWAYS", "FresnelPropagator._calculate_array applies the waves' fixed base tilt on every path to "
             "a return: the test on waves.base_tilt dominates every return of the function, so a wave that has both a "
             "scalar tilt component and a tilt axis (mixed per-axis tilt) keeps its scalar component")
    f = ctx.repo.method("abtem.multislice", "FresnelPropagator", "_calculate_array")
    cfg = _CFG(f.node)
    tests = [n for n in cfg.nodes if n.kind == "test" and isinstance(n.ast, _ast.If) and "base_tilt" in _nt(n.ast.test)
             and any(isinstance(c, _ast.Call) and _cn(c) == "_apply_tilt_to_fresnel_propagator_array"
                     for s in n.ast.body for c in _ast.walk(s))]
    rets = [n for n in cfg.nodes if n.kind == "stmt" and isinstance(n.ast, _ast.Return)]
    ctx.require(len(rets) >= 1, "_calculate_array: no return")
    if not tests:
        ctx.violation("R-BASETILT-ALWAYS", f"{f.qualname}:base-tilt", f.where,
                      "no `if waves.base_tilt ...: _apply_tilt_to_fresnel_propagator_array(...)` is left in "
                      "_calculate_array: a scalar beam tilt never reaches the propagator", key_detail="missing")
    for t in tests:
        tt = t.ast.test
        conj = tt.values if isinstance(tt, _ast.BoolOp) and isinstance(tt.op, _ast.And) else [tt]
        extra = [c for c in conj if "base_tilt" not in _nt(c)]
        ctx.check(not extra, "R-BASETILT-ALWAYS", f"{f.qualname}:base-tilt condition", f.loc(t.ast),
                  "the base tilt is applied whenever it is non-zero",
                  f"the base tilt is applied only when additionally `{' and '.join(_nt(c) for c in extra)}` holds: "
                  "otherwise a non-zero scalar tilt is ignored", key_detail="condition")
    for r in (rets if tests else []):
        ok = any(cfg.dominates(t.idx, r.idx) for t in tests)
        ctx.check(ok, "R-BASETILT-ALWAYS", f"{f.qualname}:return `{_nt(r.ast)[:30]}`", f.loc(r.ast),
                  "the base-tilt test dominates this return",
                  f"`{_nt(r.ast)[:40]}` can be reached without passing the base-tilt test: on that path (tilt axes "
                  "present) a non-zero scalar base tilt is ignored", key_detail="dominance")
    _inner_run_c39(ctx)


# ---- added after the seeded change C39-r3seed2: x / y components are not crossed when tilts accumulate
_inner_run_c39b = run


def run(ctx) -> None:  # noqa: F811
    from ..rules import xypair

    ctx.rule("R-XYPAIR", xypair.__doc__.split("\n\n", 1)[1] + "  Applied to every function of abtem/tilt.py and to the "
             "base-tilt handling of the propagator: the accumulated base tilt of the waves is what the propagator "
             "shifts by, component-wise")
    mod = ctx.repo.modules["abtem.tilt"]
    fs = list(mod.functions.values()) + [f for c in mod.classes.values() for defs in c.methods.values() for f in defs]
    n = sum(xypair.check_function(ctx, "R-XYPAIR", f) for f in fs)
    ctx.require(n >= 2, f"R-XYPAIR judged only {n} axis-tagged stores in abtem/tilt.py")
    _inner_run_c39b(ctx)


# ---- added after the mutation sweep: the kernel is a *product*, and the base tilt is applied when it is non-zero
_inner_run_c39c = run


# ---- exact treatment of omitted phase factors (seeded change C39-r6seed2) ---------------------------------------------
# A path of the kernel function on which the phase factor of one frequency axis does not multiply the propagator is a
# lateral shift by dz·tan(t) only if tan(t) = 0 for EVERY member of the tilt batch along that axis.  The helpers below
# read (a) which entries of the tilt array a phase factor uses (root parameter + chain of subscripts, evaluated over
# axis positions counted from the end of the array), (b) what the tests on the path say about the entries of the same
# array, as a propositional formula over the atoms "every entry of <selection> is zero", and decide by enumeration of
# the models of the path condition whether "every entry of component c is zero" follows.
_DEF = "⟦def⟧"
_FREQ = "⟦freq⟧"
_SHAPE_ATTRS = {"shape", "ndim", "dtype", "size"}
_VALUE_KEEPING = {"array", "asarray", "ascontiguousarray", "asanyarray", "copy", "astype", "abs", "absolute", "fabs",
                  "float", "float32", "float64", "squeeze"}
TILT_PARAM = "tilt"  # part of the signature: FresnelPropagator._calculate_array passes it by keyword


class _Binding:
    """`name = value` executed on this path: the expression, the environment it was evaluated in and the term the
    name was bound to (the binding is current as long as the name still holds that very term)."""
    __slots__ = ("value", "env", "poly")

    def __init__(self, value, env, poly):
        self.value, self.env, self.poly = value, env, poly


def _binding(env: dict, name: str):
    b = env.get(_DEF + name)
    if b is not None and env.get(name) is b.poly:
        return b
    return None


def _num_const(e):
    if isinstance(e, ast.Constant) and isinstance(e.value, (int, float)) and not isinstance(e.value, bool):
        return e.value
    if isinstance(e, ast.UnaryOp) and isinstance(e.op, (ast.USub, ast.UAdd)):
        v = _num_const(e.operand)
        return None if v is None else (-v if isinstance(e.op, ast.USub) else v)
    return None


def _view_of(e, env: dict):
    """(root parameter, chain of subscripts) when `e` is the tilt array as passed in, indexed / reshaped / copied and
    possibly scaled by a non-zero constant or taken by modulus (zero entries stay zero, the others non-zero)."""
    if isinstance(e, ast.Name):
        b = _binding(env, e.id)
        if b is not None:
            return _view_of(b.value, b.env)
        if e.id == TILT_PARAM and e.id not in env:
            return e.id, ()
        return None
    if isinstance(e, ast.Subscript):
        base = _view_of(e.value, env)
        if base is None:
            return None
        return base[0], base[1] + (tuple(_slice_items(e.slice)),)
    if isinstance(e, ast.Call):
        s = last_attr(e) or call_name(e)
        if s == "cast" and len(e.args) == 2:
            return _view_of(e.args[1], env)
        if s in _VALUE_KEEPING:
            if any(k.arg in ("axis", "out", "where") for k in e.keywords):
                return None
            v = _view_of(e.args[0], env) if e.args else None
            if v is None and isinstance(e.func, ast.Attribute):
                v = _view_of(e.func.value, env)
            if v is not None and s == "squeeze":
                return None  # drops axes: positions are not tracked through it
            return v
        return None
    if isinstance(e, ast.UnaryOp) and isinstance(e.op, (ast.USub, ast.UAdd)):
        return _view_of(e.operand, env)
    if isinstance(e, ast.BinOp) and isinstance(e.op, ast.Mult):
        for a, b in ((e.left, e.right), (e.right, e.left)):
            if _num_const(b) not in (None, 0):
                return _view_of(a, env)
    if isinstance(e, ast.BinOp) and isinstance(e.op, ast.Div) and _num_const(e.right) not in (None, 0):
        return _view_of(e.left, env)
    return None


def _collect(e, env: dict, want_tan: bool, out: list, seen: set) -> None:
    """views of the tilt array (want_tan False) / tan(...) calls with their environment (want_tan True) inside `e`,
    looking through the local names bound on this path."""
    if want_tan:
        if isinstance(e, ast.Call) and last_attr(e) == "tan" and len(e.args) == 1:
            out.append((e, env))
            return
    else:
        v = _view_of(e, env)
        if v is not None:
            out.append(v)
            return
    if isinstance(e, ast.Name):
        b = _binding(env, e.id)
        if b is not None and id(b) not in seen:
            seen.add(id(b))
            _collect(b.value, b.env, want_tan, out, seen)
        return
    if isinstance(e, ast.Attribute) and e.attr in _SHAPE_ATTRS:
        return
    if isinstance(e, ast.Call) and call_name(e) == "len":
        return
    for c in ast.iter_child_nodes(e):
        _collect(c, env, want_tan, out, seen)


def _mentions_tilt(e, env: dict) -> bool:
    out: list = []
    _collect(e, env, False, out, set())
    if out:
        return True
    for n in ast.walk(e):
        if isinstance(n, ast.Name) and n.id == TILT_PARAM and _binding(env, n.id) is None and n.id in env:
            return True  # the parameter name rebound by something that was not followed
    return False


def _int_const(e):
    v = _num_const(e)
    return v if isinstance(v, int) else None


def _select(chain, ndim):
    """Compose the subscripts of `chain` on an array with `ndim` axes (None: unknown).  Axes are named by their position
    counted from the end (negative) when ndim is known; with ndim unknown positions read from the front are >= 0, the
    unknown run of axes in between is ('rest', first, last).  -> (fixed {axis: index expr}, partially sliced axes,
    remaining axes in order, 'new' for inserted ones)."""
    free: list = [("rest", 0, -1)] if ndim is None else [k - ndim for k in range(ndim)]
    fixed: dict = {}
    partial: set = set()

    def take(front: bool):
        if not free:
            raise AnalysisError("a selection of the tilt array has more indices than the array has axes")
        i = 0 if front else -1
        a = free[i]
        if isinstance(a, tuple):
            _, s_, e_ = a
            free[i] = ("rest", s_ + 1, e_) if front else ("rest", s_, e_ - 1)
            return s_ if front else e_
        free.pop(i)
        return a

    for items in chain:
        ell = [i for i, e in enumerate(items) if _is_ellipsis(e)]
        if len(ell) > 1:
            raise AnalysisError("two ellipses in one selection of the tilt array")
        left = items[:ell[0]] if ell else items
        right = items[ell[0] + 1:] if ell else ()
        out_l: list = []
        out_r: list = []
        for seq, front, out in ((left, True, out_l), (tuple(reversed(right)), False, out_r)):
            for e in seq:
                if _is_none(e):
                    out.append("new")
                    continue
                a = take(front)
                if _is_full(e):
                    out.append(a)
                elif isinstance(e, ast.Slice):
                    out.append(a)
                    if a != "new":
                        partial.add(a)
                elif a != "new":
                    fixed[a] = e
        free[:] = out_l + free + list(reversed(out_r))
    return fixed, partial, free


def _infer_ndim(chain):
    """number of axes of the tilt array if the selection a phase factor makes names every axis of it (what is left
    over has to broadcast against the (1, x, y) frequency arrays together with the inserted axes)."""
    _, _, free = _select(chain, None)
    rest = [a for a in free if isinstance(a, tuple)]
    if len(rest) != 1:
        return None
    n = rest[0][1] - rest[0][2] - 1
    return n if n >= 1 else None


def _is_zero_scalar(e) -> bool:
    return _num_const(e) == 0


def _elem(e, env: dict):
    """element-wise truth of `e`: ('nz', view) true at the non-zero entries / ('z', view) true at the zero entries."""
    v = _view_of(e, env)
    if v is not None:
        return "nz", v
    if isinstance(e, ast.Name):
        b = _binding(env, e.id)
        return _elem(b.value, b.env) if b is not None else None
    if isinstance(e, ast.Compare) and len(e.ops) == 1 and isinstance(e.ops[0], (ast.Eq, ast.NotEq)):
        for a, b in ((e.left, e.comparators[0]), (e.comparators[0], e.left)):
            v = _view_of(a, env)
            if v is not None and _is_zero_scalar(b):
                return ("z" if isinstance(e.ops[0], ast.Eq) else "nz"), v
        return None
    flip = None
    if isinstance(e, ast.UnaryOp) and isinstance(e.op, ast.Invert):
        flip = _elem(e.operand, env)
    if isinstance(e, ast.Call) and last_attr(e) == "logical_not" and len(e.args) == 1:
        flip = _elem(e.args[0], env)
    if flip is not None:
        return ("z" if flip[0] == "nz" else "nz"), flip[1]
    return None


def _zero_fact(e, env: dict):
    """(kind, view, polarity, remark):  kind 'allz': `e` <=> (every entry of view is zero) == polarity;
    kind 'scalar': the same for a comparison of one entry (valid when the selection leaves no axis);
    kind 'weak': `e` reads the entries of view but is not equivalent to that statement (remark says what it tests)."""
    if isinstance(e, ast.Call):
        s = last_attr(e) or call_name(e)
        if s in ("any", "all", "count_nonzero") and not e.keywords and len(e.args) <= 1:
            operand = e.args[0] if e.args else (e.func.value if isinstance(e.func, ast.Attribute) else None)
            el = _elem(operand, env) if operand is not None else None
            if el is None:
                return None
            k, v = el
            if s == "count_nonzero":
                return ("allz", v, False, "") if k == "nz" else None
            if s == "any":
                return ("allz", v, False, "") if k == "nz" else \
                    ("weak", v, True, "is already true when ONE member of the batch has a zero entry (`any` where "
                                      "`all` is needed)")
            return ("allz", v, True, "") if k == "z" else \
                ("weak", v, True, "is true when every entry is NON-zero")
        return None
    if isinstance(e, ast.Compare) and len(e.ops) == 1:
        op, l, r = e.ops[0], e.left, e.comparators[0]
        for a, b, flipped in ((l, r, False), (r, l, True)):
            if not _is_zero_scalar(b):
                continue
            if isinstance(a, ast.Call) and (last_attr(a) or call_name(a)) == "count_nonzero":
                f = _zero_fact(a, env)  # count != 0
                if f is None:
                    return None
                if isinstance(op, ast.Eq):
                    return "allz", f[1], True, ""
                if isinstance(op, ast.NotEq) or (isinstance(op, ast.Gt) and not flipped) or \
                        (isinstance(op, ast.Lt) and flipped):
                    return "allz", f[1], False, ""
                return None
            v = _view_of(a, env)
            if v is not None and isinstance(op, (ast.Eq, ast.NotEq)):
                return "scalar", v, isinstance(op, ast.Eq), ""
        return None
    v = _view_of(e, env)
    if v is not None:
        return "scalar", v, False, ""  # truth value of one entry: non-zero
    return None


def _pin_ndim(e, env: dict, truth: bool):
    """number of axes of the tilt array as passed in, when the test `e` (with outcome `truth`) fixes it."""
    if isinstance(e, ast.UnaryOp) and isinstance(e.op, ast.Not):
        return _pin_ndim(e.operand, env, not truth)
    if isinstance(e, ast.BoolOp) and isinstance(e.op, ast.And if truth else ast.Or):
        for v in e.values:
            n = _pin_ndim(v, env, truth)
            if n is not None:
                return n
        return None
    if isinstance(e, ast.Name):
        b = _binding(env, e.id)
        return _pin_ndim(b.value, b.env, truth) if b is not None else None
    if isinstance(e, ast.Compare) and len(e.ops) == 1 and isinstance(e.ops[0], ast.Eq if truth else ast.NotEq):
        for a, b in ((e.left, e.comparators[0]), (e.comparators[0], e.left)):
            n = None
            if isinstance(a, ast.Attribute) and a.attr == "shape" and isinstance(b, ast.Tuple) and \
                    all(_int_const(x) is not None for x in b.elts):
                n, arr = len(b.elts), a.value
            elif isinstance(a, ast.Attribute) and a.attr == "ndim" and _int_const(b) is not None:
                n, arr = _int_const(b), a.value
            elif isinstance(a, ast.Call) and call_name(a) == "len" and len(a.args) == 1 and \
                    isinstance(a.args[0], ast.Attribute) and a.args[0].attr == "shape" and _int_const(b) is not None:
                n, arr = _int_const(b), a.args[0].value
            if n is not None and _view_of(arr, env) == (TILT_PARAM, ()):
                return n
    return None


def _eval_formula(f, m: dict) -> bool:
    k = f[0]
    if k == "const":
        return f[1]
    if k == "var":
        return m[f[1]]
    if k == "not":
        return not _eval_formula(f[1], m)
    if k == "and":
        return all(_eval_formula(x, m) for x in f[1])
    return any(_eval_formula(x, m) for x in f[1])


def _formula_vars(f, out: list) -> None:
    if f[0] == "var":
        if f[1] not in out:
            out.append(f[1])
    elif f[0] == "not":
        _formula_vars(f[1], out)
    elif f[0] in ("and", "or"):
        for x in f[1]:
            _formula_vars(x, out)


def _tilt_product_rule(ctx):
    """-> an AnalysisError of the omitted-factor analysis that is to be raised after the older rules ran, or None."""
    import ast as _ast
    import itertools
    import re

    from ..model import last_attr as _last
    from ..rules.symx import EnvNorm, SymExec
    from ..terms import Poly as _Poly

    tf = ctx.repo.function(MS, TILT_FN)
    ctx.require("array" in tf.params, f"{tf.qualname}: parameter `array` (the untilted propagator) not found")
    factors: dict[str, str] = {}
    ramp_views: dict[str, object] = {}  # ramp atom -> {frequency axis: [views]} | AnalysisError
    freq_re = re.compile(re.escape(_FREQ) + r"\)?(?:#|\[)(\d)")

    def ramp_axes(nz, arg, p) -> dict:
        terms = [_Poly({m: v}) for m, v in p.terms.items()]
        out: dict = {}
        tans: list = []
        if len(terms) > 1:
            _collect(arg, nz.env, True, tans, set())
        for t in terms:
            axes = {int(m.group(1)) for a in t.atoms() for m in freq_re.finditer(a)}
            if len(axes) != 1 or not axes <= {0, 1}:
                raise AnalysisError(f"{tf.qualname}: a term of the phase `{norm_text(arg)[:60]}` does not carry the "
                                    "spatial frequencies of exactly one axis")
            vs: list = []
            if len(terms) == 1:
                _collect(arg, nz.env, False, vs, set())
            else:
                for tc, tenv in tans:
                    if _bare(sx.normalizer(tenv).norm(tc).key()) in t.atoms():
                        _collect(tc, tenv, False, vs, set())
            if not vs:
                raise AnalysisError(f"{tf.qualname}: the entries of the tilt array used by the phase "
                                    f"`{norm_text(arg)[:60]}` were not found")
            out.setdefault(axes.pop(), []).extend(vs)
        return out

    def hook(nz, call):
        s = _last(call)
        if s == "spatial_frequencies":
            return _Poly.atom(_FREQ)
        if s == "complex_exponential" and len(call.args) == 1:
            p = nz.norm(call.args[0])
            k = p.key()
            name = factors.setdefault(k, f"⟦ramp{len(factors)}⟧")
            if name not in ramp_views:
                try:
                    ramp_views[name] = ramp_axes(nz, call.args[0], p)
                except AnalysisError as e:
                    ramp_views[name] = e
            return _Poly.atom(name)
        if s == "cast" and len(call.args) == 2:
            return nz.norm(call.args[1])
        return None

    class _ShapeFree(EnvNorm):
        """selection / reshaping of a batch element commutes with the element-wise product"""

        def norm(self, n):
            if isinstance(n, _ast.Subscript):
                items = _slice_items(n.slice)
                if all(_is_none(e) or _is_full(e) or _is_ellipsis(e) or (
                        isinstance(e, _ast.Constant) and isinstance(e.value, int)) for e in items):
                    base = self.norm(n.value)
                    if any(a.startswith("⟦ramp") or a == "array" for a in base.atoms()):
                        return base
            return super().norm(n)

    class _Exec(SymExec):
        def __init__(self, *a, **k):
            super().__init__(*a, **k)
            self.test_envs: dict = {}

        def normalizer(self, env):
            return _ShapeFree(env, self.trig, self.call_hook)

        def _block(self, body, env, conds, cont):
            if body and isinstance(body[0], _ast.If):
                self.test_envs[(id(body[0].test), tuple((id(t), b) for t, b in conds))] = env
            super()._block(body, env, conds, cont)

        def _simple(self, st, env):
            pre = dict(env)
            super()._simple(st, env)
            if isinstance(st, _ast.AnnAssign) and st.value is not None:
                st = _ast.Assign(targets=[st.target], value=st.value)
            if isinstance(st, _ast.Assign):
                for t in st.targets:
                    pairs = []
                    if isinstance(t, _ast.Name):
                        pairs = [(t, st.value)]
                    elif isinstance(t, (_ast.Tuple, _ast.List)) and isinstance(st.value, (_ast.Tuple, _ast.List)) and \
                            len(t.elts) == len(st.value.elts):
                        pairs = [(a, b) for a, b in zip(t.elts, st.value.elts) if isinstance(a, _ast.Name)]
                    for a, b in pairs:
                        if a.id in env:
                            env[_DEF + a.id] = _Binding(b, pre, env[a.id])

    sx = _Exec(tf.node, call_hook=hook)
    results = sx.run()
    ctx.require(bool(results) and not sx.fallthrough, f"{tf.qualname}: a path ends without returning the kernel")
    ctx.require(bool(factors), f"{tf.qualname}: no complex_exponential(...) phase factor recognised")

    # ------------------------------------------------------------ which factors are present on which path
    def ramps_of(v):
        if not v.is_monomial():
            return None
        (mono, _coef), = v.terms.items()
        return [a for a, _e in mono if a.startswith("⟦ramp")]

    def test_env(r, i):
        return sx.test_envs[(id(r.conds[i][0]), tuple((id(t), b) for t, b in r.conds[:i]))]

    pending: list = []
    skip_state: dict = {}  # id(result) -> set of axes whose omission is NOT justified (absent: not analysed)

    def analyse_skips() -> None:
        paths = []
        for r in results:
            rs = ramps_of(r.value) if r.value is not None else None
            if rs is None:
                continue
            for a in rs:
                if isinstance(ramp_views[a], AnalysisError):
                    raise ramp_views[a]
            pin = None
            for i, (t, taken) in enumerate(r.conds):
                n = _pin_ndim(t, test_env(r, i), taken)
                if n is not None:
                    pin = n
            paths.append((r, rs, pin))
        # the number of axes of the tilt array where no test fixes it: from the selections of the phase factors
        inferred = set()
        for r, rs, pin in paths:
            if pin is None:
                for a in rs:
                    for vs in ramp_views[a].values():
                        for _root, chain in vs:
                            n = _infer_ndim(chain)
                            if n is not None:
                                inferred.add(n)
        if len(inferred) > 1:
            raise AnalysisError(f"{tf.qualname}: the phase factors index the tilt array as if it had {sorted(inferred)} axes")
        default = next(iter(inferred)) if inferred else None
        if default is not None:
            ctx.assume(f"the tilt array handed to {TILT_FN} has the {default} axes its phase factors index (no further "
                       "axes)")

        def ndim_of(pin):
            n = pin if pin is not None else default
            if n is None:
                raise AnalysisError(f"{tf.qualname}: the number of axes of the tilt array is not determinable on a path")
            return n

        def comp_index(e):
            c = _int_const(e)
            if c is None:
                return None
            return c + 2 if c < 0 else c  # the component axis holds the pair (x, y)

        # reference: which entries of the tilt array the phase factor of each frequency axis reads
        ref: dict = {0: set(), 1: set()}
        for r, rs, pin in paths:
            n = ndim_of(pin)
            for a in rs:
                for ax, vs in ramp_views[a].items():
                    for _root, chain in vs:
                        fixed, partial, _free = _select(chain, n)
                        cs = [(k, comp_index(v)) for k, v in fixed.items()]
                        if len(cs) != 1 or cs[0][1] is None or partial:
                            raise AnalysisError(f"{tf.qualname}: the {'xy'[ax]} phase factor does not read one "
                                                "component of every member of the tilt array")
                        ref[ax].add(cs[0])
        for ax in (0, 1):
            if len(ref[ax]) > 1:
                raise AnalysisError(f"{tf.qualname}: the {'xy'[ax]} phase factors of different paths read different "
                                    f"entries of the tilt array {sorted(ref[ax])}")
        comp_axes = {k for ax in (0, 1) for k, _c in ref[ax]}
        if len(comp_axes) > 1:
            raise AnalysisError(f"{tf.qualname}: the x and y phase factors select the component on different axes of "
                                "the tilt array")

        reported: set = set()
        justified: dict = {0: 0, 1: 0}
        full_paths = 0
        for r, rs, pin in paths:
            present = {ax for a in rs for ax in ramp_views[a]}
            missing = sorted({0, 1} - present)
            if not missing:
                full_paths += 1
                skip_state[id(r)] = set()
                continue
            n = ndim_of(pin)
            # ---- the path condition as a propositional formula
            info: dict = {}  # var -> (kind, selection, remark, test text)

            def formula(e, env):
                if isinstance(e, _ast.UnaryOp) and isinstance(e.op, _ast.Not):
                    return "not", formula(e.operand, env)
                if isinstance(e, _ast.BoolOp):
                    return ("and" if isinstance(e.op, _ast.And) else "or"), [formula(v, env) for v in e.values]
                if isinstance(e, _ast.Constant):
                    return "const", bool(e.value)
                if isinstance(e, _ast.Call) and isinstance(e.func, _ast.Name) and e.func.id == "bool" and \
                        len(e.args) == 1 and not e.keywords:
                    return formula(e.args[0], env)  # truth value made explicit
                if isinstance(e, _ast.Name):
                    b = _binding(env, e.id)
                    if b is not None and _view_of(e, env) is None:
                        return formula(b.value, b.env)
                    pv = env.get(e.id)
                    if isinstance(pv, _Poly) and pv.is_const():
                        return "const", pv.const_value() != 0
                fact = _zero_fact(e, env)
                if fact is not None:
                    kind, (root, chain), pol, remark = fact
                    fixed, partial, free = _select(chain, n)
                    if kind == "scalar":
                        if any(a != "new" for a in free):
                            raise AnalysisError(f"{tf.qualname}: `{norm_text(e)[:60]}` compares more than one entry of "
                                                "the tilt array in a truth context")
                        kind = "allz"
                    sel = (tuple(sorted((k, norm_text(v)) for k, v in fixed.items())), tuple(sorted(partial)))
                    var = ("weak" if kind == "weak" else "allz", remark, root, sel)
                    info.setdefault(var, (kind, (fixed, partial), remark, norm_text(e)[:60]))
                    f = ("var", var)
                    return f if pol else ("not", f)
                if _mentions_tilt(e, env):
                    raise AnalysisError(f"{tf.qualname}: the test `{norm_text(e)[:60]}` on the tilt values, which decides "
                                        "whether a phase factor is applied, is not of a recognised form")
                return "var", ("opaque", sx.normalizer(env).norm(e).key())

            fs = [(formula(t, test_env(r, i)), taken) for i, (t, taken) in enumerate(r.conds)]
            vars_: list = []
            for f, _taken in fs:
                _formula_vars(f, vars_)
            if len(vars_) > 12:
                raise AnalysisError(f"{tf.qualname}: too many independent tests on one path")
            models = []
            for bits in itertools.product((True, False), repeat=len(vars_)):
                m = dict(zip(vars_, bits))
                if all(_eval_formula(f, m) == taken for f, taken in fs):
                    models.append(m)
            if not models:
                skip_state[id(r)] = "infeasible"  # contradictory tests: no input takes this path
                continue
            bad = set()
            for ax in missing:
                xy = "xy"[ax]
                construct = f"{tf.qualname}:{xy} phase factor omitted"
                if not ref[ax]:
                    bad.add(ax)
                    if ax not in reported:
                        reported.add(ax)
                        ctx.violation("R-TILTPRODUCT", construct, tf.loc(r.stmt),
                                      f"no phase factor over the {xy} frequencies multiplies the propagator on the path "
                                      f"to this return, and no path builds one: a tilt along {xy} never shifts the wave",
                                      key_detail=f"skip-{xy}")
                    continue
                (caxis, c), = ref[ax]

                def relation(sel):
                    fixed, partial = sel
                    others = {k: v for k, v in fixed.items() if k != caxis}
                    if others:
                        return "member", "only member " + ", ".join(f"`{norm_text(v)}`" for v in others.values()) + \
                            " of the batch axis (a constant index where the whole axis is needed)"
                    if partial - {caxis}:
                        return "member", "only a slice of the batch axis"
                    if caxis in partial:
                        raise AnalysisError(f"{tf.qualname}: a test reads a slice of the component axis of the tilt array")
                    if caxis in fixed:
                        cc = comp_index(fixed[caxis])
                        if cc is None:
                            raise AnalysisError(f"{tf.qualname}: a test reads a non-constant component of the tilt array")
                        if cc != c:
                            return "other", f"component {cc}, the one the {'xy'[1 - ax]} factor uses, not component {c}"
                    return "covers", ""

                def established(m) -> bool:
                    return any(k[0] == "allz" and m[k] and relation(info[k][1])[0] == "covers" for k in info)

                ok = all(established(m) for m in models)
                if ok:
                    justified[ax] += 1
                    continue
                bad.add(ax)
                if ax in reported:
                    continue
                reported.add(ax)
                why = []
                for k, (kind, sel, remark, text) in info.items():
                    rel, what = relation(sel)
                    if kind == "weak":
                        why.append(f"`{text}` {remark}")
                    elif rel != "covers":
                        why.append(f"`{text}` tests {what}")
                    else:
                        why.append(f"`{text}` covers the component, but the factor is left out on the arm where it does "
                                   "NOT say that every entry is zero (wrong polarity)")
                if not why:
                    why.append("no test on the path reads the tilt values")
                ctx.violation("R-TILTPRODUCT", construct, tf.loc(r.stmt),
                              f"on the path [{', '.join(('' if b else 'not ') + '`' + norm_text(t)[:40] + '`' for t, b in r.conds)}] "
                              f"the phase factor over the {xy} frequencies (tilt component {c}) does not multiply the "
                              f"propagator, and the path condition does not imply that component {c} of EVERY member of "
                              f"the tilt batch is zero: {'; '.join(why)}.  Members with a non-zero {xy} tilt are "
                              f"propagated without their shift dz·tan(t) along {xy}", key_detail=f"skip-{xy}")
            skip_state[id(r)] = bad
        for ax in (0, 1):
            if justified[ax]:
                ctx.ok("R-TILTPRODUCT", f"{tf.qualname}:{'xy'[ax]} phase factor omitted", tf.where,
                       f"{justified[ax]} path(s) without the {'xy'[ax]} factor: the path condition implies that this "
                       "component of every member of the batch is zero (the factor would be 1)")
        if full_paths:
            ctx.ok("R-TILTPRODUCT", f"{tf.qualname}:factors per path", tf.where,
                   f"{full_paths} path(s) carry a phase factor for both frequency axes; components read: "
                   f"x -> {sorted(ref[0])}, y -> {sorted(ref[1])} (axis from the end, index)")

    try:
        analyse_skips()
    except AnalysisError as e:
        pending.append(e)

    seen = set()
    for r in results:
        ctx.require(r.value is not None, f"{tf.qualname}: return without value")
        v = r.value
        key = v.key()
        if key in seen:
            continue
        seen.add(key)
        problems = []
        if not v.is_monomial():
            problems.append("the returned kernel is a sum, not a product of the propagator and the tilt phase factors")
        else:
            (mono, coef), = v.terms.items()
            exps = dict(mono)
            ramps = {a: e for a, e in exps.items() if a.startswith("⟦ramp")}
            other = [a for a in exps if a not in ramps and a != "array"]
            if other:
                raise AnalysisError(f"{tf.qualname}: unrecognised factor(s) {other[:3]} in the returned kernel")
            if coef != 1:
                problems.append(f"the product carries the constant factor {coef}")
            if exps.get("array") != 1:
                problems.append(f"the untilted propagator enters with exponent {exps.get('array', 0)} instead of 1 "
                                "(dividing by it inverts the propagation)")
            states = [skip_state.get(id(q), "not analysed") for q in results
                      if q.value is not None and q.value.key() == key]
            if not ramps and not all(st == "infeasible" or st == set() for st in states):
                problems.append("no tilt phase factor multiplies the propagator")
            bad = sorted(a for a, e in ramps.items() if e != 1)
            if bad:
                problems.append(f"{len(bad)} tilt phase factor(s) enter with an exponent other than +1 (a divided "
                                "unit-modulus ramp is its conjugate: the shift along that axis is reversed)")
        ctx.check(not problems, "R-TILTPRODUCT", f"{tf.qualname}:returned kernel", tf.loc(r.stmt),
                  "kernel = propagator × every tilt phase factor, each once (or justified omission)",
                  "; ".join(problems), key_detail="product")
    return pending[0] if pending else None


def _nonzero_truth(t, mentions) -> "bool | None":
    """Truth value of test `t` when the base tilt is non-zero (None: not decidable)."""
    import ast as _ast

    if isinstance(t, _ast.UnaryOp) and isinstance(t.op, _ast.Not):
        r = _nonzero_truth(t.operand, mentions)
        return None if r is None else not r
    if isinstance(t, _ast.Compare) and len(t.ops) == 1 and isinstance(t.ops[0], (_ast.Eq, _ast.NotEq)):
        a, b = t.left, t.comparators[0]
        for x, y in ((a, b), (b, a)):
            if mentions(x) and _is_zero_literal(y):
                return isinstance(t.ops[0], _ast.NotEq)
        return None
    if isinstance(t, _ast.Call) and last_attr(t) == "any" and len(t.args) == 1 and mentions(t.args[0]):
        inner = t.args[0]
        if isinstance(inner, (_ast.GeneratorExp, _ast.ListComp)):
            return _nonzero_truth(inner.elt, lambda e: True)
        return True
    if isinstance(t, _ast.BoolOp) and isinstance(t.op, _ast.And):
        rs = [_nonzero_truth(v, mentions) for v in t.values if mentions(v)]
        return rs[0] if len(rs) == 1 else None
    return None


def _is_zero_literal(e) -> bool:
    import ast as _ast

    if isinstance(e, _ast.Constant):
        return isinstance(e.value, (int, float)) and not isinstance(e.value, bool) and e.value == 0
    if isinstance(e, (_ast.Tuple, _ast.List)):
        return bool(e.elts) and all(_is_zero_literal(x) for x in e.elts)
    return False


def _base_tilt_polarity_rule(ctx) -> None:
    import ast as _ast

    from ..model import call_name as _cn

    f = ctx.repo.method(MS, "FresnelPropagator", "_calculate_array")
    wparam = f.positional_params[0]
    df = DataFlow(f.node)

    def is_apply(s):
        return any(isinstance(c, _ast.Call) and _cn(c) == TILT_FN for c in _ast.walk(s))

    n = 0
    for st in walk_no_nested(f.node):
        if not isinstance(st, _ast.If):
            continue
        at = df.cfg.node_of(st).idx

        def mentions(e, at=at):
            for x in _ast.walk(e):
                if isinstance(x, _ast.Attribute) and x.attr == "base_tilt" and dotted(x.value) == wparam:
                    return True
                if isinstance(x, _ast.Name):
                    d = df.single_def(at, x.id)
                    if d is not None and d.kind == "assign" and d.value is not None and any(
                            isinstance(y, _ast.Attribute) and y.attr == "base_tilt" and dotted(y.value) == wparam
                            for y in _ast.walk(d.value)):
                        return True
            return False

        if not mentions(st.test):
            continue
        in_body = any(is_apply(s) for s in st.body)
        in_else = any(is_apply(s) for s in st.orelse)
        if not (in_body or in_else):
            continue
        n += 1
        truth = _nonzero_truth(st.test, mentions)
        ctx.require(truth is not None and in_body != in_else,
                    f"{f.qualname}: the base-tilt test `{norm_text(st.test)[:60]}` is not of a recognised form")
        ctx.check(truth == in_body, "R-BASETILT-NONZERO", f"{f.qualname}:base-tilt arm", f.loc(st),
                  "the tilt kernel is applied on the arm taken when the base tilt is non-zero",
                  f"`{norm_text(st.test)[:60]}` sends a non-zero base tilt to the arm that does not apply "
                  f"{TILT_FN}: the scalar beam tilt is ignored (and a zero tilt is 'applied')", key_detail="polarity")
    if n == 0:
        # R-BASETILT-ALWAYS (below) reports the missing application as a violation
        ctx.info("R-BASETILT-NONZERO", f"{f.qualname}:base-tilt arm", f.where, "no conditional application of the base tilt")


def run(ctx) -> None:  # noqa: F811
    ctx.rule("R-TILTPRODUCT", "symbolic execution of _apply_tilt_to_fresnel_propagator_array: on every path the returned "
             "kernel is the incoming propagator times each tilt phase factor e^(i·ramp), every factor with exponent "
             "+1 (batch selection / reshaping commute with the product).  Tilted propagation = untilted propagation "
             "followed by the shift only if the ramps *multiply* the propagator: a divided ramp is its conjugate "
             "(shift reversed along that axis) and a divided propagator propagates backwards.  EVERY frequency axis "
             "needs its factor on every path: a path on which the factor of one axis is missing is accepted only if "
             "the path condition (tests followed through the local names bound on that path, decided by enumerating "
             "the models of the condition over the atoms 'every entry of <selection of the tilt array> is zero') "
             "implies that the tilt component this factor reads is zero for every member of the batch (then the "
             "factor is 1): a reduction over the whole component such as `not any(t[:, c])`, `all(t[:, c] == 0)`, "
             "`count_nonzero(t[:, c]) == 0`, or over the whole array.  Which axis of the tilt array is the batch "
             "axis and which index is the component is read from the selection the factors themselves make "
             "(`t[:, c, None, None]`: the constant index marks the component axis, counted from the end; the reshape "
             "of a single pair `t[None]` under `t.shape == (2,)` makes a batch of one).  A test on one member (constant "
             "index or slice along the batch axis), on the other component, with `any` where `all` is needed or on "
             "the wrong arm does not establish it: the members with a non-zero component lose their shift dz·tan(t) "
             "=> VIOLATION naming the factor and the test; a test on the tilt values of another form is an "
             "ANALYSIS-ERROR")
    ctx.rule("R-BASETILT-NONZERO", "in FresnelPropagator._calculate_array the arm of the base-tilt test that applies the "
             "tilt kernel is the arm taken when waves.base_tilt differs from zero (test evaluated for a non-zero "
             "tilt: `!= 0` true, `== 0` false, `not`, `any(...)`): otherwise every non-zero scalar tilt is dropped")
    pending = _tilt_product_rule(ctx)
    _base_tilt_polarity_rule(ctx)
    if pending is None:
        _inner_run_c39c(ctx)
    else:
        from ..rules import deferred

        def _raise():
            raise pending

        deferred.run(ctx, _raise, _inner_run_c39c)


# ---- added after the seeded change C39-r4seed2: the memoised kernel is the kernel of *these* waves
_inner_run_c39d = run

KERNEL_CACHE = "abtem.multislice.FresnelPropagator.get_array"


def run(ctx) -> None:  # noqa: F811
    from ..report import OnlyConstructs
    from ..rules import memo2

    ctx.rule("R-KERNELKEY", "FresnelPropagator.get_array keeps the last kernel and returns it again when its key "
             "compares equal.  Tilted propagation equals untilted propagation followed by the shift dz·tan(t) only if "
             "the kernel that is returned was computed for the tilts of the waves at hand, so the key has to determine "
             "everything the kernel computation (followed into _calculate_array and the helpers it calls) reads of "
             "the waves: each attribute it reads, and — because it visits waves.ensemble_axes_metadata element by "
             "element, gives the array one axis per element and multiplies in the phase ramps of the elements that "
             "carry a tilt — for every element which arm it takes and the tilt values it contributes.  The key must "
             "therefore hold the collection itself or an unfiltered element-by-element image of it that separates the "
             "arms and retains, on each arm, what the value reads there (the attribute itself, the whole element, or "
             "the fields a property is computed from), through lossless wrappers only: a key over the filtered "
             "sub-collection, a length, an identity, rounded values or a projection without the tilt values lets a "
             "propagator that is reused (the documented purpose of the `propagator` argument) return the kernel of an "
             "earlier tilt series — a stale kernel, whose shift is that of other angles.  (Rule R-CACHEKEY of "
             "sa/rules/memo2.py restricted to this cache.)")
    memo2.positive_control(ctx)
    stats: dict = {}
    n = memo2.check(OnlyConstructs(ctx, (KERNEL_CACHE,)), rule="R-KERNELKEY", modules={MS}, stats=stats)
    mine = {k: v for k, v in stats.items() if k.startswith(KERNEL_CACHE + ":")}
    ctx.require(n >= 1 and len(mine) == 1, f"{KERNEL_CACHE}: the key / kernel slot pair was not recognised")
    (st,) = mine.values()
    has_violation = any(i.verdict == "violation" and i.rule == "R-KERNELKEY" for i in ctx.instances)
    ctx.require(has_violation or st["uses"] >= 1,
                f"{KERNEL_CACHE}: the element-by-element use of the tilt axes by the kernel computation was not found "
                "(the cached value could not be followed into the loop over the ensemble axes)")
    _inner_run_c39d(ctx)
