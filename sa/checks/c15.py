"""C15 — Fourier interpolation and shifting obey their algebra (abtem/core/fft.py, abtem/waves.py).

  R-MIRROR  _fft_interpolation_masks_1d is invariant under {n1<->n2, mask1<->mask2}: the selection made in
            the small array when up-sampling is the selection made in the large array when down-sampling
            (necessary for up-then-down == identity), and the masks are returned in parameter order.
  R-TERM    'values' normalisation multiplies by new_size/old_size (old size taken before the transform, new
            size after the crop); 'amplitude'/'intensity' leave the array untouched; unknown names raise;
            fft_crop(normalize=True) uses the same ratio; fft_shift_kernel's phase is -2*pi*k_i*x_i in pixel
            units; fft_shift = ifft2(fft2(a) * kernel(positions, a.shape[-2:])).
  R-TWIN    Waves.downsample applies fft_interpolate to the same arguments lazily and eagerly.
"""
from __future__ import annotations

import ast
import re

from ..cfg import DataFlow
from ..model import AnalysisError, FuncInfo, call_name, dotted, last_attr, norm_text, walk_no_nested
from ..rules import twins
from ..rules.absint import NotConst, const_eval
from ..rules.alpha_equiv import mirror_check
from ..rules.versioned import CanonNormalizer
from ..terms import PI, Normalizer, Poly

FFT = "abtem.core.fft"
IDENT = {"np.expand_dims", "xp.expand_dims", "np.asarray", "xp.asarray", "np.array", "xp.array", "float", "int"}


def _k(p: Poly) -> str:
    k = p.key()
    return k[2:] if k.startswith("1*") and " + " not in k else k


def _stmt_of(func: ast.FunctionDef, target: ast.AST) -> ast.stmt:
    best = None
    for st in walk_no_nested(func):
        if isinstance(st, ast.stmt) and not isinstance(st, (ast.If, ast.For, ast.While, ast.With, ast.Try,
                                                            ast.FunctionDef)):
            if any(n is target for n in ast.walk(st)):
                best = st
    if best is None:
        raise AnalysisError(f"{func.name}: statement of `{norm_text(target)[:40]}` not found")
    return best


def run(ctx) -> None:
    repo = ctx.repo
    ctx.rule("R-MIRROR", "the guarded stores of _fft_interpolation_masks_1d form a multiset that is invariant under the "
             "renaming {n1<->n2, mask1<->mask2} (conditions in literal normal form, statement order and if/else "
             "orientation irrelevant); the masks are allocated with, and returned in, parameter order")
    ctx.rule("R-TERM", "normalisation 'values' multiplies by prod(new shape)/prod(old shape) with the old size read "
             "before and the new size after the transform, 'amplitude'/'intensity' do not touch the array and other "
             "names raise; fft_crop(normalize=True) uses the same ratio; the shift kernel of axis i is "
             "complex_exponential(-2*pi*k_i*x_i) with k from spatial_frequencies(shape, unit sampling); fft_shift "
             "multiplies fft2(array) by the kernel for array.shape[-2:] and transforms back")
    ctx.rule("R-TWIN", "Waves.downsample: the lazy (map_blocks) and eager arms apply fft_interpolate to the same "
             "array, new_shape and normalization (see sa/rules/twins.py)")
    ctx.undecided("the identities themselves (up-then-down == identity, mean / total-intensity preservation, "
                  "shift == roll, additivity of shifts) as numerical statements")
    ctx.undecided("that both arms of _fft_interpolation_masks_1d agree at n1 == n2 (both select everything)")

    _mirror(ctx, repo)
    _normalisation(ctx, repo)
    _crop(ctx, repo)
    _shift(ctx, repo)
    f = repo.method("abtem.waves", "Waves", "downsample")
    compared, _ = twins.check_function(ctx, f, "R-TWIN")
    ctx.require(compared >= 1, f"{f.qualname}: no lazy/eager twin of fft_interpolate found")
    # the user's normalization reaches fft_interpolate
    df = DataFlow(f.node)
    calls = [c for c in walk_no_nested(f.node) if isinstance(c, ast.Call) and (
        call_name(c) == "fft_interpolate" or (last_attr(c) == "map_blocks" and c.args and dotted(c.args[0]) == "fft_interpolate"))]
    for c in calls:
        kws = {k.arg: k.value for k in c.keywords if k.arg}
        st = _stmt_of(f.node, c)
        good = all(p in kws and df.backward_slice(df.cfg.node_of(st).idx, kws[p]).depends_on(q)
                   for p, q in (("normalization", "normalization"), ("new_shape", "gpts")))
        ctx.check(good, "R-TWIN", f"{f.qualname}:passes gpts/normalization [{'lazy' if last_attr(c) == 'map_blocks' else 'eager'}]",
                  f.loc(c), "new_shape and normalization come from the caller's gpts / normalization",
                  "fft_interpolate is not given the caller's gpts / normalization", key_detail="pass")


# ---------------------------------------------------------------------- R-MIRROR
def _mirror(ctx, repo) -> None:
    f = repo.function(FFT, "_fft_interpolation_masks_1d")
    p = f.positional_params
    ctx.require(len(p) == 2, f"{f.qualname}: expected two size parameters")
    rets = [n for n in walk_no_nested(f.node) if isinstance(n, ast.Return)]
    ctx.require(len(rets) == 1 and isinstance(rets[0].value, ast.Tuple) and len(rets[0].value.elts) == 2
                and all(isinstance(e, ast.Name) for e in rets[0].value.elts),
                f"{f.qualname}: expected `return mask_a, mask_b`")
    m = [e.id for e in rets[0].value.elts]
    mapping = {p[0]: p[1], p[1]: p[0], m[0]: m[1], m[1]: m[0]}
    ok, n, msg = mirror_check(f.node, mapping)
    ctx.require(n >= 6, f"{f.qualname}: only {n} guarded stores found")
    ctx.check(ok, "R-MIRROR", f"{f.qualname}:invariant under {p[0]}<->{p[1]}, {m[0]}<->{m[1]}", f.where,
              f"{n} guarded stores form a mirror-symmetric multiset",
              f"the two arms are not mirror images: {msg}. Up-sampling then down-sampling selects different Fourier "
              "components and does not return the original array", key_detail="mirror")
    # allocation / return order
    sizes = {}
    for st in f.body:
        if isinstance(st, ast.Assign) and isinstance(st.targets[0], ast.Name) and isinstance(st.value, ast.Call) \
                and last_attr(st.value) in ("zeros", "ones", "empty", "full") and st.value.args:
            sizes[st.targets[0].id] = dotted(st.value.args[0])
    ctx.require(set(m) <= set(sizes), f"{f.qualname}: mask allocations not found")
    ctx.check(sizes[m[0]] == p[0] and sizes[m[1]] == p[1], "R-MIRROR", f"{f.qualname}:return order", f.loc(rets[0]),
              f"returns ({m[0]} of size {p[0]}, {m[1]} of size {p[1]})",
              f"returns ({m[0]} of size {sizes[m[0]]}, {m[1]} of size {sizes[m[1]]}) for parameters ({p[0]}, {p[1]}): "
              "input and output masks are swapped", key_detail="order")
    # fft_interpolation_masks hands (shape_in, shape_out) components in that order
    g = repo.function(FFT, "fft_interpolation_masks")
    calls = [c for c in walk_no_nested(g.node) if isinstance(c, ast.Call) and call_name(c) == f.name]
    ctx.require(len(calls) == 1, f"{g.qualname}: expected one call of {f.name}")
    loops = [n for n in walk_no_nested(g.node) if isinstance(n, ast.For) and any(x is calls[0] for x in ast.walk(n))]
    ctx.require(len(loops) == 1, f"{g.qualname}: the 1d masks are not built in a loop over the axes")
    lp = loops[0]
    zips = [c for c in ast.walk(lp.iter) if isinstance(c, ast.Call) and call_name(c) == "zip"]
    tgt = lp.target.elts[-1] if isinstance(lp.target, ast.Tuple) and call_name(lp.iter) == "enumerate" else lp.target
    good = (len(zips) == 1 and [dotted(a) for a in zips[0].args] == g.positional_params[:2]
            and isinstance(tgt, ast.Tuple) and [dotted(a) for a in calls[0].args] == [dotted(e) for e in tgt.elts])
    ctx.check(good, "R-MIRROR", f"{g.qualname}:argument order", g.loc(calls[0]),
              "1d masks are requested for (input size, output size) per axis",
              "the per-axis sizes are not passed as (input size, output size)", key_detail="args")


# ---------------------------------------------------------------------- R-TERM: normalisation
def _select(stmts: list[ast.stmt], var: str, value: str):
    """Statements of the if-chain on `var` selected for var == value (list), or None if no chain."""
    for st in stmts:
        if isinstance(st, ast.If):
            try:
                t = const_eval(st.test, {var: value})
            except NotConst:
                continue
            cur = st
            while True:
                if t:
                    return cur.body
                if len(cur.orelse) == 1 and isinstance(cur.orelse[0], ast.If):
                    cur = cur.orelse[0]
                    try:
                        t = const_eval(cur.test, {var: value})
                    except NotConst:
                        raise AnalysisError(f"cannot evaluate `{norm_text(cur.test)}` for {var} == {value!r}")
                    continue
                return cur.orelse
    return None


def _size_class(atom: str, new_names: set[str], old_names: set[str]) -> str:
    if not atom.startswith("prod("):
        return "other"
    inner = atom[5:-1]
    ids = re.findall(r"([A-Za-z_]\w*)(@[\w|]+)?", inner)
    roots = [(n, v) for n, v in ids if n not in ("len", "shape", "L", "param")]
    for n, v in roots:
        if n in old_names and v in ("", "@param") and (n not in new_names or v == "@param"):
            return "old"
    for n, v in roots:
        if n in new_names and v != "@param":
            return "new"
    return "other"


_VALUE_WRAPPERS = {"astype", "asarray", "ascontiguousarray", "copy", "asanyarray"}


def _peel_cast(e: ast.AST):
    """name of the array a return expression hands back, through dtype casts / copies of it (their dtype is decided by
    R-RESULTDTYPE); None if it is something else"""
    for _ in range(6):
        if isinstance(e, ast.Name):
            return e.id
        if isinstance(e, ast.Call) and last_attr(e) in _VALUE_WRAPPERS and isinstance(e.func, ast.Attribute):
            recv = e.func.value
            if isinstance(recv, ast.Name) and recv.id in ("np", "xp", "cp", "numpy", "cupy") and e.args:
                e = e.args[0]
            else:
                e = recv
            continue
        return None
    return None


def _follow_alias(df: DataFlow, ret: ast.Return, name: str) -> str:
    """`result = array; return result` hands back `array`"""
    at = df.cfg.node_of(ret).idx
    for _ in range(6):
        d = df.single_def(at, name)
        if d is None or d.kind != "assign" or not isinstance(d.value, ast.Name):
            break
        name, at = d.value.id, d.node
    return name


def _ratio_check(ctx, f: FuncInfo, construct: str, where: str, M: Poly, new_names: set[str], old_names: set[str],
                 key: str) -> None:
    if len(M.terms) != 1:
        raise AnalysisError(f"{f.qualname}: normalisation factor {_k(M)[:80]} is not a product")
    (mono, coef), = M.terms.items()
    exps = {"new": 0, "old": 0}
    for a, e in mono:
        c = _size_class(a, new_names, old_names)
        if c == "other":
            raise AnalysisError(f"{f.qualname}: cannot classify the factor `{a}` of the normalisation")
        exps[c] += e
    good = coef == 1 and exps == {"new": 1, "old": -1}
    ctx.check(good, "R-TERM", construct, where, f"multiplies by {_k(M)} = new size / old size",
              f"the normalisation multiplies by {_k(M)} (new size ^{exps['new']}, old size ^{exps['old']}, constant "
              f"{coef}) instead of new size / old size: the mean of the array is not preserved", key_detail=key)


def _normalisation(ctx, repo) -> None:
    f = repo.function(FFT, "fft_interpolate")
    ctx.require("normalization" in f.params and "new_shape" in f.params, f"{f.qualname}: signature changed")
    arr = f.positional_params[0]
    df = DataFlow(f.node)
    rets = [n for n in walk_no_nested(f.node) if isinstance(n, ast.Return) and n.value is not None]
    ctx.require(len(rets) == 1 and _peel_cast(rets[0].value) is not None, f"{f.qualname}: expected `return <array>`")
    res = _follow_alias(df, rets[0], _peel_cast(rets[0].value))

    def updates(body):
        out = []
        for st in body:
            for n in ast.walk(st):
                if isinstance(n, ast.AugAssign) and dotted(n.target) == res:
                    out.append(n)
                elif isinstance(n, ast.Assign) and any(dotted(t) == res for t in n.targets):
                    out.append(n)
                elif isinstance(n, ast.AugAssign) and isinstance(n.target, ast.Subscript) and dotted(n.target.value) == res:
                    out.append(n)
                elif isinstance(n, ast.Assign) and any(isinstance(t, ast.Subscript) and dotted(t.value) == res
                                                       for t in n.targets):
                    out.append(n)
        return out

    for lit in ("values", "amplitude", "intensity", "no-such-normalization"):
        body = _select(f.body, "normalization", lit)
        ctx.require(body is not None, f"{f.qualname}: no dispatch on `normalization` found")
        construct = f"{f.qualname}:normalization={lit!r}"
        ups = updates(body)
        if lit == "values":
            ctx.require(len(ups) <= 1, f"{f.qualname}: several updates in the 'values' arm")
            if not ups:
                ctx.violation("R-TERM", construct, f.where, "the 'values' normalisation does not rescale the array: "
                              "the mean changes by new size / old size", key_detail="values")
                continue
            st = ups[0]
            node = df.cfg.node_of(st).idx
            nz = CanonNormalizer(df, node)
            if isinstance(st, ast.AugAssign):
                ctx.require(isinstance(st.op, (ast.Mult, ast.Div)), f"{f.qualname}: 'values' update is not a scaling")
                M = nz.norm(st.value)
                if isinstance(st.op, ast.Div):
                    M = M.inverse()
            else:
                cur = nz.norm(ast.Name(id=res, ctx=ast.Load()))
                M = nz.norm(st.value) * cur.inverse()
            # new size must be read after the crop: every definition of the array reaching here is downstream of it
            sl = df.backward_slice(node, ast.Name(id=res, ctx=ast.Load()))
            after_crop = any(isinstance(df.cfg.nodes[d].ast, ast.Assign) and any(
                isinstance(c, ast.Call) and last_attr(c) == "fft_crop" for c in ast.walk(df.cfg.nodes[d].ast))
                for d in sl.def_nodes)
            ctx.require(after_crop, f"{f.qualname}: the array being normalised does not come from fft_crop")
            _ratio_check(ctx, f, construct, f.loc(st), M, {res, "new_shape"}, {arr}, "values")
        elif lit in ("amplitude", "intensity"):
            raises = any(isinstance(s, ast.Raise) for s in body)
            what = "raises" if raises else (f"rescales the array (`{norm_text(ups[0])[:60]}`)" if ups else "")
            ctx.check(not ups and not raises, "R-TERM", construct, f.where, "array left untouched",
                      f"normalization={lit!r} {what} although it is documented to keep the transform's own "
                      "normalisation", key_detail=lit)
        else:
            ctx.check(any(isinstance(s, ast.Raise) for s in body), "R-TERM", construct, f.where,
                      "unknown normalisation raises", "an unknown normalisation name is silently accepted",
                      key_detail="unknown")


def _crop(ctx, repo) -> None:
    f = repo.function(FFT, "fft_crop")
    arr = f.positional_params[0]
    df = DataFlow(f.node)
    body = _select(f.body, "normalize", True)
    ctx.require(body is not None, f"{f.qualname}: no `if normalize:` found")
    ups = [n for st in body for n in ast.walk(st) if isinstance(n, (ast.Assign, ast.AugAssign))]
    ctx.require(len(ups) == 1, f"{f.qualname}: expected one rescaling statement under normalize")
    st = ups[0]
    node = df.cfg.node_of(st).idx
    nz = CanonNormalizer(df, node)
    tgt = st.targets[0] if isinstance(st, ast.Assign) else st.target
    ctx.require(isinstance(tgt, ast.Name), f"{f.qualname}: rescaling target is not a variable")
    if isinstance(st, ast.AugAssign):
        M = nz.norm(st.value) if isinstance(st.op, ast.Mult) else nz.norm(st.value).inverse()
    else:
        M = nz.norm(st.value) * nz.norm(ast.Name(id=tgt.id, ctx=ast.Load())).inverse()
    _ratio_check(ctx, f, f"{f.qualname}:normalize=True", f.loc(st), M, {tgt.id, "new_shape"}, {arr}, "crop")
    # the copy new[mask_out] = old[mask_in]
    mcalls = [s for s in f.body if isinstance(s, ast.Assign) and isinstance(s.value, ast.Call)
              and call_name(s.value) == "fft_interpolation_masks" and isinstance(s.targets[0], ast.Tuple)]
    ctx.require(len(mcalls) == 1, f"{f.qualname}: mask computation not found")
    m_in, m_out = (e.id for e in mcalls[0].targets[0].elts)
    a = mcalls[0].value.args
    stores = [s for s in f.body if isinstance(s, ast.Assign) and isinstance(s.targets[0], ast.Subscript)
              and isinstance(s.value, ast.Subscript)]
    ctx.require(len(stores) == 1, f"{f.qualname}: masked copy not found")
    s = stores[0]
    good = (dotted(s.targets[0].slice) == m_out and dotted(s.value.slice) == m_in and dotted(s.value.value) == arr
            and len(a) == 2 and (dotted(a[0]) or "").startswith(arr + ".shape") and dotted(a[1]) == "new_shape")
    ctx.check(good, "R-MIRROR", f"{f.qualname}:masked copy", f.loc(s),
              f"`{norm_text(s)}` with masks for ({arr}.shape, new_shape)",
              f"`{norm_text(s)}` does not copy {arr}[input mask] into new[output mask] with masks computed for "
              f"({arr}.shape, new_shape)", key_detail="copy")


# ---------------------------------------------------------------------- R-TERM: shift
def _shift(ctx, repo) -> None:
    f = repo.function(FFT, "fft_shift_kernel")
    pos, shape = f.positional_params[:2]
    df = DataFlow(f.node)
    ce = [c for c in walk_no_nested(f.node) if isinstance(c, ast.Call) and call_name(c) == "complex_exponential"]
    ctx.require(len(ce) == 1, f"{f.qualname}: expected one complex_exponential call")
    st = _stmt_of(f.node, ce[0])
    ctx.require(isinstance(st, ast.Assign) and isinstance(st.targets[0], ast.Subscript)
                and isinstance(st.targets[0].value, ast.Name) and isinstance(st.targets[0].slice, ast.Name),
                f"{f.qualname}: the axis kernel is not stored as k[i]")
    K, i = st.targets[0].value.id, st.targets[0].slice.id
    cnode = df.cfg.node_of(st)
    loops = [df.cfg.nodes[h].ast for h in cnode.loops]
    ctx.require(len(loops) == 1 and isinstance(loops[0], ast.For) and dotted(loops[0].target) == i,
                f"{f.qualname}: the axis kernel is not built in a loop over the axes")
    nz = CanonNormalizer(df, cnode.idx, identity_calls=IDENT)
    got = nz.norm(ce[0].args[0])
    want = nz.norm(ast.parse(f"-2 * np.pi * {K}[{i}] * {pos}[..., {i}]", mode="eval").body)
    ctx.check(got == want, "R-TERM", f"{f.qualname}:phase", f.loc(ce[0]), f"phase {_k(got)}",
              f"the phase of the shift kernel is {_k(got)}, not {_k(want)} = -2*pi*k_i*x_i: a shift by x is not a "
              "translation by +x pixels", key_detail="phase")
    # k comes from spatial_frequencies(shape, unit sampling)
    kdef = [s for s in f.body if isinstance(s, ast.Assign) and dotted(s.targets[0]) == K]
    ctx.require(len(kdef) == 1, f"{f.qualname}: definition of the frequency list not found")
    sf = [c for c in ast.walk(kdef[0].value) if isinstance(c, ast.Call) and call_name(c) == "spatial_frequencies"]
    ctx.require(len(sf) == 1 and len(sf[0].args) >= 2, f"{f.qualname}: frequencies do not come from spatial_frequencies")
    samp = sf[0].args[1]
    unit = None
    if isinstance(samp, ast.BinOp) and isinstance(samp.op, ast.Mult):
        tup = samp.left if isinstance(samp.left, ast.Tuple) else samp.right if isinstance(samp.right, ast.Tuple) else None
        if tup is not None and all(isinstance(e, ast.Constant) for e in tup.elts):
            unit = all(e.value == 1 for e in tup.elts)
    elif isinstance(samp, ast.Tuple) and all(isinstance(e, ast.Constant) for e in samp.elts):
        unit = all(e.value == 1 for e in samp.elts)
    ctx.require(unit is not None, f"{f.qualname}: cannot read the sampling passed to spatial_frequencies")
    ctx.check(unit and dotted(sf[0].args[0]) == shape, "R-TERM", f"{f.qualname}:pixel units", f.loc(sf[0]),
              "frequencies are those of the target shape in cycles per pixel",
              f"the frequencies are computed with `{norm_text(sf[0])}`: positions are no longer measured in pixels of "
              "the array being shifted", key_detail="units")
    # every axis contributes: array = k[0] * k[1] * ...
    rets = [n for n in walk_no_nested(f.node) if isinstance(n, ast.Return) and n.value is not None]
    ctx.require(len(rets) == 1, f"{f.qualname}: expected one return")
    sl = df.backward_slice(df.cfg.node_of(rets[0]).idx, rets[0].value)
    ctx.check(cnode.idx in sl.def_nodes, "R-TERM", f"{f.qualname}:result uses the axis kernels", f.loc(rets[0]),
              "returned kernel is built from the per-axis phase ramps",
              "the returned kernel does not depend on the per-axis phase ramps", key_detail="uses")

    # pure phase: after `K[i] = complex_exponential(...)` the kernels are only multiplied together; no statement
    # patches elements of a kernel or of the product (that would make |kernel| != 1 or break exp(a)exp(b) = exp(a+b))
    result_names = {n.id for n in ast.walk(rets[0].value) if isinstance(n, ast.Name)} & \
        {d.var for d in df.defs if d.kind != "param"}
    patched = []
    for stn in walk_no_nested(f.node):
        tg = stn.targets[0] if isinstance(stn, ast.Assign) else stn.target if isinstance(stn, ast.AugAssign) else None
        if tg is None or stn is st:
            continue
        depth, root = 0, tg
        while isinstance(root, ast.Subscript):
            root, depth = root.value, depth + 1
        if not isinstance(root, ast.Name):
            continue
        if root.id == K and depth >= 1:
            patched.append(stn)
        elif root.id in result_names and depth >= 1:
            patched.append(stn)
        elif root.id in result_names and isinstance(stn, ast.AugAssign) and not isinstance(stn.op, ast.Mult):
            patched.append(stn)
    ctx.check(not patched, "R-TERM", f"{f.qualname}:pure phase", f.loc(patched[0]) if patched else f.where,
              "the per-axis kernels are stored once (complex_exponential) and only multiplied afterwards",
              f"`{norm_text(patched[0])[:90]}` rewrites elements of the phase ramp after it was built: the kernel is no "
              "longer exp(-2*pi*i*k*x) for every frequency, so shifts do not compose additively and a shift followed "
              "by its inverse is not the identity" if patched else "", key_detail="pure-phase")

    g = repo.function(FFT, "fft_shift")
    a, p = g.positional_params[:2]
    rets = [n for n in walk_no_nested(g.node) if isinstance(n, ast.Return) and n.value is not None]
    ctx.require(len(rets) == 1, f"{g.qualname}: expected one return")
    dg = DataFlow(g.node)
    nzg = CanonNormalizer(dg, dg.cfg.node_of(rets[0]).idx)
    e = rets[0].value
    hops, at = 0, dg.cfg.node_of(rets[0]).idx
    while isinstance(e, ast.Name) and hops < 4:
        d = dg.single_def(at, e.id)
        ctx.require(d is not None and d.value is not None, f"{g.qualname}: result has no single definition")
        e, at, hops = d.value, d.node, hops + 1
    ctx.require(isinstance(e, ast.Call) and last_attr(e) == "ifft2" and e.args, f"{g.qualname}: result is not an ifft2")
    got = CanonNormalizer(dg, at).norm(e.args[0])
    want = CanonNormalizer(dg, at).norm(ast.parse(f"fft2({a}) * fft_shift_kernel({p}, {a}.shape[-2:])", mode="eval").body)
    ctx.check(got == want, "R-TERM", f"{g.qualname}:composition", g.loc(rets[0]), f"ifft2({_k(got)})",
              f"fft_shift computes ifft2({_k(got)}) instead of ifft2({_k(want)})", key_detail="compose")


# ---- added after the seeded change C15-r3seed7: the n-dimensional arm transforms the *trailing* axes
_inner_run_c15 = run


def run(ctx) -> None:  # noqa: F811
    ctx.rule("R-TRAILING", "fft_interpolate resamples the trailing len(new_shape) axes (fft_crop pads/crops those; the "
             "old size is read from array.shape[-len(new_shape):]): every value of the `axes` handed to fftn / ifftn "
             "is range(lo, hi) with hi == len(array.shape) and lo == len(array.shape) - len(new_shape) (lo == 0 only "
             "under the guard len(new_shape) == len(array.shape)), and fftn and ifftn get the same axes.  Leading axes "
             "would transform the ensemble dimensions and crop real-space samples as if they were coefficients")
    repo = ctx.repo
    f = repo.function(FFT, "fft_interpolate")
    arr, ns = f.positional_params[:2]
    df = DataFlow(f.node)
    nz = Normalizer()
    N = nz.norm(ast.parse(f"len({arr}.shape)", mode="eval").body)
    M = nz.norm(ast.parse(f"len({ns})", mode="eval").body)
    calls = [c for c in walk_no_nested(f.node) if isinstance(c, ast.Call) and call_name(c) in ("fftn", "ifftn")]
    if not calls:
        ctx.info("R-TRAILING", f"{f.qualname}:n-d arm", f.where, "no fftn/ifftn arm: only 2-d resampling")
        _inner_run_c15(ctx)
        return
    seen_axes = set()
    for c in calls:
        ax = next((k.value for k in c.keywords if k.arg == "axes"), None)
        ctx.require(ax is not None, f"{f.qualname}: {call_name(c)} called without axes=")
        st = _stmt_of(f.node, c)
        at = df.cfg.node_of(st).idx
        alts = []
        if isinstance(ax, ast.Name):
            for d in df.reaching(at, ax.id):
                ctx.require(d.kind == "assign" and d.value is not None, f"{f.qualname}: `{ax.id}` is not assigned")
                alts.append((d.value, d.node))
        else:
            alts.append((ax, at))
        seen_axes.add(norm_text(ax))
        for val, node in alts:
            v = val
            while isinstance(v, ast.Call) and call_name(v) in ("tuple", "list") and len(v.args) == 1:
                v = v.args[0]
            ctx.require(isinstance(v, ast.Call) and call_name(v) == "range" and 1 <= len(v.args) <= 2,
                        f"{f.qualname}: axes value `{norm_text(val)[:50]}` is not range(lo, hi)")
            lo = nz.norm(v.args[0]) if len(v.args) == 2 else Poly()
            hi = nz.norm(v.args[-1])
            # guard of this definition: len(new_shape) == len(array.shape) makes lo == 0 the trailing axes as well
            stn = df.cfg.nodes[node].ast
            same_len = False
            for i_ in walk_no_nested(f.node):
                if isinstance(i_, ast.If) and isinstance(i_.test, ast.Compare) and len(i_.test.ops) == 1:
                    l_, r_ = nz.norm(i_.test.left), nz.norm(i_.test.comparators[0])
                    if {l_.key(), r_.key()} == {N.key(), M.key()}:
                        in_body = any(x is stn for b in i_.body for x in ast.walk(b))
                        in_else = any(x is stn for b in i_.orelse for x in ast.walk(b))
                        if (isinstance(i_.test.ops[0], ast.Eq) and in_body) or (isinstance(i_.test.ops[0], ast.NotEq) and in_else):
                            same_len = True
            good = hi == N and (lo == N - M or (same_len and lo.is_zero()))
            if same_len and hi == M and lo.is_zero():
                good = True
            ctx.check(good, "R-TRAILING", f"{f.qualname}:{call_name(c)} axes", f.loc(val),
                      f"{call_name(c)} over range({_k(lo)}, {_k(hi)}): the trailing len({ns}) axes",
                      f"{call_name(c)} transforms axes range({_k(lo)}, {_k(hi)}); the resampled axes are the trailing ones, "
                      f"range(len({arr}.shape) - len({ns}), len({arr}.shape)): with ensemble dimensions in front the "
                      "transform runs over the wrong axes while fft_crop still crops the trailing ones",
                      key_detail="trailing")
    ctx.check(len(seen_axes) == 1, "R-TRAILING", f"{f.qualname}:fftn/ifftn same axes", f.where,
              "forward and inverse transform use the same axes", f"fftn and ifftn are given different axes {sorted(seen_axes)}",
              key_detail="same-axes")
    _inner_run_c15(ctx)


# ---- added after the mutation sweep (sweepH-b): which axes the sizes / transforms / phase ramps refer to
_inner_run_c15_sweep = run

_COMPLEX_DTYPES = {"complex", "complex64", "complex128", "complex256", "cfloat", "cdouble", "csingle"}
_REAL_DTYPES = {"float", "float16", "float32", "float64", "float128", "double", "single", "half", "int", "int32", "int64"}


def _strip_seq(e: ast.AST) -> ast.AST:
    while isinstance(e, ast.Call) and call_name(e) in ("tuple", "list") and len(e.args) == 1 and not e.keywords:
        e = e.args[0]
    return e


def _resolve_name(df: DataFlow, at: int, e: ast.AST, hops: int = 6):
    """Follow single strong plain assignments of a Name; returns (expr, node)."""
    while isinstance(e, ast.Name) and hops:
        d = df.single_def(at, e.id)
        if d is None or d.kind != "assign" or d.value is None:
            break
        stn = df.cfg.nodes[d.node].ast
        if not (isinstance(stn, ast.Assign) and len(stn.targets) == 1 and isinstance(stn.targets[0], ast.Name)):
            break
        e, at, hops = d.value, d.node, hops - 1
    return e, at


def _shape_slice(df: DataFlow, at: int, e: ast.AST, what: str):
    """`X.shape[lo:hi]` -> (X text, lo Poly|None, hi Poly|None, N Poly) with names inlined at `at`; None if `e` is not
    a slice of a shape."""
    from ..terms import FlowNormalizer
    e = _strip_seq(e)
    if not (isinstance(e, ast.Subscript) and isinstance(e.slice, ast.Slice) and isinstance(e.value, ast.Attribute)
            and e.value.attr == "shape" and dotted(e.value.value)):
        return None
    if e.slice.step is not None:
        raise AnalysisError(f"{what}: strided slice of a shape `{norm_text(e)[:50]}`")
    nz = FlowNormalizer(df, at)
    x = dotted(e.value.value)
    N = nz.norm(ast.parse(f"len({x}.shape)", mode="eval").body)
    lo = nz.norm(e.slice.lower) if e.slice.lower is not None else None
    hi = nz.norm(e.slice.upper) if e.slice.upper is not None else None
    alt = {a_: N for a_ in nz.norm(ast.parse(f"{x}.ndim", mode="eval").body).atoms()}
    sub = lambda p: p if p is None else p.subst(alt)  # noqa: E731
    return x, sub(lo), sub(hi), N


def _decidable(p, atoms: set[str]) -> bool:
    return p is None or (p.atoms() <= atoms and bool(p.atoms()))


def _guards_of(func: ast.FunctionDef, target: ast.AST) -> list[tuple[ast.If, bool]]:
    """Enclosing (If, in-body?) pairs of `target`, outermost first."""
    out: list[tuple[ast.If, bool]] = []

    def rec(stmts, acc) -> bool:
        for st in stmts:
            if isinstance(st, ast.If):
                if rec(st.body, acc + [(st, True)]) or rec(st.orelse, acc + [(st, False)]):
                    return True
            elif isinstance(st, (ast.For, ast.While, ast.With, ast.Try)):
                blocks = [getattr(st, a, []) for a in ("body", "orelse", "finalbody")]
                blocks += [h.body for h in getattr(st, "handlers", [])]
                if any(rec(b, acc) for b in blocks):
                    return True
            elif any(n is target for n in ast.walk(st)):
                out.extend(acc)
                return True
        return False

    if not rec(func.body, []):
        raise AnalysisError(f"{func.name}: `{norm_text(target)[:40]}` not found in the statement tree")
    return out


_CMP = {ast.Eq: lambda a, b: a == b, ast.NotEq: lambda a, b: a != b, ast.Lt: lambda a, b: a < b,
        ast.LtE: lambda a, b: a <= b, ast.Gt: lambda a, b: a > b, ast.GtE: lambda a, b: a >= b}


def _sizes(ctx, repo) -> None:
    """R-SIZEAXES"""
    from ..terms import FlowNormalizer
    f = repo.function(FFT, "fft_interpolate")
    arr, ns = f.positional_params[:2]
    df = DataFlow(f.node)
    body = _select(f.body, "normalization", "values")
    ctx.require(body is not None, f"{f.qualname}: no dispatch on `normalization` found")
    rets = [n for n in walk_no_nested(f.node) if isinstance(n, ast.Return) and n.value is not None]
    ctx.require(len(rets) == 1 and _peel_cast(rets[0].value) is not None, f"{f.qualname}: expected `return <array>`")
    res = _follow_alias(df, rets[0], _peel_cast(rets[0].value))
    ups = [n for st in body for n in ast.walk(st) if isinstance(n, (ast.Assign, ast.AugAssign))
           and dotted(n.targets[0] if isinstance(n, ast.Assign) else n.target) == res]
    if len(ups) != 1:
        return  # R-TERM reports a missing / ambiguous rescaling
    st = ups[0]
    # every prod(...) feeding the factor, through single definitions of the names it mentions
    prods: list[tuple[ast.Call, int]] = []
    seen: set[tuple[int, str]] = set()
    work = [(st.value, df.cfg.node_of(st).idx)]
    while work:
        e, at = work.pop()
        for n in ast.walk(e):
            if isinstance(n, ast.Call) and last_attr(n) == "prod" and len(n.args) == 1:
                prods.append((n, at))
            elif isinstance(n, ast.Name) and (at, n.id) not in seen and n.id != res:
                seen.add((at, n.id))
                d = df.single_def(at, n.id)
                if d is not None and d.kind == "assign" and d.value is not None:
                    work.append((d.value, d.node))
    ctx.require(len(prods) >= 2, f"{f.qualname}: the sizes of the 'values' normalisation are not prod(...) terms")
    for c, at in prods:
        a, at2 = _resolve_name(df, at, _strip_seq(c.args[0]))
        a = _strip_seq(a)
        which = "old" if not any(d.kind != "param" for d in df.reaching(at2, arr) if d.strong) else "new"
        construct = f"{f.qualname}:{which} size axes"
        if isinstance(a, ast.Name) and a.id == ns:
            ctx.require(all(d.kind == "param" for d in df.reaching(at2, ns)), f"{f.qualname}: `{ns}` is reassigned")
            ctx.ok("R-SIZEAXES", construct, f.loc(c), f"prod({ns}): the requested trailing shape")
            continue
        r = _shape_slice(df, at2, a, f.qualname)
        ctx.require(r is not None, f"{f.qualname}: cannot read the size `{norm_text(c)[:60]}`")
        x, lo, hi, N = r
        ctx.require(x == arr, f"{f.qualname}: size `{norm_text(c)[:60]}` is not taken from `{arr}`")
        M = FlowNormalizer(df, at2).norm(ast.parse(f"len({ns})", mode="eval").body)
        ctx.require(all(d.kind == "param" for d in df.reaching(at2, ns)), f"{f.qualname}: `{ns}` is reassigned")
        known = N.atoms() | M.atoms()
        lo = Poly() if lo is None else lo
        ctx.require((lo.is_zero() or _decidable(lo, known)) and _decidable(hi, known),
                    f"{f.qualname}: cannot relate the slice of `{norm_text(a)[:50]}` to len({ns}) / len({arr}.shape)")
        good = (lo == -M or lo == N - M) and (hi is None or hi == N)
        ctx.check(good, "R-SIZEAXES", construct, f.loc(c),
                  f"prod over {arr}.shape[{_k(lo)}:{'' if hi is None else _k(hi)}]: the trailing len({ns}) axes",
                  f"the {which} size is the product over {arr}.shape[{_k(lo)}:{'' if hi is None else _k(hi)}], not over the "
                  f"trailing len({ns}) axes that are resampled: the 'values' factor is not new size / old size of the "
                  "resampled axes and the mean is not preserved", key_detail="axes")

    # fft_crop: a short new_shape is completed by the *leading* axes of the array
    g = repo.function(FFT, "fft_crop")
    garr, gns = g.positional_params[:2]
    from ..model import bind_args
    for c in [c for c in walk_no_nested(f.node) if isinstance(c, ast.Call) and call_name(c) == "fft_crop"]:
        b = bind_args(c, g)
        at = df.cfg.node_of(_stmt_of(f.node, c)).idx
        ctx.require(garr in b and gns in b, f"{f.qualname}: cannot bind the arguments of `{norm_text(c)[:50]}`")
        p_ns, p_arr = df.backward_slice(at, b[gns]).params, df.backward_slice(at, b[garr]).params
        good = ns in p_ns and arr not in p_ns and arr in p_arr
        ctx.check(good, "R-SIZEAXES", f"{f.qualname}:fft_crop arguments", f.loc(c),
                  f"fft_crop({garr}=<transformed array>, {gns}={ns})",
                  f"`{norm_text(c)[:60]}` does not hand fft_crop the transformed array and `{ns}` in that order",
                  key_detail="crop-args")
    dg = DataFlow(g.node)
    comp = [s for s in walk_no_nested(g.node) if isinstance(s, ast.Assign) and dotted(s.targets[0]) == gns]
    ctx.require(len(comp) == 1 and isinstance(comp[0].value, ast.BinOp) and isinstance(comp[0].value.op, ast.Add),
                f"{g.qualname}: completion of a short new_shape by the batch axes not found")
    at = dg.cfg.node_of(comp[0]).idx
    left, right = _strip_seq(comp[0].value.left), _strip_seq(comp[0].value.right)
    ctx.require(isinstance(right, ast.Name) and right.id == gns, f"{g.qualname}: `{gns}` is not completed on the left")
    r = _shape_slice(dg, at, left, g.qualname)
    ctx.require(r is not None and r[0] == garr, f"{g.qualname}: batch prefix `{norm_text(left)[:50]}` is not a slice of "
                f"{garr}.shape")
    _, lo, hi, N = r
    M = FlowNormalizer(dg, at).norm(ast.parse(f"len({gns})", mode="eval").body)
    known = N.atoms() | M.atoms()
    ctx.require(hi is not None and _decidable(hi, known) and (lo is None or lo.is_zero()),
                f"{g.qualname}: cannot relate the batch prefix `{norm_text(left)[:50]}` to len({gns})")
    ctx.check(hi == -M or hi == N - M, "R-SIZEAXES", f"{g.qualname}:batch prefix", g.loc(comp[0]),
              f"new_shape is completed by {garr}.shape[:{_k(hi)}]: all axes but the trailing len({gns})",
              f"a short new_shape is completed by {garr}.shape[:{_k(hi)}] instead of the leading "
              f"len({garr}.shape) - len({gns}) axes: the cropped shape has the wrong rank / batch extents",
              key_detail="prefix")


def _covers(ctx, repo) -> None:
    """R-COVERS"""
    f = repo.function(FFT, "fft_interpolate")
    ns = f.positional_params[1]
    nz = Normalizer()
    M = nz.norm(ast.parse(f"len({ns})", mode="eval").body)
    two = [c for c in walk_no_nested(f.node) if isinstance(c, ast.Call) and call_name(c) in ("fft2", "ifft2")]
    nd = [c for c in walk_no_nested(f.node) if isinstance(c, ast.Call) and call_name(c) in ("fftn", "ifftn")]
    if not two:
        ctx.info("R-COVERS", f"{f.qualname}:2-d arm", f.where, "no fft2/ifft2 arm")
        return
    if not nd:
        ctx.info("R-COVERS", f"{f.qualname}:2-d arm", f.where, "only a 2-d transform: other ranks are not claimed")
        return
    for c in two:
        allowed = set(range(1, 7))
        for i_, in_body in _guards_of(f.node, c):
            t = i_.test
            if ns not in {n.id for n in ast.walk(t) if isinstance(n, ast.Name)}:
                continue
            ok_form = isinstance(t, ast.Compare) and len(t.ops) == 1 and type(t.ops[0]) in _CMP
            if ok_form:
                l_, r_ = nz.norm(t.left), nz.norm(t.comparators[0])
                if l_ == M and r_.const_value() is not None and r_.const_value().denominator == 1:
                    cval, fn = int(r_.const_value()), _CMP[type(t.ops[0])]
                    sat = {m for m in range(1, 7) if fn(m, cval)}
                elif r_ == M and l_.const_value() is not None and l_.const_value().denominator == 1:
                    cval, fn = int(l_.const_value()), _CMP[type(t.ops[0])]
                    sat = {m for m in range(1, 7) if fn(cval, m)}
                else:
                    ok_form = False
            if not ok_form:
                raise AnalysisError(f"{f.qualname}: cannot read the guard `{norm_text(t)[:60]}` of the {call_name(c)} arm")
            allowed &= sat if in_body else (set(range(1, 7)) - sat)
        ctx.check(allowed <= {1, 2}, "R-COVERS", f"{f.qualname}:{call_name(c)} arm", f.loc(c),
                  f"{call_name(c)} (last two axes) runs only for len({ns}) in {sorted(allowed)}",
                  f"{call_name(c)} transforms the last two axes but runs for len({ns}) in {sorted(allowed)}: fft_crop "
                  f"crops the trailing len({ns}) axes, so for len({ns}) > 2 an axis is cropped in real space",
                  key_detail="covers")


def _complex_cast(ctx, repo) -> None:
    """R-COMPLEXCAST"""
    f = repo.function(FFT, "fft_interpolate")
    arr = f.positional_params[0]
    casts = [c for c in walk_no_nested(f.node) if isinstance(c, ast.Call) and last_attr(c) == "astype"
             and isinstance(c.func, ast.Attribute) and dotted(c.func.value) == arr]
    casts = [c for c in casts if not _after_inverse(f, c)]  # casts of the result: R-RESULTDTYPE
    if not casts:
        ctx.info("R-COMPLEXCAST", f"{f.qualname}:cast", f.where, "the array is not cast before the transform")
        return
    for c in casts:
        ctx.require(len(c.args) >= 1, f"{f.qualname}: astype without a dtype")
        a = c.args[0]
        verdict = None
        if isinstance(a, ast.Call) and call_name(a) == "get_dtype":
            v = next((k.value for k in a.keywords if k.arg == "complex"), a.args[0] if a.args else None)
            if isinstance(v, ast.Constant) and isinstance(v.value, bool):
                verdict = v.value
        else:
            name = (dotted(a) or "").split(".")[-1] if not isinstance(a, ast.Constant) else str(a.value)
            verdict = True if name in _COMPLEX_DTYPES else False if name in _REAL_DTYPES else None
        ctx.require(verdict is not None, f"{f.qualname}: cannot read the dtype of `{norm_text(c)[:60]}`")
        ctx.check(verdict, "R-COMPLEXCAST", f"{f.qualname}:cast", f.loc(c), "the array is cast to a complex dtype",
                  f"`{norm_text(c)[:70]}` casts the array to a real dtype before the transform: the imaginary part of a "
                  "complex array (a wave function) is discarded, so up- then down-sampling does not return it",
                  key_detail="cast")


_INVERSE = {"ifft2", "ifftn", "ifft"}
_INT_DTYPES = {"int", "int8", "int16", "int32", "int64", "uint8", "uint16", "uint32", "uint64", "bool", "bool_", "intp"}


def _after_inverse(f: FuncInfo, call: ast.Call) -> bool:
    """can the inverse transform have run when `call` is evaluated?"""
    from ..cfg import CFG

    cfg = CFG(f.node)
    st = _stmt_of(f.node, call)
    tgt = cfg.node_of(st).idx
    starts = [n.idx for n in cfg.nodes if n.ast is not None and n.kind == "stmt" and any(
        isinstance(c, ast.Call) and (last_attr(c) or call_name(c) or "").split(".")[-1] in _INVERSE
        for c in walk_no_nested(n.ast))]
    seen, work = set(), [s_ for i in starts for s_ in cfg.nodes[i].succ]
    while work:
        i = work.pop()
        if i in seen:
            continue
        seen.add(i)
        work.extend(cfg.nodes[i].succ)
    return tgt in seen


def _dtype_sources(f: FuncInfo, df: DataFlow, e: ast.AST, at: int, depth: int = 0) -> set:
    if depth > 12:
        return {"unknown"}
    if isinstance(e, ast.Call) and call_name(e) == "get_dtype":
        return {"configured"}
    if isinstance(e, ast.Constant) and isinstance(e.value, str):
        nm = e.value
        return {"floating"} if nm in _COMPLEX_DTYPES | _REAL_DTYPES - _INT_DTYPES else {"integer"} if nm in _INT_DTYPES else {"unknown"}
    if isinstance(e, ast.Attribute) and e.attr == "dtype":
        root = e.value
        while isinstance(root, (ast.Attribute, ast.Call, ast.Subscript)):
            root = root.func if isinstance(root, ast.Call) else root.value
        if isinstance(root, ast.Name):
            out = set()
            work, seen = [(root.id, at)], set()
            while work:
                nm, where = work.pop()
                if (nm, where) in seen:
                    continue
                seen.add((nm, where))
                for d in df.reaching(where, nm):
                    if d.kind == "param":
                        out.add("input")
                    elif d.kind == "assign" and isinstance(d.value, ast.Name):
                        work.append((d.value.id, d.node))  # an alias of another array
                    else:
                        out.add("current")
            return out or {"unknown"}
        return {"unknown"}
    if isinstance(e, (ast.Attribute, ast.Name)) and dotted(e) and (isinstance(e, ast.Attribute) or not df.reaching(at, e.id)):
        nm = dotted(e).split(".")[-1]
        if nm in _INT_DTYPES:
            return {"integer"}
        if nm in _COMPLEX_DTYPES | _REAL_DTYPES:
            return {"floating"}
        return {"unknown"}
    if isinstance(e, ast.Name):
        out = set()
        for d in df.reaching(at, e.id):
            if d.kind == "assign" and d.value is not None:
                out |= _dtype_sources(f, df, d.value, d.node, depth + 1)
            else:
                out.add("unknown")
        return out or {"unknown"}
    if isinstance(e, ast.IfExp):
        return _dtype_sources(f, df, e.body, at, depth + 1) | _dtype_sources(f, df, e.orelse, at, depth + 1)
    return {"unknown"}


def _result_dtype(ctx, repo) -> None:
    """R-RESULTDTYPE"""
    f = repo.function(FFT, "fft_interpolate")
    df = DataFlow(f.node)
    n = 0
    for c in walk_no_nested(f.node):
        if not (isinstance(c, ast.Call) and isinstance(c.func, ast.Attribute)):
            continue
        dt = None
        if c.func.attr in ("astype", "view") and (c.args or any(k.arg == "dtype" for k in c.keywords)):
            dt = c.args[0] if c.args else next(k.value for k in c.keywords if k.arg == "dtype")
        elif c.func.attr in ("asarray", "array", "ascontiguousarray", "asanyarray"):
            dt = next((k.value for k in c.keywords if k.arg == "dtype"), c.args[1] if len(c.args) > 1 else None)
        if dt is None or not _after_inverse(f, c):
            continue
        at = df.cfg.node_of(_stmt_of(f.node, c)).idx
        src = _dtype_sources(f, df, dt, at)
        if "unknown" in src:
            raise AnalysisError(f"{f.qualname}: cannot tell where the dtype of `{norm_text(c)[:60]}` comes from")
        guarded = [t for t, _ in _guards_of(f.node, c) if "dtype" in norm_text(t.test) or "issubdtype" in norm_text(t.test)
                   or "iscomplex" in norm_text(t.test) or "isreal" in norm_text(t.test)]
        bad = sorted(src & {"input", "integer"})
        if bad and guarded:
            raise AnalysisError(f"{f.qualname}: `{norm_text(c)[:60]}` casts the result to an input-dependent dtype under "
                                "a test on the dtype; such guards are not modelled")
        n += 1
        ctx.check(not bad, "R-RESULTDTYPE", f"{f.qualname}:result cast", f.loc(c),
                  f"the interpolated result is cast to a {'/'.join(sorted(src))} floating dtype",
                  f"`{norm_text(c)[:70]}` casts the interpolated result to " + " / ".join(
                      {"input": "the dtype the input array came in", "integer": "an integer dtype"}[b] for b in bad) +
                  ": for integer (count, label, uint8) input the interpolated values are truncated (and wrap for "
                  "unsigned types), so the 'values' normalisation no longer preserves the mean and up- then "
                  "down-sampling does not return the array", key_detail="cast")
    if n == 0:
        ctx.ok("R-RESULTDTYPE", f"{f.qualname}:result cast", f.where,
               "the result keeps the floating dtype of the transform (no cast after the inverse transform)")


def _kernel_axes(ctx, repo) -> None:
    """R-ALLAXES and R-AXISPLACE"""
    from ..terms import FlowNormalizer
    f = repo.function(FFT, "fft_shift_kernel")
    pos, shape = f.positional_params[:2]
    df = DataFlow(f.node)
    ce = [c for c in walk_no_nested(f.node) if isinstance(c, ast.Call) and call_name(c) == "complex_exponential"]
    ctx.require(len(ce) == 1, f"{f.qualname}: expected one complex_exponential call")
    st = _stmt_of(f.node, ce[0])
    ctx.require(isinstance(st, ast.Assign) and isinstance(st.targets[0], ast.Subscript)
                and isinstance(st.targets[0].value, ast.Name) and isinstance(st.targets[0].slice, ast.Name),
                f"{f.qualname}: the axis kernel is not stored as k[i]")
    K, i = st.targets[0].value.id, st.targets[0].slice.id
    cnode = df.cfg.node_of(st)
    ctx.require(len(cnode.loops) == 1, f"{f.qualname}: the axis kernel is not built in one loop over the axes")
    build = df.cfg.nodes[cnode.loops[0]].ast
    ctx.require(isinstance(build, ast.For) and dotted(build.target) == i and isinstance(build.iter, ast.Call)
                and call_name(build.iter) == "range" and len(build.iter.args) == 1,
                f"{f.qualname}: the axis loop is not `for i in range(<dims>)`")
    hnode = cnode.loops[0]
    DIMS = FlowNormalizer(df, hnode).norm(build.iter.args[0])

    # ---- number of axes: the last axis of positions holds one component per shifted axis
    e, _ = _resolve_name(df, hnode, build.iter.args[0])
    verdict = None
    if isinstance(e, ast.Call) and call_name(e) == "len" and len(e.args) == 1 and dotted(e.args[0]) in (shape, K):
        verdict = True
    elif isinstance(e, ast.Subscript) and dotted(e.value) == f"{pos}.shape" and isinstance(e.slice, (ast.Constant, ast.UnaryOp)):
        sv = e.slice.value if isinstance(e.slice, ast.Constant) else (
            -e.slice.operand.value if isinstance(e.slice.op, ast.USub) and isinstance(e.slice.operand, ast.Constant) else None)
        verdict = None if not isinstance(sv, int) else sv == -1
    ctx.require(verdict is not None, f"{f.qualname}: cannot read the number of shifted axes `{norm_text(e)[:50]}`")
    ctx.check(verdict, "R-AXISPLACE", f"{f.qualname}:number of axes", f.loc(build),
              f"one phase ramp per entry of `{shape}` / per component in the last axis of `{pos}`",
              f"the number of phase ramps is `{norm_text(e)[:50]}`; the components of a position are along the LAST axis of "
              f"`{pos}` (one per entry of `{shape}`), the other axes enumerate positions", key_detail="dims")

    # ---- R-ALLAXES: the returned kernel is the product of every per-axis ramp, each exactly once
    rets = [n for n in walk_no_nested(f.node) if isinstance(n, ast.Return) and n.value is not None]
    ctx.require(len(rets) == 1 and isinstance(rets[0].value, ast.Name), f"{f.qualname}: expected `return <kernel>`")
    acc_e, _ = _resolve_name(df, df.cfg.node_of(rets[0]).idx, rets[0].value)
    ctx.require(isinstance(acc_e, ast.Name), f"{f.qualname}: the returned kernel is not an accumulated variable")
    acc = acc_e.id
    defs = [d for d in df.defs if d.var == acc and d.kind != "param"]
    inits = [d for d in defs if not df.cfg.nodes[d.node].loops]
    upds = [d for d in defs if df.cfg.nodes[d.node].loops]
    ctx.require(len(inits) == 1 and inits[0].kind == "assign" and len(upds) == 1,
                f"{f.qualname}: the kernel is not accumulated as `acc = ...; for j in range(..): acc = acc * k[j]`")
    nz0 = Normalizer()
    p0 = nz0.norm(inits[0].value)
    ctx.require(len(p0.terms) == 1 and next(iter(p0.terms.values())) == 1, f"{f.qualname}: initial kernel `{_k(p0)[:40]}` "
                "is not a product of axis kernels")
    have: list[int] = []
    known_atoms = {next(iter(nz0.norm(ast.parse(f"{K}[{c_}]", mode="eval").body).atoms())): c_ for c_ in range(16)}
    for a, ex in next(iter(p0.terms)):
        ctx.require(a in known_atoms and ex == 1, f"{f.qualname}: factor `{a}` of the initial kernel is not {K}[<int>]")
        have.append(known_atoms[a])
    un = df.cfg.nodes[upds[0].node]
    ust = un.ast
    ctx.require(len(un.loops) == 1, f"{f.qualname}: nested accumulation loop")
    loop = df.cfg.nodes[un.loops[0]].ast
    ctx.require(isinstance(loop, ast.For) and isinstance(loop.target, ast.Name) and isinstance(loop.iter, ast.Call)
                and call_name(loop.iter) == "range" and 1 <= len(loop.iter.args) <= 2,
                f"{f.qualname}: accumulation loop is not `for j in range(lo, hi)`")
    j = loop.target.id
    nzl = FlowNormalizer(df, un.loops[0])
    lo = nzl.norm(loop.iter.args[0]).const_value() if len(loop.iter.args) == 2 else 0
    hi = nzl.norm(loop.iter.args[-1])
    ctx.require(lo is not None and lo.denominator == 1 if not isinstance(lo, int) else True,
                f"{f.qualname}: accumulation loop does not start at a constant")
    lo = int(lo)
    nzu = Normalizer()
    if isinstance(ust, ast.AugAssign):
        ctx.require(isinstance(ust.op, (ast.Mult, ast.Div)), f"{f.qualname}: accumulation is not a product")
        F = nzu.norm(ust.value)
        if isinstance(ust.op, ast.Div):
            F = F.inverse()
    else:
        ctx.require(isinstance(ust, ast.Assign), f"{f.qualname}: accumulation statement not understood")
        F = nzu.norm(ust.value) * nzu.norm(ast.Name(id=acc, ctx=ast.Load())).inverse()
    want = nzu.norm(ast.parse(f"{K}[{j}]", mode="eval").body)
    ctx.require(F == want or F == want.inverse(), f"{f.qualname}: accumulation factor `{_k(F)[:50]}` is not {K}[{j}]")
    construct = f"{f.qualname}:product of the axis kernels"
    if F == want.inverse():
        ctx.violation("R-ALLAXES", construct, f.loc(ust), f"`{norm_text(ust)[:70]}` divides by the phase ramp of an axis: "
                      "that axis is shifted by -x instead of +x, so a whole-pixel shift is not the periodic roll",
                      key_detail="product")
    else:
        ctx.require(hi == DIMS, f"{f.qualname}: accumulation loop ends at `{_k(hi)}`, the axis loop at `{_k(DIMS)}`")
        good = sorted(have) == list(range(lo))
        ctx.check(good, "R-ALLAXES", construct, f.loc(ust),
                  f"{K}{sorted(have)} times {K}[j] for j in range({lo}, dims): every axis once",
                  f"the kernel starts from the ramps of axes {sorted(have)} and multiplies those of range({lo}, dims): "
                  f"axes {sorted(set(range(lo)) - set(have))} are missing / {sorted(x for x in set(have) if x >= lo or have.count(x) > 1)} "
                  "enter twice, so the shift along an axis is dropped or doubled", key_detail="product")

    # ---- R-AXISPLACE: where the frequency axis and the position axes go
    exps: list[tuple[ast.Call, int]] = []
    seen: set[tuple[int, str]] = set()
    work = [(ce[0].args[0], cnode.idx)]
    while work:
        e, at = work.pop()
        for n in ast.walk(e):
            if isinstance(n, ast.Call) and last_attr(n) == "expand_dims":
                exps.append((n, at))
            elif isinstance(n, ast.Name) and (at, n.id) not in seen:
                seen.add((at, n.id))
                d = df.single_def(at, n.id)
                if d is not None and d.kind == "assign" and d.value is not None and d.node in df.cfg.loop_body_nodes(hnode):
                    work.append((d.value, d.node))

    def root(e):
        while isinstance(e, ast.Subscript):
            e = e.value
        return e.id if isinstance(e, ast.Name) else None

    fr = [(c, at) for c, at in exps if c.args and root(c.args[0]) == K]
    ps = [(c, at) for c, at in exps if c.args and root(c.args[0]) == pos]
    ctx.require(len(fr) == 1 and len(ps) == 1 and len(exps) == 2,
                f"{f.qualname}: expected one expand_dims of the frequencies and one of the positions")

    def axes_arg(c):
        a = c.args[1] if len(c.args) > 1 else next((k.value for k in c.keywords if k.arg == "axis"), None)
        ctx.require(a is not None, f"{f.qualname}: expand_dims without axes")
        return a

    def segments(e, at):
        """-> (list of (lo, hi) Poly pairs, removed index Polys)"""
        e = _strip_seq(e)
        nz = FlowNormalizer(df, at)
        if isinstance(e, ast.Call) and call_name(e) == "range" and 1 <= len(e.args) <= 2:
            return [(nz.norm(e.args[0]) if len(e.args) == 2 else Poly(), nz.norm(e.args[-1]))], []
        if isinstance(e, ast.BinOp) and isinstance(e.op, ast.Add):
            l, lr = segments(e.left, at)
            r, rr = segments(e.right, at)
            ctx.require(not lr and not rr, f"{f.qualname}: deletion inside a concatenation")
            return l + r, []
        if isinstance(e, ast.Name):
            rd = df.reaching(at, e.id)
            strong = [d for d in rd if d.strong]
            weak = [d for d in rd if not d.strong]
            ctx.require(len(strong) == 1 and strong[0].kind == "assign" and strong[0].value is not None,
                        f"{f.qualname}: axes list `{e.id}` has no single definition")
            segs, rem = segments(strong[0].value, strong[0].node)
            for d in weak:
                dst = df.cfg.nodes[d.node].ast
                ctx.require(isinstance(dst, ast.Delete) and len(dst.targets) == 1 and isinstance(dst.targets[0], ast.Subscript)
                            and dotted(dst.targets[0].value) == e.id and not isinstance(dst.targets[0].slice, ast.Slice),
                            f"{f.qualname}: axes list `{e.id}` is modified by `{norm_text(dst)[:50]}`")
                rem = rem + [FlowNormalizer(df, d.node).norm(dst.targets[0].slice)]
            return segs, rem
        raise AnalysisError(f"{f.qualname}: cannot read the axes `{norm_text(e)[:60]}`")

    def contiguous(segs):
        lo, hi = segs[0]
        for a, b in segs[1:]:
            if a != hi:
                return None
            hi = b
        return lo, hi

    nzc = FlowNormalizer(df, cnode.idx)
    NBs = [nzc.norm(ast.parse(t.format(p=pos), mode="eval").body) for t in ("len({p}.shape) - 1", "{p}.ndim - 1")]
    I = Poly.atom(i)
    # frequencies
    c, at = fr[0]
    ctx.require(isinstance(c.args[0], ast.Subscript) and dotted(c.args[0].slice) == i and dotted(c.args[0].value) == K,
                f"{f.qualname}: the expanded frequency vector is not {K}[{i}]")
    segs, rem = segments(axes_arg(c), at)
    span = contiguous(segs)
    good = span is not None and span[0].is_zero() and len(rem) == 1 and any(
        span[1] == NB + DIMS and span[0] + rem[0] == NB + I for NB in NBs)
    desc = "+".join(f"range({_k(a)}, {_k(b)})" for a, b in segs) + "".join(f" without element #{_k(r)}" for r in rem)
    ctx.check(good, "R-AXISPLACE", f"{f.qualname}:frequency axis", f.loc(c),
              f"frequencies of axis i lie along axis (len({pos}.shape) - 1) + i of the kernel",
              f"the frequencies of axis i are expanded over axes {desc}: their own axis is not (number of leading axes of "
              f"`{pos}`) + i in a kernel of len({pos}.shape) - 1 + dims axes, so the ramp of axis i varies along the wrong "
              "axis of the array for batched positions", key_detail="freq")
    # positions
    c, at = ps[0]
    a0 = c.args[0]
    ctx.require(isinstance(a0, ast.Subscript) and dotted(a0.value) == pos and isinstance(a0.slice, ast.Tuple)
                and len(a0.slice.elts) == 2 and isinstance(a0.slice.elts[0], ast.Constant)
                and a0.slice.elts[0].value is Ellipsis and not isinstance(a0.slice.elts[1], ast.Slice),
                f"{f.qualname}: the expanded positions are not one component {pos}[..., <i>]")  # which one: R-TERM phase
    segs, rem = segments(axes_arg(c), at)
    span = contiguous(segs)
    good = span is not None and not rem and any(span[0] == NB and span[1] == NB + DIMS for NB in NBs)
    desc = "+".join(f"range({_k(a)}, {_k(b)})" for a, b in segs)
    ctx.check(good, "R-AXISPLACE", f"{f.qualname}:position axes", f.loc(c),
              f"component i of the positions keeps its leading axes and gets the dims array axes appended",
              f"component i of the positions is expanded over axes {desc} instead of the dims axes following its own "
              f"len({pos}.shape) - 1 leading axes: positions and frequencies no longer broadcast to "
              "(positions..., array axes...)", key_detail="pos")


def _extent(ctx, repo) -> None:
    """R-EXTENT"""
    from ..terms import FlowNormalizer
    f = repo.method("abtem.waves", "Waves", "downsample")
    df = DataFlow(f.node)
    calls = [c for c in walk_no_nested(f.node) if isinstance(c, ast.Call) and call_name(c) == "fft_interpolate"]
    ctx.require(calls, f"{f.qualname}: eager fft_interpolate call not found")
    G = next((k.value for k in calls[0].keywords if k.arg == "new_shape"), calls[0].args[1] if len(calls[0].args) > 1 else None)
    ctx.require(G is not None and dotted(G), f"{f.qualname}: new_shape of fft_interpolate not found")
    stores = [s for s in walk_no_nested(f.node) if isinstance(s, ast.Assign) and isinstance(s.targets[0], ast.Subscript)
              and isinstance(s.targets[0].slice, ast.Constant) and s.targets[0].slice.value == "sampling"]
    ctx.require(len(stores) == 1, f"{f.qualname}: the sampling of the downsampled waves is not stored as [...]['sampling']")
    s = stores[0]
    at = df.cfg.node_of(s).idx
    v, at = _resolve_name(df, at, s.value)
    ctx.require(isinstance(v, (ast.Tuple, ast.List)) and len(v.elts) == 2, f"{f.qualname}: new sampling is not a pair")
    nz = FlowNormalizer(df, at)
    bases = []
    for jx, e in enumerate(v.elts):
        g = nz.norm(ast.parse(f"{dotted(G)}[{jx}]", mode="eval").body)
        q = nz.norm(e) * g
        construct = f"{f.qualname}:new sampling[{jx}]"
        m_ = None
        if len(q.terms) == 1:
            (mono, coef), = q.terms.items()
            if coef == 1 and len(mono) == 1 and mono[0][1] == 1:
                m_ = re.fullmatch(r"(.+)\[(-?\d+)\]", mono[0][0])
        if m_ is None:
            ctx.require(all(re.fullmatch(r".+\[-?\d+\]", a_) for a_ in q.atoms()) and q.atoms(),
                        f"{f.qualname}: cannot read the new sampling component `{norm_text(e)[:60]}`")
            ctx.violation("R-EXTENT", construct, f.loc(e), f"sampling[{jx}] * new gpts[{jx}] = {_k(q)[:80]} is not one "
                          f"component of the extent: the downsampled wave does not span the extent of the original",
                          key_detail="extent")
            continue
        bases.append(m_.group(1))
        ctx.check(int(m_.group(2)) == jx, "R-EXTENT", construct, f.loc(e),
                  f"sampling[{jx}] * new gpts[{jx}] == {m_.group(1)}[{jx}]",
                  f"sampling[{jx}] * new gpts[{jx}] == {m_.group(0)}: the extent component of the other axis", key_detail="extent")
    if len(bases) == 2:
        ctx.check(bases[0] == bases[1], "R-EXTENT", f"{f.qualname}:new sampling same extent", f.loc(s),
                  "both components divide the same extent pair", f"the components divide different pairs {bases}",
                  key_detail="same")


def run(ctx) -> None:  # noqa: F811
    ctx.rule("R-SIZEAXES", "fft_interpolate: every size entering the 'values' factor is prod(new_shape) or the product "
             "over array.shape[-len(new_shape):] (equivalently [len(array.shape) - len(new_shape):]) — the axes that "
             "are resampled; fft_crop completes a short new_shape with the leading len(array.shape) - len(new_shape) "
             "axes.  A product over other axes makes the factor differ from new size / old size, so the mean is not "
             "preserved")
    ctx.rule("R-COVERS", "fft_interpolate: the fft2/ifft2 arm (last two axes) is reached only when len(new_shape) <= 2; "
             "fft_crop crops the trailing len(new_shape) axes, all of which must have been transformed")
    ctx.rule("R-COMPLEXCAST", "fft_interpolate: a cast of the array before the transform is to a complex dtype (a real "
             "dtype drops the imaginary part of a wave function)")
    ctx.rule("R-ALLAXES", "fft_shift_kernel: the returned kernel is the product of the phase ramps of ALL axes, each "
             "exactly once and none inverted (init factors k[c] plus the accumulation loop range cover range(dims) "
             "without overlap): a missing / doubled / inverted factor shifts an axis by 0, 2x or -x")
    ctx.rule("R-AXISPLACE", "fft_shift_kernel: with nb = len(positions.shape) - 1 leading position axes, the frequency "
             "vector of axis i is expanded to nb + dims axes with its own axis at nb + i, component i of the positions "
             "gets the dims axes nb..nb+dims-1 appended, and dims is the length of the last axis of positions / of "
             "shape (symbolic evaluation of the range / concatenation / del expressions that build the axes)")
    ctx.rule("R-EXTENT", "Waves.downsample: new sampling[i] * new gpts[i] is component i of one extent pair — the "
             "downsampled wave spans the same extent, i.e. describes the same band-limited function")
    _sizes(ctx, ctx.repo)
    _covers(ctx, ctx.repo)
    _complex_cast(ctx, ctx.repo)
    _kernel_axes(ctx, ctx.repo)
    _extent(ctx, ctx.repo)
    _inner_run_c15_sweep(ctx)


# ---- added after the seeded change C15-r4seed0: the interpolated result stays floating
_inner_run_c15_r4 = run


def run(ctx) -> None:  # noqa: F811
    ctx.rule("R-RESULTDTYPE", "fft_interpolate: no cast applied after the inverse transform takes its dtype from the "
             "input array (`<input>.dtype` read while the name is still bound to the parameter, followed through "
             "reaching definitions) or from an integer type: the function accepts integer-valued arrays and the "
             "interpolant is not integer, so such a cast truncates; casts to get_dtype(...) / floating literals / the "
             "dtype of the transformed array are fine")
    _result_dtype(ctx, ctx.repo)
    _inner_run_c15_r4(ctx)


# ---- added after the seeded change C15-r8seed4: a shift reduced modulo the array size uses each axis' own length
_inner_run_c15_r8 = run


def _shape_axes(e: ast.AST):
    """`<x>.shape[<constant slice>]` (through asarray/array/tuple/float wrappers) -> (x text, axes counted from the end)"""
    for _ in range(6):
        if isinstance(e, ast.Call) and last_attr(e) in ("asarray", "array", "tuple", "list") and e.args:
            e = e.args[0]
            continue
        break
    if not (isinstance(e, ast.Subscript) and isinstance(e.value, ast.Attribute) and e.value.attr == "shape"):
        return None
    s = e.slice
    rank = 6
    axes = list(range(-rank, 0))
    def lit(p):
        return None if p is None else ast.literal_eval(p)

    try:
        if isinstance(s, ast.Slice):
            sel = axes[slice(lit(s.lower), lit(s.upper), lit(s.step))]
        else:
            sel = [axes[lit(s)]]
    except (ValueError, TypeError, IndexError, SyntaxError):
        return None
    if any(a < -3 for a in sel):
        return None  # depends on the rank: not a selection counted from the end
    return norm_text(e.value.value), sel


def _shift_periods(ctx, repo) -> int:
    f = repo.function(FFT, "fft_shift")
    df = DataFlow(f.node)
    calls = [c for c in walk_no_nested(f.node) if isinstance(c, ast.Call) and call_name(c) == "fft_shift_kernel"]
    ctx.require(len(calls) == 1 and len(calls[0].args) >= 2, f"{f.qualname}: fft_shift_kernel(positions, shape) not found")
    call = calls[0]
    at = df.cfg.node_of(_stmt_of(f.node, call)).idx
    want = _shape_axes(call.args[1])
    ctx.require(want is not None, f"{f.qualname}: the shape handed to fft_shift_kernel is not a trailing slice of a shape")
    # every reduction `% P` on the way from the positions parameter to the kernel
    mods, seen, work = [], set(), [(call.args[0], at)]
    while work:
        e, node = work.pop()
        for n in ast.walk(e):
            if isinstance(n, ast.BinOp) and isinstance(n.op, ast.Mod):
                mods.append((n, node))
            if isinstance(n, ast.Call) and (last_attr(n) or call_name(n) or "") in ("mod", "remainder", "fmod") and len(n.args) == 2:
                mods.append((ast.BinOp(left=n.args[0], op=ast.Mod(), right=n.args[1]), node))
            if isinstance(n, ast.Name) and (n.id, node) not in seen:
                seen.add((n.id, node))
                for d in df.reaching(node, n.id):
                    if d.kind == "assign" and d.value is not None:
                        work.append((d.value, d.node))
    n_inst = 0
    for m, node in mods:
        per = m.right
        for _ in range(6):
            if isinstance(per, ast.Name):
                d = df.single_def(node, per.id)
                if d is None or d.kind != "assign" or d.value is None:
                    break
                per, node = d.value, d.node
                continue
            break
        got = _shape_axes(per)
        if got is None:
            raise AnalysisError(f"{f.qualname}: the shift is reduced modulo `{norm_text(m.right)[:40]}`, which is not a "
                                "trailing slice of a shape")
        n_inst += 1
        ctx.check(got == want, "R-SHIFTPERIOD", f"{f.qualname}:period of the shift", f.loc(call),
                  f"the shift is reduced modulo {got[0]}.shape over axes {got[1]}, the axes the kernel is built for",
                  f"the shift is reduced modulo the lengths of axes {got[1]} of {got[0]} but the kernel is built for axes "
                  f"{want[1]} of {want[0]}: component k of the shift is wrapped with the length of another axis, so for a "
                  "non-square array a whole-pixel shift is no longer the periodic roll and shifts do not compose",
                  key_detail="period")
    if not n_inst:
        ctx.ok("R-SHIFTPERIOD", f"{f.qualname}:period of the shift", f.loc(call),
               "the positions reach the kernel without a reduction modulo the array size")
    return max(n_inst, 1)


def run(ctx) -> None:  # noqa: F811
    ctx.rule("R-SHIFTPERIOD", "fft_shift: if the shift vector is reduced modulo the array size on its way to "
             "fft_shift_kernel (found through reaching definitions), the period vector selects the same trailing axes, "
             "in the same order, as the shape the kernel is built for (constant slices of `.shape` are evaluated on a "
             "symbolic axis list): component k of the shift belongs to axis k")
    pending = None
    try:
        _shift_periods(ctx, ctx.repo)
    except AnalysisError as e:
        pending = e
    _inner_run_c15_r8(ctx)
    if pending is not None:
        raise pending
