"""C15 — Fourier interpolation and shifting obey their algebra (abtem/core/fft.py, abtem/waves.py).

  R-MIRROR  _fft_interpolation_masks_1d is invariant under {n1<->n2, mask1<->mask2}: the selection made in
            the small array when up-sampling is the selection made in the large array when down-sampling
            (necessary for up-then-down == identity), and the masks are returned in parameter order.
  R-TERM    'values' normalisation multiplies by new_size/old_size (old size taken before the transform, new
            size after the crop); 'amplitude'/'intensity' leave the array untouched; unknown names raise;
            fft_crop(normalize=True) uses the same ratio; fft_shift_kernel's phase is -2*pi*k_i*x_i in pixel
            units; fft_shift = ifft2(fft2(a) * kernel(positions, a.shape[-2:])).
  R-TWIN    Waves.downsample applies fft_interpolate to the same arguments lazily and eagerly.
"""
from __future__ import annotations

import ast
import re

from ..cfg import DataFlow
from ..model import AnalysisError, FuncInfo, call_name, dotted, last_attr, norm_text, walk_no_nested
from ..rules import twins
from ..rules.absint import NotConst, const_eval
from ..rules.alpha_equiv import mirror_check
from ..rules.versioned import CanonNormalizer
from ..terms import PI, Normalizer, Poly

FFT = "abtem.core.fft"
IDENT = {"np.expand_dims", "xp.expand_dims", "np.asarray", "xp.asarray", "np.array", "xp.array", "float", "int"}


def _k(p: Poly) -> str:
    k = p.key()
    return k[2:] if k.startswith("1*") and " + " not in k else k


def _stmt_of(func: ast.FunctionDef, target: ast.AST) -> ast.stmt:
    best = None
    for st in walk_no_nested(func):
        if isinstance(st, ast.stmt) and not isinstance(st, (ast.If, ast.For, ast.While, ast.With, ast.Try,
                                                            ast.FunctionDef)):
            if any(n is target for n in ast.walk(st)):
                best = st
    if best is None:
        raise AnalysisError(f"{func.name}: statement of `{norm_text(target)[:40]}` not found")
    return best


def run(ctx) -> None:
    repo = ctx.repo
    ctx.rule("R-MIRROR", "the guarded stores of _fft_interpolation_masks_1d form a multiset that is invariant under the "
             "renaming {n1<->n2, mask1<->mask2} (conditions in literal normal form, statement order and if/else "
             "orientation irrelevant); the masks are allocated with, and returned in, parameter order")
    ctx.rule("R-TERM", "normalisation 'values' multiplies by prod(new shape)/prod(old shape) with the old size read "
             "before and the new size after the transform, 'amplitude'/'intensity' do not touch the array and other "
             "names raise; fft_crop(normalize=True) uses the same ratio; the shift kernel of axis i is "
             "complex_exponential(-2*pi*k_i*x_i) with k from spatial_frequencies(shape, unit sampling); fft_shift "
             "multiplies fft2(array) by the kernel for array.shape[-2:] and transforms back")
    ctx.rule("R-TWIN", "Waves.downsample: the lazy (map_blocks) and eager arms apply fft_interpolate to the same "
             "array, new_shape and normalization (see sa/rules/twins.py)")
    ctx.undecided("the identities themselves (up-then-down == identity, mean / total-intensity preservation, "
                  "shift == roll, additivity of shifts) as numerical statements")
    ctx.undecided("that both arms of _fft_interpolation_masks_1d agree at n1 == n2 (both select everything)")

    _mirror(ctx, repo)
    _normalisation(ctx, repo)
    _crop(ctx, repo)
    _shift(ctx, repo)
    f = repo.method("abtem.waves", "Waves", "downsample")
    compared, _ = twins.check_function(ctx, f, "R-TWIN")
    ctx.require(compared >= 1, f"{f.qualname}: no lazy/eager twin of fft_interpolate found")
    # the user's normalization reaches fft_interpolate
    df = DataFlow(f.node)
    calls = [c for c in walk_no_nested(f.node) if isinstance(c, ast.Call) and (
        call_name(c) == "fft_interpolate" or (last_attr(c) == "map_blocks" and c.args and dotted(c.args[0]) == "fft_interpolate"))]
    for c in calls:
        kws = {k.arg: k.value for k in c.keywords if k.arg}
        st = _stmt_of(f.node, c)
        good = all(p in kws and df.backward_slice(df.cfg.node_of(st).idx, kws[p]).depends_on(q)
                   for p, q in (("normalization", "normalization"), ("new_shape", "gpts")))
        ctx.check(good, "R-TWIN", f"{f.qualname}:passes gpts/normalization [{'lazy' if last_attr(c) == 'map_blocks' else 'eager'}]",
                  f.loc(c), "new_shape and normalization come from the caller's gpts / normalization",
                  "fft_interpolate is not given the caller's gpts / normalization", key_detail="pass")


# ---------------------------------------------------------------------- R-MIRROR
def _mirror(ctx, repo) -> None:
    f = repo.function(FFT, "_fft_interpolation_masks_1d")
    p = f.positional_params
    ctx.require(len(p) == 2, f"{f.qualname}: expected two size parameters")
    rets = [n for n in walk_no_nested(f.node) if isinstance(n, ast.Return)]
    ctx.require(len(rets) == 1 and isinstance(rets[0].value, ast.Tuple) and len(rets[0].value.elts) == 2
                and all(isinstance(e, ast.Name) for e in rets[0].value.elts),
                f"{f.qualname}: expected `return mask_a, mask_b`")
    m = [e.id for e in rets[0].value.elts]
    mapping = {p[0]: p[1], p[1]: p[0], m[0]: m[1], m[1]: m[0]}
    ok, n, msg = mirror_check(f.node, mapping)
    ctx.require(n >= 6, f"{f.qualname}: only {n} guarded stores found")
    ctx.check(ok, "R-MIRROR", f"{f.qualname}:invariant under {p[0]}<->{p[1]}, {m[0]}<->{m[1]}", f.where,
              f"{n} guarded stores form a mirror-symmetric multiset",
              f"the two arms are not mirror images: {msg}. Up-sampling then down-sampling selects different Fourier "
              "components and does not return the original array", key_detail="mirror")
    # allocation / return order
    sizes = {}
    for st in f.body:
        if isinstance(st, ast.Assign) and isinstance(st.targets[0], ast.Name) and isinstance(st.value, ast.Call) \
                and last_attr(st.value) in ("zeros", "ones", "empty", "full") and st.value.args:
            sizes[st.targets[0].id] = dotted(st.value.args[0])
    ctx.require(set(m) <= set(sizes), f"{f.qualname}: mask allocations not found")
    ctx.check(sizes[m[0]] == p[0] and sizes[m[1]] == p[1], "R-MIRROR", f"{f.qualname}:return order", f.loc(rets[0]),
              f"returns ({m[0]} of size {p[0]}, {m[1]} of size {p[1]})",
              f"returns ({m[0]} of size {sizes[m[0]]}, {m[1]} of size {sizes[m[1]]}) for parameters ({p[0]}, {p[1]}): "
              "input and output masks are swapped", key_detail="order")
    # fft_interpolation_masks hands (shape_in, shape_out) components in that order
    g = repo.function(FFT, "fft_interpolation_masks")
    calls = [c for c in walk_no_nested(g.node) if isinstance(c, ast.Call) and call_name(c) == f.name]
    ctx.require(len(calls) == 1, f"{g.qualname}: expected one call of {f.name}")
    loops = [n for n in walk_no_nested(g.node) if isinstance(n, ast.For) and any(x is calls[0] for x in ast.walk(n))]
    ctx.require(len(loops) == 1, f"{g.qualname}: the 1d masks are not built in a loop over the axes")
    lp = loops[0]
    zips = [c for c in ast.walk(lp.iter) if isinstance(c, ast.Call) and call_name(c) == "zip"]
    tgt = lp.target.elts[-1] if isinstance(lp.target, ast.Tuple) and call_name(lp.iter) == "enumerate" else lp.target
    good = (len(zips) == 1 and [dotted(a) for a in zips[0].args] == g.positional_params[:2]
            and isinstance(tgt, ast.Tuple) and [dotted(a) for a in calls[0].args] == [dotted(e) for e in tgt.elts])
    ctx.check(good, "R-MIRROR", f"{g.qualname}:argument order", g.loc(calls[0]),
              "1d masks are requested for (input size, output size) per axis",
              "the per-axis sizes are not passed as (input size, output size)", key_detail="args")


# ---------------------------------------------------------------------- R-TERM: normalisation
def _select(stmts: list[ast.stmt], var: str, value: str):
    """Statements of the if-chain on `var` selected for var == value (list), or None if no chain."""
    for st in stmts:
        if isinstance(st, ast.If):
            try:
                t = const_eval(st.test, {var: value})
            except NotConst:
                continue
            cur = st
            while True:
                if t:
                    return cur.body
                if len(cur.orelse) == 1 and isinstance(cur.orelse[0], ast.If):
                    cur = cur.orelse[0]
                    try:
                        t = const_eval(cur.test, {var: value})
                    except NotConst:
                        raise AnalysisError(f"cannot evaluate `{norm_text(cur.test)}` for {var} == {value!r}")
                    continue
                return cur.orelse
    return None


def _size_class(atom: str, new_names: set[str], old_names: set[str]) -> str:
    if not atom.startswith("prod("):
        return "other"
    inner = atom[5:-1]
    ids = re.findall(r"([A-Za-z_]\w*)(@[\w|]+)?", inner)
    roots = [(n, v) for n, v in ids if n not in ("len", "shape", "L", "param")]
    for n, v in roots:
        if n in old_names and v in ("", "@param") and (n not in new_names or v == "@param"):
            return "old"
    for n, v in roots:
        if n in new_names and v != "@param":
            return "new"
    return "other"


def _ratio_check(ctx, f: FuncInfo, construct: str, where: str, M: Poly, new_names: set[str], old_names: set[str],
                 key: str) -> None:
    if len(M.terms) != 1:
        raise AnalysisError(f"{f.qualname}: normalisation factor {_k(M)[:80]} is not a product")
    (mono, coef), = M.terms.items()
    exps = {"new": 0, "old": 0}
    for a, e in mono:
        c = _size_class(a, new_names, old_names)
        if c == "other":
            raise AnalysisError(f"{f.qualname}: cannot classify the factor `{a}` of the normalisation")
        exps[c] += e
    good = coef == 1 and exps == {"new": 1, "old": -1}
    ctx.check(good, "R-TERM", construct, where, f"multiplies by {_k(M)} = new size / old size",
              f"the normalisation multiplies by {_k(M)} (new size ^{exps['new']}, old size ^{exps['old']}, constant "
              f"{coef}) instead of new size / old size: the mean of the array is not preserved", key_detail=key)


def _normalisation(ctx, repo) -> None:
    f = repo.function(FFT, "fft_interpolate")
    ctx.require("normalization" in f.params and "new_shape" in f.params, f"{f.qualname}: signature changed")
    arr = f.positional_params[0]
    df = DataFlow(f.node)
    rets = [n for n in walk_no_nested(f.node) if isinstance(n, ast.Return) and n.value is not None]
    ctx.require(len(rets) == 1 and isinstance(rets[0].value, ast.Name), f"{f.qualname}: expected `return <array>`")
    res = rets[0].value.id

    def updates(body):
        out = []
        for st in body:
            for n in ast.walk(st):
                if isinstance(n, ast.AugAssign) and dotted(n.target) == res:
                    out.append(n)
                elif isinstance(n, ast.Assign) and any(dotted(t) == res for t in n.targets):
                    out.append(n)
                elif isinstance(n, ast.AugAssign) and isinstance(n.target, ast.Subscript) and dotted(n.target.value) == res:
                    out.append(n)
                elif isinstance(n, ast.Assign) and any(isinstance(t, ast.Subscript) and dotted(t.value) == res
                                                       for t in n.targets):
                    out.append(n)
        return out

    for lit in ("values", "amplitude", "intensity", "no-such-normalization"):
        body = _select(f.body, "normalization", lit)
        ctx.require(body is not None, f"{f.qualname}: no dispatch on `normalization` found")
        construct = f"{f.qualname}:normalization={lit!r}"
        ups = updates(body)
        if lit == "values":
            ctx.require(len(ups) <= 1, f"{f.qualname}: several updates in the 'values' arm")
            if not ups:
                ctx.violation("R-TERM", construct, f.where, "the 'values' normalisation does not rescale the array: "
                              "the mean changes by new size / old size", key_detail="values")
                continue
            st = ups[0]
            node = df.cfg.node_of(st).idx
            nz = CanonNormalizer(df, node)
            if isinstance(st, ast.AugAssign):
                ctx.require(isinstance(st.op, (ast.Mult, ast.Div)), f"{f.qualname}: 'values' update is not a scaling")
                M = nz.norm(st.value)
                if isinstance(st.op, ast.Div):
                    M = M.inverse()
            else:
                cur = nz.norm(ast.Name(id=res, ctx=ast.Load()))
                M = nz.norm(st.value) * cur.inverse()
            # new size must be read after the crop: every definition of the array reaching here is downstream of it
            sl = df.backward_slice(node, ast.Name(id=res, ctx=ast.Load()))
            after_crop = any(isinstance(df.cfg.nodes[d].ast, ast.Assign) and any(
                isinstance(c, ast.Call) and last_attr(c) == "fft_crop" for c in ast.walk(df.cfg.nodes[d].ast))
                for d in sl.def_nodes)
            ctx.require(after_crop, f"{f.qualname}: the array being normalised does not come from fft_crop")
            _ratio_check(ctx, f, construct, f.loc(st), M, {res, "new_shape"}, {arr}, "values")
        elif lit in ("amplitude", "intensity"):
            raises = any(isinstance(s, ast.Raise) for s in body)
            what = "raises" if raises else (f"rescales the array (`{norm_text(ups[0])[:60]}`)" if ups else "")
            ctx.check(not ups and not raises, "R-TERM", construct, f.where, "array left untouched",
                      f"normalization={lit!r} {what} although it is documented to keep the transform's own "
                      "normalisation", key_detail=lit)
        else:
            ctx.check(any(isinstance(s, ast.Raise) for s in body), "R-TERM", construct, f.where,
                      "unknown normalisation raises", "an unknown normalisation name is silently accepted",
                      key_detail="unknown")


def _crop(ctx, repo) -> None:
    f = repo.function(FFT, "fft_crop")
    arr = f.positional_params[0]
    df = DataFlow(f.node)
    body = _select(f.body, "normalize", True)
    ctx.require(body is not None, f"{f.qualname}: no `if normalize:` found")
    ups = [n for st in body for n in ast.walk(st) if isinstance(n, (ast.Assign, ast.AugAssign))]
    ctx.require(len(ups) == 1, f"{f.qualname}: expected one rescaling statement under normalize")
    st = ups[0]
    node = df.cfg.node_of(st).idx
    nz = CanonNormalizer(df, node)
    tgt = st.targets[0] if isinstance(st, ast.Assign) else st.target
    ctx.require(isinstance(tgt, ast.Name), f"{f.qualname}: rescaling target is not a variable")
    if isinstance(st, ast.AugAssign):
        M = nz.norm(st.value) if isinstance(st.op, ast.Mult) else nz.norm(st.value).inverse()
    else:
        M = nz.norm(st.value) * nz.norm(ast.Name(id=tgt.id, ctx=ast.Load())).inverse()
    _ratio_check(ctx, f, f"{f.qualname}:normalize=True", f.loc(st), M, {tgt.id, "new_shape"}, {arr}, "crop")
    # the copy new[mask_out] = old[mask_in]
    mcalls = [s for s in f.body if isinstance(s, ast.Assign) and isinstance(s.value, ast.Call)
              and call_name(s.value) == "fft_interpolation_masks" and isinstance(s.targets[0], ast.Tuple)]
    ctx.require(len(mcalls) == 1, f"{f.qualname}: mask computation not found")
    m_in, m_out = (e.id for e in mcalls[0].targets[0].elts)
    a = mcalls[0].value.args
    stores = [s for s in f.body if isinstance(s, ast.Assign) and isinstance(s.targets[0], ast.Subscript)
              and isinstance(s.value, ast.Subscript)]
    ctx.require(len(stores) == 1, f"{f.qualname}: masked copy not found")
    s = stores[0]
    good = (dotted(s.targets[0].slice) == m_out and dotted(s.value.slice) == m_in and dotted(s.value.value) == arr
            and len(a) == 2 and (dotted(a[0]) or "").startswith(arr + ".shape") and dotted(a[1]) == "new_shape")
    ctx.check(good, "R-MIRROR", f"{f.qualname}:masked copy", f.loc(s),
              f"`{norm_text(s)}` with masks for ({arr}.shape, new_shape)",
              f"`{norm_text(s)}` does not copy {arr}[input mask] into new[output mask] with masks computed for "
              f"({arr}.shape, new_shape)", key_detail="copy")


# ---------------------------------------------------------------------- R-TERM: shift
def _shift(ctx, repo) -> None:
    f = repo.function(FFT, "fft_shift_kernel")
    pos, shape = f.positional_params[:2]
    df = DataFlow(f.node)
    ce = [c for c in walk_no_nested(f.node) if isinstance(c, ast.Call) and call_name(c) == "complex_exponential"]
    ctx.require(len(ce) == 1, f"{f.qualname}: expected one complex_exponential call")
    st = _stmt_of(f.node, ce[0])
    ctx.require(isinstance(st, ast.Assign) and isinstance(st.targets[0], ast.Subscript)
                and isinstance(st.targets[0].value, ast.Name) and isinstance(st.targets[0].slice, ast.Name),
                f"{f.qualname}: the axis kernel is not stored as k[i]")
    K, i = st.targets[0].value.id, st.targets[0].slice.id
    cnode = df.cfg.node_of(st)
    loops = [df.cfg.nodes[h].ast for h in cnode.loops]
    ctx.require(len(loops) == 1 and isinstance(loops[0], ast.For) and dotted(loops[0].target) == i,
                f"{f.qualname}: the axis kernel is not built in a loop over the axes")
    nz = CanonNormalizer(df, cnode.idx, identity_calls=IDENT)
    got = nz.norm(ce[0].args[0])
    want = nz.norm(ast.parse(f"-2 * np.pi * {K}[{i}] * {pos}[..., {i}]", mode="eval").body)
    ctx.check(got == want, "R-TERM", f"{f.qualname}:phase", f.loc(ce[0]), f"phase {_k(got)}",
              f"the phase of the shift kernel is {_k(got)}, not {_k(want)} = -2*pi*k_i*x_i: a shift by x is not a "
              "translation by +x pixels", key_detail="phase")
    # k comes from spatial_frequencies(shape, unit sampling)
    kdef = [s for s in f.body if isinstance(s, ast.Assign) and dotted(s.targets[0]) == K]
    ctx.require(len(kdef) == 1, f"{f.qualname}: definition of the frequency list not found")
    sf = [c for c in ast.walk(kdef[0].value) if isinstance(c, ast.Call) and call_name(c) == "spatial_frequencies"]
    ctx.require(len(sf) == 1 and len(sf[0].args) >= 2, f"{f.qualname}: frequencies do not come from spatial_frequencies")
    samp = sf[0].args[1]
    unit = None
    if isinstance(samp, ast.BinOp) and isinstance(samp.op, ast.Mult):
        tup = samp.left if isinstance(samp.left, ast.Tuple) else samp.right if isinstance(samp.right, ast.Tuple) else None
        if tup is not None and all(isinstance(e, ast.Constant) for e in tup.elts):
            unit = all(e.value == 1 for e in tup.elts)
    elif isinstance(samp, ast.Tuple) and all(isinstance(e, ast.Constant) for e in samp.elts):
        unit = all(e.value == 1 for e in samp.elts)
    ctx.require(unit is not None, f"{f.qualname}: cannot read the sampling passed to spatial_frequencies")
    ctx.check(unit and dotted(sf[0].args[0]) == shape, "R-TERM", f"{f.qualname}:pixel units", f.loc(sf[0]),
              "frequencies are those of the target shape in cycles per pixel",
              f"the frequencies are computed with `{norm_text(sf[0])}`: positions are no longer measured in pixels of "
              "the array being shifted", key_detail="units")
    # every axis contributes: array = k[0] * k[1] * ...
    rets = [n for n in walk_no_nested(f.node) if isinstance(n, ast.Return) and n.value is not None]
    ctx.require(len(rets) == 1, f"{f.qualname}: expected one return")
    sl = df.backward_slice(df.cfg.node_of(rets[0]).idx, rets[0].value)
    ctx.check(cnode.idx in sl.def_nodes, "R-TERM", f"{f.qualname}:result uses the axis kernels", f.loc(rets[0]),
              "returned kernel is built from the per-axis phase ramps",
              "the returned kernel does not depend on the per-axis phase ramps", key_detail="uses")

    # pure phase: after `K[i] = complex_exponential(...)` the kernels are only multiplied together; no statement
    # patches elements of a kernel or of the product (that would make |kernel| != 1 or break exp(a)exp(b) = exp(a+b))
    result_names = {n.id for n in ast.walk(rets[0].value) if isinstance(n, ast.Name)} & \
        {d.var for d in df.defs if d.kind != "param"}
    patched = []
    for stn in walk_no_nested(f.node):
        tg = stn.targets[0] if isinstance(stn, ast.Assign) else stn.target if isinstance(stn, ast.AugAssign) else None
        if tg is None or stn is st:
            continue
        depth, root = 0, tg
        while isinstance(root, ast.Subscript):
            root, depth = root.value, depth + 1
        if not isinstance(root, ast.Name):
            continue
        if root.id == K and depth >= 1:
            patched.append(stn)
        elif root.id in result_names and depth >= 1:
            patched.append(stn)
        elif root.id in result_names and isinstance(stn, ast.AugAssign) and not isinstance(stn.op, ast.Mult):
            patched.append(stn)
    ctx.check(not patched, "R-TERM", f"{f.qualname}:pure phase", f.loc(patched[0]) if patched else f.where,
              "the per-axis kernels are stored once (complex_exponential) and only multiplied afterwards",
              f"`{norm_text(patched[0])[:90]}` rewrites elements of the phase ramp after it was built: the kernel is no "
              "longer exp(-2*pi*i*k*x) for every frequency, so shifts do not compose additively and a shift followed "
              "by its inverse is not the identity" if patched else "", key_detail="pure-phase")

    g = repo.function(FFT, "fft_shift")
    a, p = g.positional_params[:2]
    rets = [n for n in walk_no_nested(g.node) if isinstance(n, ast.Return) and n.value is not None]
    ctx.require(len(rets) == 1, f"{g.qualname}: expected one return")
    dg = DataFlow(g.node)
    nzg = CanonNormalizer(dg, dg.cfg.node_of(rets[0]).idx)
    e = rets[0].value
    hops, at = 0, dg.cfg.node_of(rets[0]).idx
    while isinstance(e, ast.Name) and hops < 4:
        d = dg.single_def(at, e.id)
        ctx.require(d is not None and d.value is not None, f"{g.qualname}: result has no single definition")
        e, at, hops = d.value, d.node, hops + 1
    ctx.require(isinstance(e, ast.Call) and last_attr(e) == "ifft2" and e.args, f"{g.qualname}: result is not an ifft2")
    got = CanonNormalizer(dg, at).norm(e.args[0])
    want = CanonNormalizer(dg, at).norm(ast.parse(f"fft2({a}) * fft_shift_kernel({p}, {a}.shape[-2:])", mode="eval").body)
    ctx.check(got == want, "R-TERM", f"{g.qualname}:composition", g.loc(rets[0]), f"ifft2({_k(got)})",
              f"fft_shift computes ifft2({_k(got)}) instead of ifft2({_k(want)})", key_detail="compose")


# ---- added after the seeded change C15-r3seed7: the n-dimensional arm transforms the *trailing* axes
_inner_run_c15 = run


def run(ctx) -> None:  # noqa: F811
    ctx.rule("R-TRAILING", "fft_interpolate resamples the trailing len(new_shape) axes (fft_crop pads/crops those; the "
             "old size is read from array.shape[-len(new_shape):]): every value of the `axes` handed to fftn / ifftn "
             "is range(lo, hi) with hi == len(array.shape) and lo == len(array.shape) - len(new_shape) (lo == 0 only "
             "under the guard len(new_shape) == len(array.shape)), and fftn and ifftn get the same axes.  Leading axes "
             "would transform the ensemble dimensions and crop real-space samples as if they were coefficients")
    repo = ctx.repo
    f = repo.function(FFT, "fft_interpolate")
    arr, ns = f.positional_params[:2]
    df = DataFlow(f.node)
    nz = Normalizer()
    N = nz.norm(ast.parse(f"len({arr}.shape)", mode="eval").body)
    M = nz.norm(ast.parse(f"len({ns})", mode="eval").body)
    calls = [c for c in walk_no_nested(f.node) if isinstance(c, ast.Call) and call_name(c) in ("fftn", "ifftn")]
    if not calls:
        ctx.info("R-TRAILING", f"{f.qualname}:n-d arm", f.where, "no fftn/ifftn arm: only 2-d resampling")
        _inner_run_c15(ctx)
        return
    seen_axes = set()
    for c in calls:
        ax = next((k.value for k in c.keywords if k.arg == "axes"), None)
        ctx.require(ax is not None, f"{f.qualname}: {call_name(c)} called without axes=")
        st = _stmt_of(f.node, c)
        at = df.cfg.node_of(st).idx
        alts = []
        if isinstance(ax, ast.Name):
            for d in df.reaching(at, ax.id):
                ctx.require(d.kind == "assign" and d.value is not None, f"{f.qualname}: `{ax.id}` is not assigned")
                alts.append((d.value, d.node))
        else:
            alts.append((ax, at))
        seen_axes.add(norm_text(ax))
        for val, node in alts:
            v = val
            while isinstance(v, ast.Call) and call_name(v) in ("tuple", "list") and len(v.args) == 1:
                v = v.args[0]
            ctx.require(isinstance(v, ast.Call) and call_name(v) == "range" and 1 <= len(v.args) <= 2,
                        f"{f.qualname}: axes value `{norm_text(val)[:50]}` is not range(lo, hi)")
            lo = nz.norm(v.args[0]) if len(v.args) == 2 else Poly()
            hi = nz.norm(v.args[-1])
            # guard of this definition: len(new_shape) == len(array.shape) makes lo == 0 the trailing axes as well
            stn = df.cfg.nodes[node].ast
            same_len = False
            for i_ in walk_no_nested(f.node):
                if isinstance(i_, ast.If) and isinstance(i_.test, ast.Compare) and len(i_.test.ops) == 1:
                    l_, r_ = nz.norm(i_.test.left), nz.norm(i_.test.comparators[0])
                    if {l_.key(), r_.key()} == {N.key(), M.key()}:
                        in_body = any(x is stn for b in i_.body for x in ast.walk(b))
                        in_else = any(x is stn for b in i_.orelse for x in ast.walk(b))
                        if (isinstance(i_.test.ops[0], ast.Eq) and in_body) or (isinstance(i_.test.ops[0], ast.NotEq) and in_else):
                            same_len = True
            good = hi == N and (lo == N - M or (same_len and lo.is_zero()))
            if same_len and hi == M and lo.is_zero():
                good = True
            ctx.check(good, "R-TRAILING", f"{f.qualname}:{call_name(c)} axes", f.loc(val),
                      f"{call_name(c)} over range({_k(lo)}, {_k(hi)}): the trailing len({ns}) axes",
                      f"{call_name(c)} transforms axes range({_k(lo)}, {_k(hi)}); the resampled axes are the trailing ones, "
                      f"range(len({arr}.shape) - len({ns}), len({arr}.shape)): with ensemble dimensions in front the "
                      "transform runs over the wrong axes while fft_crop still crops the trailing ones",
                      key_detail="trailing")
    ctx.check(len(seen_axes) == 1, "R-TRAILING", f"{f.qualname}:fftn/ifftn same axes", f.where,
              "forward and inverse transform use the same axes", f"fftn and ifftn are given different axes {sorted(seen_axes)}",
              key_detail="same-axes")
    _inner_run_c15(ctx)
