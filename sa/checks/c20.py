"""C20 — scan positions have the geometry their parameters describe (abtem/scan.py, abtem/core/fft.py).

Term clauses: every quantity that describes the scan lattice (reported sampling, per-block start/end,
axis metadata offset/sampling, the pixel positions handed to the shift kernel, the shift phase) is the
same term as the one np.linspace(start, end, gpts, endpoint) realises.
"""
from __future__ import annotations

import ast
from typing import Optional

from ..cfg import DataFlow
from ..model import AnalysisError, ClassInfo, FuncInfo, call_name, dotted, kw, norm_text, strip_docstring, walk_no_nested
from ..rules.gridterms import (ArmNormalizer, bind_loop_target, elementwise, expected_grid_term, strip_key)
from ..terms import PI, FlowNormalizer, Normalizer, Poly
from . import c17 as grid_state

SCAN = "abtem.scan"
FFT = "abtem.core.fft"
QUANT = ("start", "end", "gpts", "sampling", "endpoint", "extent")
ALIAS = {f"self.{q}": q for q in QUANT} | {f"self._{q}": q for q in QUANT}
EXPAND_IDENTITY = {"np.expand_dims", "xp.expand_dims", "expand_dims", "np.reshape", "np.array", "xp.array",
                   "np.asarray", "xp.asarray", "tuple", "float", "int"}


def _norm_hook(nz, call: ast.Call):
    fn = dotted(call.func) or ""
    if fn.endswith("linalg.norm") and call.args:
        return Poly.atom(f"‖{strip_key(nz.norm(call.args[0]))}‖")
    if fn.split(".")[-1] == "ceil" and len(call.args) == 1:
        return Poly.atom(f"ceil({strip_key(nz.norm(call.args[0]))})")
    return None


def flow_nz(df: DataFlow, at: int, extra_alias: Optional[dict] = None) -> FlowNormalizer:
    alias = dict(ALIAS)
    alias.update(extra_alias or {})
    return FlowNormalizer(df, at, atom_alias=alias, identity_calls=EXPAND_IDENTITY, call_hook=_norm_hook)


def plain_nz(extra_alias: Optional[dict] = None) -> Normalizer:
    alias = dict(ALIAS)
    alias.update(extra_alias or {})
    return Normalizer(atom_alias=alias, identity_calls=EXPAND_IDENTITY, call_hook=_norm_hook)


def expr(src: str) -> ast.expr:
    return ast.parse(src, mode="eval").body


def enclosing_stmt(func: ast.FunctionDef, node: ast.AST) -> ast.stmt:
    best = None
    for st in ast.walk(func):
        if isinstance(st, ast.stmt) and not isinstance(st, (ast.FunctionDef, ast.For, ast.While, ast.If, ast.With, ast.Try)):
            if any(x is node for x in ast.walk(st)):
                best = st
    if best is None:
        raise AnalysisError("expression is not part of a simple statement")
    return best


def enclosing_loops(func: ast.FunctionDef, node: ast.AST) -> list[ast.For]:
    out = []
    for st in ast.walk(func):
        if isinstance(st, ast.For) and any(x is node for b in (st.body,) for s in b for x in ast.walk(s)):
            out.append(st)
    out.sort(key=lambda s: s.lineno)
    return out


# ---------------------------------------------------------------------------------------------
def _self_calls(st: ast.AST) -> set[str]:
    return {c.func.attr for c in walk_no_nested(st) if isinstance(c, ast.Call) and isinstance(c.func, ast.Attribute)
            and dotted(c.func.value) == "self"}


def _is_none_guard_return(func: ast.FunctionDef, node: ast.AST) -> bool:
    """`return` (no value) directly inside an `if` whose test only compares things with None."""
    if not (isinstance(node, ast.Return) and node.value is None):
        return False
    for st in walk_no_nested(func):
        if isinstance(st, ast.If) and any(b is node for b in st.body) and not st.orelse:
            cmps = [c for c in ast.walk(st.test) if isinstance(c, ast.Compare)]
            return bool(cmps) and all(isinstance(c.ops[0], (ast.Is, ast.IsNot)) and isinstance(c.comparators[0], ast.Constant)
                                      and c.comparators[0].value is None for c in cmps)
    return False


def _escapes(f: FuncInfo, start_nodes: list[int], refit: set[str]) -> bool:
    """Is the normal exit reachable from the successors of `start_nodes` without passing a statement that calls a
    re-fitting method (paths ending in a None-guard return do not count)?"""
    from ..cfg import CFG

    cfg = CFG(f.node)
    blocked = {n.idx for n in cfg.nodes if n.ast is not None and n.kind == "stmt" and (
        _self_calls(n.ast) & refit or _is_none_guard_return(f.node, n.ast))}
    starts = start_nodes if start_nodes else [cfg.entry]
    for s0 in starts:
        src = cfg.entry if s0 is None else s0
        if cfg.paths_avoiding(src, cfg.exit, blocked):
            return True
    return False


def _refit(ctx, repo, line: ClassInfo) -> None:
    from ..cfg import CFG

    adj = line.own_method("_adjust_sampling")
    ctx.require(adj is not None, "LineScan._adjust_sampling not found")
    # fields the step depends on: attributes read by _adjust_sampling, through property getters of the class
    fields: set[str] = set()
    seen_props: set[str] = set()

    def reads(fn: FuncInfo) -> None:
        for n in walk_no_nested(fn.node):
            if isinstance(n, ast.Attribute) and isinstance(n.ctx, ast.Load) and dotted(n.value) == "self":
                if n.attr.startswith("_") and not n.attr.startswith("__"):
                    if line.find_method(n.attr) is None:
                        fields.add(n.attr)
                elif n.attr not in seen_props:
                    seen_props.add(n.attr)
                    g = line.find_method(n.attr, "getter")
                    if g is not None and g.is_property:
                        reads(g)
    reads(adj)
    fields.discard("_sampling")
    ctx.require({"_start", "_end", "_gpts"} <= fields,
                f"LineScan._adjust_sampling: the step no longer depends on _start/_end/_gpts (found {sorted(fields)})")
    # methods that re-fit on all (non-guard) paths
    refit = {"_adjust_sampling"}
    methods = [f for defs in line.methods.values() for f in defs if not (f.is_property and not f.is_setter)]
    changed = True
    while changed:
        changed = False
        for f in methods:
            if f.name in refit or f.is_setter:
                continue
            if _self_calls(f.node) & refit and not _escapes(f, [], refit):
                refit.add(f.name)
                changed = True
    n = 0
    for f in methods:
        cfg = CFG(f.node)
        for node in cfg.nodes:
            st = node.ast
            if node.kind != "stmt" or not isinstance(st, (ast.Assign, ast.AugAssign)):
                continue
            tgts = st.targets if isinstance(st, ast.Assign) else [st.target]
            hit = sorted({t.attr for t in tgts if isinstance(t, ast.Attribute) and dotted(t.value) == "self"
                          and t.attr in fields})
            if not hit or f is adj:
                continue
            n += 1
            esc = not (_self_calls(st) & refit) and _escapes(f, [node.idx], refit)
            ctx.check(not esc, "R-REFIT", f"{f.qualname}{'.setter' if f.is_setter else ''}:{'/'.join(hit)}", f.loc(st),
                      f"store of {hit} is followed by a re-fit of the sampling ({sorted(refit)})",
                      f"`{norm_text(st)[:60]}` changes {hit} and the method can return without re-fitting the sampling "
                      f"(re-fitting methods: {sorted(refit)}): the reported sampling and the axis metadata keep the old "
                      "step while get_positions() uses the new one", key_detail="refit")
    ctx.require(n >= 5, f"R-REFIT examined only {n} stores of LineScan geometry fields")


# ---------------------------------------------------------------------------------------------
def run(ctx) -> None:
    repo = ctx.repo
    ctx.rule("R-LINSPACE", "every np.linspace call that generates scan coordinates in GridScan/LineScan is "
             "linspace(start_i, end_i, gpts_i, endpoint=endpoint_i) for one and the same component i (positional pairing "
             "through zip counts as the same component); the endpoint flag is passed explicitly")
    ctx.rule("R-SAMPLING", "the reported sampling is the linspace step: LineScan._adjust_sampling stores extent/(gpts-1) "
             "when the endpoint is included and extent/gpts otherwise with extent == ||end - start||; GridScan hands "
             "Grid extent == end - start component-wise and its own endpoint flags, and Grid's sampling formula is "
             "extent/(gpts-1) | extent/gpts")
    ctx.rule("R-REFIT", "LineScan keeps its reported sampling equal to the linspace step through every mutation: each "
             "method that stores one of the fields the step depends on (the fields _adjust_sampling reads through the "
             "property getters: _start, _end, _gpts, _endpoint) reaches, on every path from the store to its normal "
             "exit, a call that re-fits the sampling — _adjust_sampling itself or a method that calls it on all paths "
             "except its `... is None: return` guards")
    ctx.rule("R-BLOCKTERM", "in _partition_args block k is described by start_k == start + cum_k*sampling(*direction), "
             "end_k - start_k == sampling*chunk_k(*direction), gpts == chunk_k, endpoint == False, where cum_k is the "
             "exclusive running sum of the very chunk sizes chunk_k iterates over and direction == (end-start)/||end-start||; "
             "the block reader passes each stored key to the constructor parameter of the same name, x before y")
    ctx.rule("R-SCANAXIS", "ensemble_axes_metadata describes the same lattice: GridScan ScanAxis(offset=start_i, "
             "sampling=sampling_i, endpoint=endpoint_i), LineScan ScanAxis(offset=0, sampling=sampling), CustomScan lists "
             "its own positions; LinearAxis.coordinates(n) == offset + sampling*i")
    ctx.rule("R-KERNEL", "_evaluate_kernel passes get_positions()/waves.sampling (pixel units) and the waves' gpts to "
             "fft_shift_kernel, which builds frequencies with unit sampling and the phase -2*pi*k_i*x_i per dimension i, "
             "exponentiated as exp(+i*phase)")
    ctx.undecided("numerical equality of the shifted probe with the probe built at the origin; that Grid's setters keep "
                  "the GridScan grid consistent with start/end (C17); dask block reassembly (C19)")

    line = repo.cls(SCAN, "LineScan")
    grid = repo.cls(SCAN, "GridScan")
    _linspace(ctx, repo, [line, grid])
    _sampling(ctx, repo, line, grid)
    _refit(ctx, repo, line)
    _blocks(ctx, repo, line, grid)
    _scan_axes(ctx, repo, line, grid)
    _kernel(ctx, repo)


# ---------------------------------------------------------------------------------------------
def _component(e: ast.expr, binding: dict[str, ast.expr]):
    """-> (quantity, component) for self.start[0] / self.gpts / a zip-bound name."""
    if isinstance(e, ast.Name) and e.id in binding:
        q = ALIAS.get(dotted(binding[e.id]) or "")
        return (q, "zip") if q else None
    if isinstance(e, ast.Subscript):
        q = ALIAS.get(dotted(e.value) or "")
        if q and isinstance(e.slice, ast.Constant):
            return (q, e.slice.value)
        if q:
            return (q, ast.unparse(e.slice))
    q = ALIAS.get(dotted(e) or "")
    if q:
        return (q, None)
    return None


def _describe(v: ast.expr, binding: dict[str, ast.expr]) -> str:
    if isinstance(v, ast.Name) and v.id in binding:
        return f"{v.id} (iterating {norm_text(binding[v.id])[:40]})"
    return norm_text(v)[:60]


def _linspace(ctx, repo, classes: list[ClassInfo]) -> None:
    n = 0
    for c in classes:
        for defs in c.methods.values():
            for f in defs:
                for call in [x for x in walk_no_nested(f.node) if isinstance(x, ast.Call) and (
                        call_name(x) or "").split(".")[-1] == "linspace"]:
                    binding: dict[str, ast.expr] = {}
                    for comp in ast.walk(f.node):
                        if isinstance(comp, (ast.ListComp, ast.GeneratorExp)) and any(x is call for x in ast.walk(comp.elt)):
                            for g in comp.generators:
                                binding.update(bind_loop_target(g.target, g.iter))
                    b = {p: a for p, a in zip(("start", "stop", "num"), call.args)}
                    b.update({k.arg: k.value for k in call.keywords if k.arg})
                    parts = {k: _component(b[k], binding) if k in b else None for k in ("start", "stop", "num", "endpoint")}
                    if parts["start"] is None or parts["start"][0] != "start" and parts["start"][0] != "end":
                        if not any(p and p[0] in ("start", "end") for p in parts.values()):
                            continue  # not a scan-coordinate ramp
                    n += 1
                    cname = f"{f.qualname}:linspace({norm_text(call.args[0]) if call.args else ''}, ...)"
                    problems = []
                    want = {"start": "start", "stop": "end", "num": "gpts", "endpoint": "endpoint"}
                    for k, q in want.items():
                        if k not in b:
                            problems.append(f"`{k}` is not passed" + (" (numpy's default endpoint=True would ignore the "
                                                                     "scan's endpoint flag)" if k == "endpoint" else ""))
                        elif parts[k] is None or parts[k][0] != q:
                            problems.append(f"`{k}` is `{_describe(b[k], binding)}`, expected the scan's {q}")
                    if not problems:
                        comps = {k: parts[k][1] for k in want}
                        vec = {comps["start"], comps["stop"]}
                        if len(vec) != 1:
                            problems.append(f"start uses component {comps['start']} but stop uses component {comps['stop']}")
                        else:
                            c0 = comps["start"]
                            for k in ("num", "endpoint"):
                                if comps[k] is not None and comps[k] != c0:
                                    problems.append(f"{want[k]} uses component {comps[k]} but start/end use component {c0}")
                    ctx.check(not problems, "R-LINSPACE", cname, f.loc(call),
                              "linspace(start_i, end_i, gpts_i, endpoint=endpoint_i), same component",
                              "; ".join(problems), key_detail=f.name)
    ctx.require(n >= 5, f"R-LINSPACE matched only {n} linspace calls in GridScan/LineScan")


# ---------------------------------------------------------------------------------------------
def _path_conditions(func: ast.FunctionDef, target: ast.stmt) -> list[tuple[ast.expr, bool]]:
    from .c18 import enclosing_tests
    return enclosing_tests(func, target)


def _truth_generic(t: ast.expr, ep: bool) -> Optional[bool]:
    """Truth of a guard for endpoint == ep and a generic number of grid points (gpts > 1)."""
    d = dotted(t)
    if d is not None and ALIAS.get(d) == "endpoint":
        return ep
    if isinstance(t, ast.UnaryOp) and isinstance(t.op, ast.Not):
        v = _truth_generic(t.operand, ep)
        return None if v is None else not v
    if isinstance(t, ast.BoolOp):
        vals = [_truth_generic(v, ep) for v in t.values]
        if isinstance(t.op, ast.And):
            return False if any(v is False for v in vals) else (True if all(v is True for v in vals) else None)
        return True if any(v is True for v in vals) else (False if all(v is False for v in vals) else None)
    if isinstance(t, ast.Compare) and len(t.ops) == 1 and isinstance(t.left, ast.Constant) and ALIAS.get(
            dotted(t.comparators[0]) or "") == "gpts":
        # `1 < gpts`: read as `gpts > 1`
        mirror = {ast.Lt: ast.Gt, ast.Gt: ast.Lt, ast.LtE: ast.GtE, ast.GtE: ast.LtE, ast.Eq: ast.Eq, ast.NotEq: ast.NotEq}
        if type(t.ops[0]) in mirror:
            t = ast.Compare(left=t.comparators[0], ops=[mirror[type(t.ops[0])]()], comparators=[t.left])
    if isinstance(t, ast.Compare) and len(t.ops) == 1 and ALIAS.get(dotted(t.left) or "") == "gpts" and isinstance(
            t.comparators[0], ast.Constant) and isinstance(t.comparators[0].value, int):
        c, op = t.comparators[0].value, t.ops[0]
        # generic gpts is large: decide comparisons against small literals
        if isinstance(op, (ast.Gt, ast.GtE, ast.NotEq)) and c <= 2:
            return True
        if isinstance(op, (ast.Lt, ast.LtE, ast.Eq)) and c <= 2:
            return False
    return None


class _EndpointFlow(FlowNormalizer):
    """Inlines locals and resolves conditional expressions on the endpoint flag (generic gpts)."""

    def __init__(self, df, at, ep: bool):
        super().__init__(df, at, atom_alias={"self.extent": "E", "self.gpts": "G", "self._gpts": "G"},
                         identity_calls=EXPAND_IDENTITY, call_hook=_norm_hook)
        self.ep = ep

    def norm(self, n):
        if isinstance(n, ast.IfExp):
            v = _truth_generic(n.test, self.ep)
            if v is None:
                raise AnalysisError(f"conditional `{norm_text(n.test)[:50]}` in the sampling formula is not a test of "
                                    "the endpoint flag")
            return self.norm(n.body if v else n.orelse)
        return super().norm(n)


def _sampling(ctx, repo, line: ClassInfo, grid: ClassInfo) -> None:
    # --- LineScan._adjust_sampling
    stores = []
    for defs in line.methods.values():
        for f in defs:
            if f.name == "__init__" or f.is_setter:
                continue
            for st in walk_no_nested(f.node):
                if isinstance(st, ast.Assign) and any(dotted(t) == "self._sampling" for t in st.targets):
                    stores.append((f, st))
    ctx.require(len(stores) >= 1, "LineScan: no method computes self._sampling")
    by_ep: dict[bool, list] = {True: [], False: []}
    for f, st in stores:
        conds = _path_conditions(f.node, st)
        for ep in (True, False):
            vals = []
            for t, br in conds:
                v = _truth_generic(t, ep)
                if v is None:
                    raise AnalysisError(f"{f.qualname}: guard `{norm_text(t)[:60]}` on the sampling store is not a test "
                                        "of the endpoint flag")
                vals.append(v == br)
            if all(vals):
                by_ep[ep].append((f, st))
    for ep in (True, False):
        ctx.require(len(by_ep[ep]) == 1, f"LineScan: {len(by_ep[ep])} sampling stores apply for endpoint={ep}")
        f, st = by_ep[ep][0]
        dfl = DataFlow(f.node)
        got = _EndpointFlow(dfl, dfl.cfg.node_of(st).idx, ep).norm(st.value)
        exp = expected_grid_term("S", ep)
        ctx.check(got == exp, "R-SAMPLING", f"{f.qualname}:endpoint={ep}", f.loc(st),
                  f"sampling := {got.key()} == linspace step",
                  f"with endpoint={ep} np.linspace(start, end, gpts, endpoint={ep}) steps by {exp.key()} (E = extent, "
                  f"G = gpts) but the reported sampling is {got.key()}", key_detail=f"ep{ep}")
    # --- LineScan.extent == ||end - start||
    ext = line.own_method("extent", "getter")
    ctx.require(ext is not None, "LineScan.extent not found")
    df = DataFlow(ext.node)
    rets = [st for st in walk_no_nested(ext.node) if isinstance(st, ast.Return) and st.value is not None
            and not (isinstance(st.value, ast.Constant) and st.value.value is None)]
    ctx.require(len(rets) == 1, "LineScan.extent: expected one non-None return")
    got = flow_nz(df, df.cfg.node_of(rets[0]).idx).norm(rets[0].value)
    want = plain_nz().norm(expr("np.linalg.norm(self.end - self.start)"))
    want2 = plain_nz().norm(expr("np.linalg.norm(self.start - self.end)"))
    ctx.check(got in (want, want2), "R-SAMPLING", f"{ext.qualname}", ext.loc(rets[0]), f"extent == {got.key()}",
              f"LineScan.extent is {got.key()}, not the distance ||end - start|| that linspace covers", key_detail="extent")
    # --- LineScan._adjust_gpts (information: sibling of Grid._adjust_gpts)
    for defs in line.methods.values():
        for f in defs:
            for st in walk_no_nested(f.node):
                if isinstance(st, ast.Assign) and any(dotted(t) == "self._gpts" for t in st.targets) and not (
                        isinstance(st.value, ast.Name)):
                    got = plain_nz({"self.extent": "E", "self.sampling": "S", "self._sampling": "S"}).norm(st.value)
                    conds = _path_conditions(f.node, st)
                    if not any(_truth_generic(t, True) is not None for t, _ in conds) and got == expected_grid_term("G", False):
                        ctx.info("R-SAMPLING", f"{f.qualname}:gpts", f.loc(st),
                                 f"gpts := {got.key()} for both endpoint settings (Grid adds 1 with endpoint); the "
                                 "sampling re-fitted afterwards stays the linspace step, so C20 is unaffected")

    # --- GridScan.__init__ -> Grid(extent = end - start, endpoint = endpoint)
    init = grid.own_method("__init__")
    ctx.require(init is not None, "GridScan.__init__ not found")
    df = DataFlow(init.node)
    calls = [c for c in walk_no_nested(init.node) if isinstance(c, ast.Call) and call_name(c) == "Grid"]
    ctx.require(len(calls) == 1, "GridScan.__init__: expected one Grid(...) construction")
    gc = calls[0]
    gnode = df.cfg.node_of(enclosing_stmt(init.node, gc)).idx
    ev = kw(gc, "extent")
    ctx.require(ev is not None, "GridScan.__init__: Grid(...) is not given an extent")
    defs = [d for d in df.reaching(gnode, ev.id)] if isinstance(ev, ast.Name) else []
    vals = [d.value for d in defs if d.kind == "assign" and not (
        isinstance(d.value, ast.Constant) and d.value.value is None)] if defs else [ev]
    ctx.require(len(vals) == 1, "GridScan.__init__: the extent passed to Grid has no single non-None definition")
    cand = [vals[0]]
    nz = plain_nz()
    ew = elementwise(cand[0])
    if isinstance(cand[0], (ast.Tuple, ast.List)) and len(cand[0].elts) == 2:
        good = all(nz.norm(e) == nz.norm(expr(f"self.end[{i}] - self.start[{i}]")) for i, e in enumerate(cand[0].elts))
    elif ew is not None:
        al = {}
        for name, src in ew[1].items():
            q = ALIAS.get(dotted(src) or "")
            if q is None:
                raise AnalysisError(f"GridScan.__init__: extent iterates `{ast.unparse(src)[:40]}`")
            al[name] = q
        good = plain_nz(al).norm(ew[0]) == nz.norm(expr("self.end - self.start"))
    else:
        good = nz.norm(cand[0]) == nz.norm(expr("self.end - self.start"))
    ctx.check(good, "R-SAMPLING", f"{init.qualname}:grid-extent", init.loc(cand[0]),
              "Grid extent == (end[0]-start[0], end[1]-start[1])",
              f"the Grid behind GridScan gets extent `{norm_text(cand[0])}`, not end - start component-wise: the "
              "reported sampling is not the spacing of linspace(start, end, ...)", key_detail="extent")
    pass_ok = []
    for name in ("gpts", "sampling", "endpoint"):
        v = kw(gc, name)
        pass_ok.append(isinstance(v, ast.Name) and v.id == name and all(
            d.kind == "param" for d in df.reaching(gnode, name)))
    ctx.check(all(pass_ok), "R-SAMPLING", f"{init.qualname}:grid-args", init.loc(gc),
              "gpts, sampling and endpoint are forwarded unchanged to Grid",
              f"`{norm_text(gc)[:100]}` does not forward gpts/sampling/endpoint unchanged", key_detail="args")
    # GridScan._adjust_extent (start/end setters)
    adj = grid.own_method("_adjust_extent")
    if adj is not None:
        sts = [st for st in walk_no_nested(adj.node) if isinstance(st, ast.Assign) and any(
            dotted(t) == "self.extent" for t in st.targets)]
        ctx.require(len(sts) == 1, "GridScan._adjust_extent no longer assigns self.extent")
        got = plain_nz().norm(sts[0].value)
        ctx.check(got == plain_nz().norm(expr("self.end - self.start")), "R-SAMPLING", f"{adj.qualname}",
                  adj.loc(sts[0]), "extent := end - start after start/end change",
                  f"after a start/end change the grid extent becomes {got.key()}, not end - start", key_detail="adjust")
    # Grid's own sampling formula, verified through C17's interpreter on Grid(extent, gpts) / Grid(extent, sampling)
    gcls = repo.cls(grid_state.MOD, "Grid")
    it = grid_state.Interp(ctx, gcls)
    ginit = repo.method(grid_state.MOD, "Grid", "__init__")
    for given in ((True, True, False), (True, False, True)):
        env = {}
        for (pn, k), g in zip(grid_state.PROPS.items(), given):
            env[pn] = grid_state.atom(k, k + "in") if g else grid_state.NONE
        for other in ginit.params[1:]:
            env.setdefault(other, ("other", other))
        it.cur = [ginit]
        it.exec_block(ginit.body, [grid_state.Path({}, env)])
    hits = [(k, v) for k, v in it.term_instances.items() if k[1] == "S"]
    ctx.require(len(hits) >= 1, "Grid: no sampling formula reached from Grid(extent, gpts)")
    for (fq, _), (ok, where, detail) in hits:
        ctx.check(ok, "R-SAMPLING", f"{fq}:sampling-formula", where, detail, detail, key_detail="grid-S")


# ---------------------------------------------------------------------------------------------
def _resolve(df: DataFlow, e: ast.expr, at: int, depth: int = 0) -> ast.expr:
    while isinstance(e, ast.Name) and depth < 8:
        d = df.single_def(at, e.id)
        if d is None or d.kind != "assign" or d.value is None:
            break
        e, at, depth = d.value, d.node, depth + 1
    return e


def _strip_seq(e: ast.expr) -> ast.expr:
    while isinstance(e, ast.Call) and call_name(e) in ("tuple", "list") and len(e.args) == 1:
        e = e.args[0]
    return e


def _prefix_kind(df: DataFlow, e: ast.expr, at: int, sizes: ast.expr) -> Optional[str]:
    """'exclusive' for `(0,) + tuple(np.cumsum(X))`, `[0] + list(accumulate(X))`, `accumulate(X, initial=0)`;
    'inclusive' for a bare running sum of X; None otherwise (X == sizes)."""
    e = _strip_seq(_resolve(df, e, at))
    want = ast.unparse(sizes)

    def running(x: ast.expr) -> bool:
        x = _strip_seq(_resolve(df, _strip_seq(x), at))
        return isinstance(x, ast.Call) and call_name(x) in ("np.cumsum", "accumulate", "itertools.accumulate") \
            and len(x.args) == 1 and not x.keywords and ast.unparse(x.args[0]) == want

    if isinstance(e, ast.BinOp) and isinstance(e.op, ast.Add):
        z, rest = e.left, e.right
        if isinstance(z, (ast.Tuple, ast.List)) and len(z.elts) == 1 and isinstance(z.elts[0], ast.Constant) and \
                z.elts[0].value == 0 and running(rest):
            return "exclusive"
        return None
    if isinstance(e, ast.Call) and call_name(e) in ("accumulate", "itertools.accumulate") and len(e.args) == 1 and \
            ast.unparse(e.args[0]) == want:
        ini = kw(e, "initial")
        if isinstance(ini, ast.Constant) and ini.value == 0 and len(e.keywords) == 1:
            return "exclusive"
    if running(e):
        return "inclusive"
    return None


def _block_descriptor(f: FuncInfo, cls: ClassInfo):
    """The per-block description: a dict literal or a constructor call with start/end/gpts/endpoint."""
    keys = {"start", "end", "gpts", "endpoint"}
    for n in walk_no_nested(f.node):
        if isinstance(n, ast.Dict) and all(isinstance(k, ast.Constant) for k in n.keys) and keys <= {
                k.value for k in n.keys}:
            return n, {k.value: v for k, v in zip(n.keys, n.values)}
        if isinstance(n, ast.Call) and call_name(n) in (cls.name, "self.__class__", "type(self)") and keys <= {
                k.arg for k in n.keywords}:
            return n, {k.arg: k.value for k in n.keywords}
    raise AnalysisError(f"{f.qualname}: no per-block description with start/end/gpts/endpoint found")


def _direction_poly(cls: ClassInfo) -> Optional[Poly]:
    d = cls.own_method("direction", "getter")
    if d is None:
        return None
    df = DataFlow(d.node)
    rets = [st for st in walk_no_nested(d.node) if isinstance(st, ast.Return) and st.value is not None]
    if len(rets) != 1:
        return None
    return flow_nz(df, df.cfg.node_of(rets[0]).idx).norm(rets[0].value)


def _blocks(ctx, repo, line: ClassInfo, grid: ClassInfo) -> None:
    unit = plain_nz().norm(expr("(self.end - self.start) / np.linalg.norm(self.end - self.start)"))
    for cls, vector in ((grid, False), (line, True)):
        f = cls.own_method("_partition_args")
        ctx.require(f is not None, f"{cls.name}._partition_args not found")
        df = DataFlow(f.node)
        desc, fields = _block_descriptor(f, cls)
        st = enclosing_stmt(f.node, desc)
        at = df.cfg.node_of(st).idx
        loops = enclosing_loops(f.node, desc)
        ctx.require(bool(loops), f"{f.qualname}: the block description is not built in a loop over the chunks")
        inner = loops[-1]
        b = bind_loop_target(inner.target, inner.iter)
        header = df.cfg.node_of(inner).idx
        chunk_var = cum_var = None
        sizes = None
        for name, src in b.items():
            r = _resolve(df, src, header)
            if isinstance(r, ast.Subscript) and isinstance(r.value, ast.Name):
                chunk_var, sizes = name, r
        ctx.require(chunk_var is not None, f"{f.qualname}: no loop variable iterates the chunk sizes chunks[d]")
        for name, src in b.items():
            if name != chunk_var and not (isinstance(src, ast.Constant) and src.value == "#index"):
                pk = _prefix_kind(df, src, header, sizes)
                if pk is None:
                    raise AnalysisError(f"{f.qualname}: `{name}` iterates `{ast.unparse(src)[:50]}`, which is not a "
                                        f"running sum of {ast.unparse(sizes)}")
                cum_var = name
                ctx.check(pk == "exclusive", "R-BLOCKTERM", f"{f.qualname}:block:offset-sequence", f.loc(inner),
                          f"`{name}` runs over the exclusive running sum of {ast.unparse(sizes)} (0, c0, c0+c1, ...)",
                          f"`{name}` runs over the inclusive running sum of {ast.unparse(sizes)}: block k would start "
                          "where it should end", key_detail="cum")
        ctx.require(cum_var is not None, f"{f.qualname}: no loop variable carries the running sum of the chunk sizes")
        # chunks must be the validated chunks of this scan's own shape
        idx = ast.unparse(sizes.slice)
        nz = flow_nz(df, at)
        nz.no_inline |= {chunk_var, cum_var}
        exp_nz = plain_nz()
        S0 = nz.norm(fields["start"])
        E0 = nz.norm(fields["end"])
        G0 = nz.norm(fields["gpts"])
        if vector:
            dirp = _direction_poly(cls)
            if dirp is not None:
                S0, E0 = S0.subst({"self.direction": dirp}), E0.subst({"self.direction": dirp})
            want_start = exp_nz.norm(expr(f"self.start + {cum_var} * self.sampling")) - exp_nz.norm(expr("self.start")) \
                + exp_nz.norm(expr("self.start"))
            step = exp_nz.norm(expr(f"{cum_var} * self.sampling")) * unit
            want_start = exp_nz.norm(expr("self.start")) + step
            want_len = exp_nz.norm(expr(f"{chunk_var} * self.sampling")) * unit
        else:
            want_start = exp_nz.norm(expr(f"self.start[{idx}] + {cum_var} * self.sampling[{idx}]"))
            want_len = exp_nz.norm(expr(f"{chunk_var} * self.sampling[{idx}]"))
        cname = f"{f.qualname}:block"
        ctx.check(S0 == want_start, "R-BLOCKTERM", cname + ":start", f.loc(fields["start"]),
                  f"start_k == {want_start.key()[:90]}",
                  f"block start is {S0.key()[:140]}; the k-th block of the lattice starts at {want_start.key()[:140]} "
                  f"({cum_var} = number of positions before the block)", key_detail="start")
        ctx.check((E0 - S0) == want_len, "R-BLOCKTERM", cname + ":length", f.loc(fields["end"]),
                  f"end_k - start_k == {want_len.key()[:90]}",
                  f"block end - start is {(E0 - S0).key()[:140]}, expected {want_len.key()[:140]} so that "
                  f"linspace(start_k, end_k, {chunk_var}, endpoint=False) keeps the lattice step", key_detail="length")
        ctx.check(G0 == Poly.atom(chunk_var), "R-BLOCKTERM", cname + ":gpts", f.loc(fields["gpts"]),
                  f"gpts == {chunk_var}", f"block gpts is {G0.key()}, not the chunk size {chunk_var}", key_detail="gpts")
        epv = fields["endpoint"]
        ctx.check(isinstance(epv, ast.Constant) and epv.value is False, "R-BLOCKTERM", cname + ":endpoint", f.loc(epv),
                  "endpoint == False",
                  f"block endpoint is `{norm_text(epv)}`; only endpoint=False makes end_k the start of block k+1",
                  key_detail="endpoint")
    # reader of the GridScan block dicts
    rd = grid.own_method("_from_partitioned_args_func")
    ctx.require(rd is not None, "GridScan._from_partitioned_args_func not found")
    wf = grid.own_method("_partition_args")
    _, wfields = _block_descriptor(wf, grid)
    df = DataFlow(rd.node)
    calls = [c for c in walk_no_nested(rd.node) if isinstance(c, ast.Call) and call_name(c) in ("cls", "GridScan")]
    ctx.require(len(calls) == 1, "GridScan._from_partitioned_args_func: constructor call not found")
    c = calls[0]
    at = df.cfg.node_of(enclosing_stmt(rd.node, c)).idx
    bases_seen = set()
    read_keys = set()
    for k in c.keywords:
        if k.arg is None or k.arg not in wfields:
            continue
        v = _resolve(df, k.value, at)
        ok = isinstance(v, (ast.Tuple, ast.List)) and len(v.elts) == 2 and all(
            isinstance(e, ast.Subscript) and isinstance(e.value, ast.Name) and isinstance(e.slice, ast.Constant)
            for e in v.elts)
        if not ok:
            raise AnalysisError(f"{rd.qualname}: `{k.arg}` is not an (x_block[key], y_block[key]) pair")
        keys = [e.slice.value for e in v.elts]
        bases = tuple(e.value.id for e in v.elts)
        bases_seen.add(bases)
        read_keys |= set(keys)
        ctx.check(keys == [k.arg, k.arg], "R-BLOCKTERM", f"{rd.qualname}:{k.arg}", rd.loc(k.value),
                  f"{k.arg} <- (x['{k.arg}'], y['{k.arg}'])",
                  f"constructor parameter `{k.arg}` is rebuilt from the stored keys {keys}", key_detail=k.arg)
    ctx.require(len(read_keys) >= 4, f"{rd.qualname}: fewer than four block keys are read")
    unpack = [st for st in walk_no_nested(rd.node) if isinstance(st, ast.Assign) and isinstance(st.targets[0], ast.Tuple)]
    order = tuple(e.id for e in unpack[0].targets[0].elts if isinstance(e, ast.Name)) if unpack else ()
    ctx.check(len(bases_seen) == 1 and (not order or next(iter(bases_seen)) == order), "R-BLOCKTERM",
              f"{rd.qualname}:xy-order", rd.where, "x block first, y block second for every parameter",
              f"the parameters mix the x and y blocks in different orders: {sorted(bases_seen)}", key_detail="order")
    ctx.check(read_keys == set(wfields), "R-BLOCKTERM", f"{rd.qualname}:keys", rd.where,
              f"keys read == keys written == {sorted(wfields)}",
              f"keys written {sorted(wfields)} / keys read {sorted(read_keys)}", key_detail="keys")


# ---------------------------------------------------------------------------------------------
def _scan_axes(ctx, repo, line: ClassInfo, grid: ClassInfo) -> None:
    want = {"sampling": "sampling", "offset": "start", "endpoint": "endpoint"}
    f = grid.own_method("ensemble_axes_metadata", "getter")
    ctx.require(f is not None, "GridScan.ensemble_axes_metadata not found")
    calls = [c for c in walk_no_nested(f.node) if isinstance(c, ast.Call) and call_name(c) == "ScanAxis"]
    ctx.require(len(calls) >= 1, "GridScan.ensemble_axes_metadata builds no ScanAxis")
    for c in calls:
        binding = {}
        for lp in enclosing_loops(f.node, c):
            binding.update(bind_loop_target(lp.target, lp.iter))
        comps = {}
        probs = []
        for k, q in want.items():
            v = kw(c, k)
            if v is None:
                probs.append(f"`{k}` is not passed")
                continue
            p = _component(v, binding)
            if p is None or p[0] != q:
                probs.append(f"`{k}` is `{_describe(v, binding)}`, expected the scan's {q}")
            else:
                comps[k] = p[1]
        if not probs and len(set(comps.values())) != 1:
            probs.append(f"the arguments come from different components {comps}")
        ctx.check(not probs, "R-SCANAXIS", f"{f.qualname}:ScanAxis", f.loc(c),
                  "ScanAxis(sampling=sampling_i, offset=start_i, endpoint=endpoint_i)", "; ".join(probs),
                  key_detail="grid")
    if calls and enclosing_loops(f.node, calls[0]):
        b = bind_loop_target(enclosing_loops(f.node, calls[0])[-1].target, enclosing_loops(f.node, calls[0])[-1].iter)
        labels = [v for v in b.values() if isinstance(v, ast.Tuple) and all(isinstance(e, ast.Constant) for e in v.elts)]
        if labels:
            ctx.check([e.value for e in labels[0].elts] == ["x", "y"], "R-SCANAXIS", f"{f.qualname}:labels", f.where,
                      "axes are listed x then y", f"axis labels are {[e.value for e in labels[0].elts]}", "labels")

    f = line.own_method("ensemble_axes_metadata", "getter")
    ctx.require(f is not None, "LineScan.ensemble_axes_metadata not found")
    calls = [c for c in walk_no_nested(f.node) if isinstance(c, ast.Call) and call_name(c) == "ScanAxis"]
    ctx.require(len(calls) == 1, "LineScan.ensemble_axes_metadata: expected one ScanAxis")
    c = calls[0]
    s, o, e = kw(c, "sampling"), kw(c, "offset"), kw(c, "endpoint")
    probs = []
    if s is None or _component(s, {}) != ("sampling", None):
        probs.append(f"sampling is `{norm_text(s) if s is not None else 'missing'}`, expected self.sampling")
    if o is not None and not (isinstance(o, ast.Constant) and o.value == 0):
        probs.append(f"offset is `{norm_text(o)}`, expected 0 (distance from the start point)")
    if e is None or _component(e, {}) != ("endpoint", None):
        probs.append(f"endpoint is `{norm_text(e) if e is not None else 'missing'}`, expected self.endpoint")
    ctx.check(not probs, "R-SCANAXIS", f"{f.qualname}:ScanAxis", f.loc(c),
              "ScanAxis(sampling=self.sampling, offset=0, endpoint=self.endpoint)", "; ".join(probs), key_detail="line")

    cs = repo.cls(SCAN, "CustomScan")
    f = cs.own_method("ensemble_axes_metadata", "getter")
    ctx.require(f is not None, "CustomScan.ensemble_axes_metadata not found")
    calls = [c for c in walk_no_nested(f.node) if isinstance(c, ast.Call) and call_name(c) == "PositionsAxis"]
    ctx.require(len(calls) == 1, "CustomScan.ensemble_axes_metadata: expected one PositionsAxis")
    v = kw(calls[0], "values")
    ew = elementwise(v) if v is not None else None
    good = False
    if ew is not None and len(ew[1]) == 1:
        (var, src), = ew[1].items()
        good = dotted(src) in ("self.positions", "self._positions") and isinstance(ew[0], ast.Tuple) and [
            ast.unparse(_strip_cast(x)) for x in ew[0].elts] == [f"{var}[0]", f"{var}[1]"]
    ctx.check(good, "R-SCANAXIS", f"{f.qualname}:PositionsAxis", f.loc(calls[0]),
              "values == ((p[0], p[1]) for p in self.positions)",
              f"axis values `{norm_text(v)[:80] if v is not None else 'missing'}` are not the scan's own (x, y) positions",
              key_detail="custom")

    la = repo.method("abtem.core.axes", "LinearAxis", "coordinates")
    n_param = la.positional_params[1]
    rets = [st for st in walk_no_nested(la.node) if isinstance(st, ast.Return) and st.value is not None]
    ctx.require(len(rets) == 1, "LinearAxis.coordinates: expected one return")
    val = _strip_seq(rets[0].value)
    nz = Normalizer(identity_calls={"tuple"})
    O, S, N = Poly.atom("self.offset"), Poly.atom("self.sampling"), Poly.atom(n_param)
    good, got_txt = False, norm_text(val)[:80]
    if isinstance(val, ast.Call) and (call_name(val) or "").split(".")[-1] == "linspace":
        b = {p: a for p, a in zip(("start", "stop", "num"), val.args)}
        b.update({k.arg: k.value for k in val.keywords if k.arg})
        ep = b.get("endpoint")
        if {"start", "stop", "num"} <= set(b):
            a0, a1, a2 = nz.norm(b["start"]), nz.norm(b["stop"]), nz.norm(b["num"])
            if isinstance(ep, ast.Constant) and ep.value is False:
                good = a0 == O and (a1 - a0) == S * N and a2 == N
            elif ep is None or (isinstance(ep, ast.Constant) and ep.value is True):
                good = a0 == O and (a1 - a0) == S * (N - Poly.const(1)) and a2 == N
    else:
        p = nz.norm(val)
        good = any(p == nz.norm(expr(f"self.offset + self.sampling * {m}.arange({n_param})")) for m in ("np", "xp"))
    ctx.check(good, "R-SCANAXIS", f"{la.qualname}", la.loc(rets[0]), "coordinates == offset + sampling*i, i < n",
              f"`{got_txt}` is not the ramp offset + sampling*i (i = 0..n-1)", key_detail="coordinates")


def _strip_cast(e: ast.expr) -> ast.expr:
    while isinstance(e, ast.Call) and call_name(e) in ("float", "int", "np.float32", "np.float64") and len(e.args) == 1:
        e = e.args[0]
    return e


# ---------------------------------------------------------------------------------------------
def _kernel(ctx, repo) -> None:
    f = repo.method(SCAN, "BaseScan", "_evaluate_kernel")
    wparam = f.positional_params[1]
    df = DataFlow(f.node)
    calls = [c for c in walk_no_nested(f.node) if isinstance(c, ast.Call) and call_name(c) == "fft_shift_kernel"]
    ctx.require(len(calls) == 1, "BaseScan._evaluate_kernel: expected one fft_shift_kernel call")
    c = calls[0]
    k = repo.function(FFT, "fft_shift_kernel")
    b = {p: a for p, a in zip(k.positional_params, c.args)}
    b.update({x.arg: x.value for x in c.keywords if x.arg})
    p_pos, p_shape = k.positional_params[:2]
    ctx.require(p_pos in b and p_shape in b, "fft_shift_kernel call does not pass positions and shape")
    at = df.cfg.node_of(enclosing_stmt(f.node, c)).idx
    nz = FlowNormalizer(df, at, identity_calls={"xp.asarray", "np.asarray", "np.array", "xp.array"})
    got = nz.norm(b[p_pos])
    samp_atoms = [a for a in got.atoms() if a in (f"{wparam}.sampling", f"{wparam}._valid_sampling",
                                                   f"{wparam}.grid.sampling")]
    pos_atoms = [a for a in got.atoms() if "get_positions(" in a]
    good = len(samp_atoms) == 1 and len(pos_atoms) == 1 and got == Poly.atom(pos_atoms[0]) * Poly.atom(
        samp_atoms[0]).inverse()
    ctx.check(good, "R-KERNEL", f"{f.qualname}:positions", f.loc(c),
              f"positions handed to the kernel == {got.key()}",
              f"positions handed to fft_shift_kernel are {got.key()}; the kernel works in pixel units "
              f"(unit-sampling frequencies), so they must be get_positions()/{wparam}.sampling", key_detail="pixel-units")
    shp = nz.norm(b[p_shape])
    ok_shape = shp in (Poly.atom(f"{wparam}._valid_gpts"), Poly.atom(f"{wparam}.gpts"), Poly.atom(f"{wparam}.grid.gpts"))
    ctx.check(ok_shape, "R-KERNEL", f"{f.qualname}:shape", f.loc(c), f"shape == {shp.key()}",
              f"kernel shape is {shp.key()}, not the waves' gpts", key_detail="shape")

    # ---- fft_shift_kernel
    dfk = DataFlow(k.node)
    sf = [x for x in walk_no_nested(k.node) if isinstance(x, ast.Call) and call_name(x) == "spatial_frequencies"]
    ctx.require(len(sf) == 1, "fft_shift_kernel: expected one spatial_frequencies call")
    sfun = repo.function("abtem.core.grid", "spatial_frequencies")
    sb = {p: a for p, a in zip(sfun.positional_params, sf[0].args)}
    sb.update({x.arg: x.value for x in sf[0].keywords if x.arg})
    g_arg, s_arg = sb.get(sfun.positional_params[0]), sb.get(sfun.positional_params[1])
    ctx.require(g_arg is not None and s_arg is not None, "spatial_frequencies call lacks gpts/sampling")
    s_arg_r = _resolve(dfk, s_arg, dfk.cfg.node_of(enclosing_stmt(k.node, sf[0])).idx)
    unit = False
    if isinstance(s_arg_r, ast.BinOp) and isinstance(s_arg_r.op, ast.Mult):
        for seq in (s_arg_r.left, s_arg_r.right):
            if isinstance(seq, (ast.Tuple, ast.List)) and len(seq.elts) == 1 and isinstance(seq.elts[0], ast.Constant) \
                    and seq.elts[0].value == 1:
                unit = True
    elif isinstance(s_arg_r, (ast.Tuple, ast.List)) and s_arg_r.elts and all(
            isinstance(e, ast.Constant) and e.value == 1 for e in s_arg_r.elts):
        unit = True
    ctx.check(unit and dotted(g_arg) == p_shape, "R-KERNEL", f"{k.qualname}:frequencies", k.loc(sf[0]),
              f"frequencies == spatial_frequencies({p_shape}, unit sampling)",
              f"`{norm_text(sf[0])[:80]}`: the frequencies are not cycles per pixel of the `{p_shape}` argument, while "
              "positions arrive in pixels", key_detail="unit-sampling")
    ces = [x for x in walk_no_nested(k.node) if isinstance(x, ast.Call) and call_name(x) == "complex_exponential"]
    ctx.require(len(ces) >= 1, "fft_shift_kernel: no complex_exponential call")
    # the variable holding the frequencies
    sf_stmt = enclosing_stmt(k.node, sf[0])
    ctx.require(isinstance(sf_stmt, ast.Assign) and isinstance(sf_stmt.targets[0], ast.Name),
                "fft_shift_kernel: frequencies are not bound to a variable")
    kvar = sf_stmt.targets[0].id
    for ce in ces:
        st = enclosing_stmt(k.node, ce)
        at = dfk.cfg.node_of(st).idx
        loops = enclosing_loops(k.node, ce)
        ctx.require(bool(loops) and isinstance(loops[-1].target, ast.Name), "fft_shift_kernel: phase not built per dimension")
        i = loops[-1].target.id
        nzk = FlowNormalizer(dfk, at, identity_calls=EXPAND_IDENTITY)
        nzk.no_inline |= {kvar, p_pos}
        got = nzk.norm(ce.args[0])
        want = nzk.norm(expr(f"-2 * np.pi * {kvar}[{i}] * {p_pos}[..., {i}]"))
        ctx.check(got == want, "R-KERNEL", f"{k.qualname}:phase", k.loc(ce), f"phase == {got.key()}",
                  f"shift phase is {got.key()}, expected {want.key()} = -2*pi*k_i*x_i of the same dimension i (shift "
                  "theorem, numpy's forward FFT sign)", key_detail="phase")
    # ---- complex_exponential == exp(+i x)
    cm = repo.module("abtem.core.complex")
    n_exp = 0
    for fname in ("_complex_exponential", "complex_exponential"):
        if fname not in cm.functions:
            continue
        fe = cm.functions[fname]
        x = fe.positional_params[0]
        for st in walk_no_nested(fe.node):
            if not (isinstance(st, ast.Return) and st.value is not None):
                continue
            v = st.value
            txt = ast.unparse(v)
            if not any(t in txt for t in ("cos(", "sin(", ".exp(")):
                continue
            n_exp += 1
            p = Normalizer().norm(v)
            cands = []
            for mod in ("np", "cp", "xp", "math", "cmath"):
                cands.append(Normalizer().norm(expr(f"{mod}.cos({x}) + 1j * {mod}.sin({x})")))
                cands.append(Normalizer().norm(expr(f"{mod}.exp(1j * {x})")))
            ctx.check(p in cands, "R-KERNEL", f"{fe.qualname}:sign", fe.loc(st), f"returns {p.key()} == exp(+i*x)",
                      f"complex_exponential returns {p.key()}, not cos(x) + i*sin(x): the shift direction flips",
                      key_detail="expsign")
    ctx.require(n_exp >= 1, "complex_exponential: no cos/sin/exp return found")


# =============================================================================================
# ---- added after the mutation sweep (round 4): how the coordinate vectors are assembled into positions,
# ---- the axis layout of the shift kernel, and the emptiness guards
_inner_run_c20 = run


def _derives_from(f: FuncInfo, df: DataFlow, st: ast.stmt, value: ast.expr, pred) -> bool:
    """Does `value` (evaluated at statement `st`) contain, or depend through local definitions on, a call
    satisfying `pred`?"""
    if any(isinstance(c, ast.Call) and pred(c) for c in ast.walk(value)):
        return True
    sl = df.backward_slice(df.cfg.node_of(st).idx, value)
    for n in sl.def_nodes:
        a = df.cfg.nodes[n].ast
        roots = [a.iter] if isinstance(a, ast.For) else [a] if a is not None else []
        for r in roots:
            if any(isinstance(c, ast.Call) and pred(c) for c in walk_no_nested(r)):
                return True
    return False


def _emptiness(t: ast.expr, is_positions) -> Optional[str]:
    """'empty' / 'nonempty' when the test, if true, says that the position list has no / some members."""
    if isinstance(t, ast.UnaryOp) and isinstance(t.op, ast.Not):
        v = _emptiness(t.operand, is_positions)
        return None if v is None else ("nonempty" if v == "empty" else "empty")

    def count(e: ast.expr) -> bool:
        if isinstance(e, ast.Call) and call_name(e) == "len" and len(e.args) == 1:
            return is_positions(e.args[0])
        if isinstance(e, ast.Attribute) and e.attr == "size":
            return is_positions(e.value)
        if isinstance(e, ast.Subscript) and isinstance(e.value, ast.Attribute) and e.value.attr == "shape" and \
                isinstance(e.slice, ast.Constant) and e.slice.value == 0:
            return is_positions(e.value.value)
        return False

    if count(t):
        return "nonempty"
    if isinstance(t, ast.Compare) and len(t.ops) == 1:
        a, op, b = t.left, t.ops[0], t.comparators[0]
        if count(b) and isinstance(a, ast.Constant):
            flip = {ast.Lt: ast.Gt, ast.Gt: ast.Lt, ast.LtE: ast.GtE, ast.GtE: ast.LtE}
            a, b, op = b, a, flip.get(type(op), type(op))()
        if count(a) and isinstance(b, ast.Constant) and isinstance(b.value, int) and not isinstance(b.value, bool):
            c = b.value
            if isinstance(op, ast.Eq) and c == 0 or isinstance(op, ast.Lt) and c == 1 or isinstance(op, ast.LtE) and c == 0:
                return "empty"
            if isinstance(op, ast.NotEq) and c == 0 or isinstance(op, ast.Gt) and c == 0 or isinstance(op, ast.GtE) and c == 1:
                return "nonempty"
    return None


def _nonempty_guard(ctx, f: FuncInfo, produces, is_positions, what: str, fallback: str) -> int:
    """Every `return` of `f` whose value does not come from `produces` is taken only when there are no positions."""
    from .c18 import enclosing_tests

    df = DataFlow(f.node)
    rets = [st for st in walk_no_nested(f.node) if isinstance(st, ast.Return)]
    ctx.require(bool(rets), f"{f.qualname}: no return statement")
    full = [st for st in rets if st.value is not None and _derives_from(f, df, st, st.value, produces)]
    ctx.require(bool(full), f"{f.qualname}: no return value is produced by {what}")
    n = 0
    for st in full:
        conds = enclosing_tests(f.node, st)
        bad = [t for t, br in conds if (_emptiness(t, is_positions), br) in (("empty", True), ("nonempty", False))]
        n += 1
        ctx.check(not bad, "R-NONEMPTY", f"{f.qualname}:result", f.loc(st),
                  f"the result built by {what} is returned whenever there are positions",
                  f"the result built by {what} is returned only inside a guard (`{norm_text(bad[0])[:50] if bad else ''}`) "
                  "that holds for an empty position list: a scan with positions never gets it", key_detail="result")
    k = 0
    for st in rets:
        if st in full:
            continue
        conds = enclosing_tests(f.node, st)
        # an `if` without else that ends in a return guards everything after it: collect those too
        pol = [(_emptiness(t, is_positions), br) for t, br in conds]
        k += 1
        if any(p in (("empty", True), ("nonempty", False)) for p in pol):
            ctx.ok("R-NONEMPTY", f"{f.qualname}:fallback#{k}", f.loc(st), f"{fallback} only without positions")
        elif any(p[0] is not None for p in pol) or not conds:
            ctx.violation("R-NONEMPTY", f"{f.qualname}:fallback#{k}", f.loc(st),
                          f"`{norm_text(st)[:60]}` ({fallback}) is returned although the scan has positions: the "
                          f"guard around it is true for a non-empty position list, so {what} is never reached for them",
                          key_detail="fallback")
        else:
            raise AnalysisError(f"{f.qualname}: `{norm_text(st)[:50]}` is guarded by "
                                f"`{norm_text(conds[-1][0])[:50]}`, which is not a test of the number of positions")
    return n + k


def _real_dtype(e: ast.expr) -> Optional[bool]:
    if isinstance(e, ast.Call) and (call_name(e) or "").split(".")[-1] == "get_dtype":
        c = kw(e, "complex") if kw(e, "complex") is not None else (e.args[0] if e.args else None)
        if c is None:
            return None
        if isinstance(c, ast.Constant) and isinstance(c.value, bool):
            return not c.value
        return None
    d = dotted(e) or (e.value if isinstance(e, ast.Constant) and isinstance(e.value, str) else None)
    if d is not None:
        d = d.split(".")[-1]
        if d in ("float", "float32", "float64", "float16", "double", "single"):
            return True
        if d in ("complex", "complex64", "complex128", "cfloat", "cdouble", "csingle"):
            return False
    return None


class _ScanHooks:
    """Leaves of the layout interpretation of a scan's get_positions()."""

    def __init__(self, cls: ClassInfo, vector_gpts: bool):
        from ..rules import axislayout as L

        self.L, self.cls, self.vector = L, cls, vector_gpts

    def _field(self, q: str):
        L = self.L
        two = q in ("start", "end") or self.vector
        if two:
            return tuple(L.Sc(Poly.atom(f"{q}{i}")) for i in range(2))
        return L.Sc(Poly.atom(q))

    def name(self, ident, interp):
        if ident == "cp":
            return None
        return NotImplemented

    def attr(self, base, attr, interp):
        L = self.L
        if isinstance(base, L.Obj) and base.tag == "self":
            q = attr.lstrip("_")
            if q in ("start", "end", "gpts", "endpoint") and (attr == q or attr == "_" + q):
                return self._field(q)
            g = self.cls.find_method(attr, "getter")
            if g is not None and g.is_property:
                r = interp.run(g.body, {g.positional_params[0]: base})
                if r is not None and r[0] == "return":
                    return r[1]
        return NotImplemented

    def call(self, fname, args, kwargs, node, interp):
        L = self.L
        short = fname.split(".")[-1]
        if short == "get_dtype":
            return L.OPAQUE
        if short == "linspace":
            b = dict(zip(("start", "stop", "num"), args))
            b.update(kwargs)
            if not all(k in b and isinstance(b[k], L.Sc) for k in ("start", "stop", "num")):
                raise AnalysisError(f"{self.cls.name}: linspace(start, stop, num) over something other than the scan's "
                                    f"scalar parameters")
            num = b["num"].poly.key()
            lab = {"1*gpts0": "g0", "1*gpts1": "g1", "1*gpts": "t"}.get(num)
            if lab is None:
                raise AnalysisError(f"{self.cls.name}: the number of samples `{num}` is not the scan's gpts")
            return L.LA((lab,), _lin_atom(b["start"].poly, b["stop"].poly, b["num"].poly))
        return NotImplemented


def _lin_atom(s: Poly, e: Poly, n: Poly) -> Poly:
    k = lambda p: p.key().replace("1*", "")
    return Poly.atom(f"lin({k(s)},{k(e)},{k(n)})")


def _positions_layout(ctx, repo, line: ClassInfo, grid: ClassInfo) -> None:
    from ..rules import axislayout as L
    from ..rules.absint import DomainError

    A = Poly.atom
    cases = [
        (grid, True, ("g0", "g1", L.COMP), (_lin_atom(A("start0"), A("end0"), A("gpts0")),
                                            _lin_atom(A("start1"), A("end1"), A("gpts1"))),
         "positions[i, j] == (x_i, y_j): axes (x, y, component), component order (x, y)"),
        (line, False, ("t", L.COMP), (_lin_atom(A("start0"), A("end0"), A("gpts")),
                                      _lin_atom(A("start1"), A("end1"), A("gpts"))),
         "positions[k] == (x_k, y_k): axes (point, component), component order (x, y)"),
    ]
    for cls, vec, axes, val, txt in cases:
        f = cls.own_method("get_positions")
        ctx.require(f is not None, f"{cls.name}.get_positions not found")
        it = L.LayoutInterp(_ScanHooks(cls, vec), {"g0": 3, "g1": 5, "t": 7})
        want = L.LA(axes, val)
        env = {f.positional_params[0]: L.Obj("self")}
        for p, d in f.defaults().items():
            env[p] = d.value if isinstance(d, ast.Constant) else L.OPAQUE
        try:
            r = it.run(f.body, env)
        except DomainError as e:
            ctx.violation("R-POSITIONS", f"{f.qualname}:layout", f.loc(e.node) if e.node is not None else f.where,
                          f"assembling the positions fails for a {cls.name} with defined start/end/gpts: {e}",
                          key_detail="layout")
            continue
        except L.Raises as e:
            ctx.violation("R-POSITIONS", f"{f.qualname}:layout", f.where,
                          f"get_positions() raises {e.name} for a {cls.name} with defined start, end and gpts",
                          key_detail="layout")
            continue
        got = r[1] if r is not None and r[0] == "return" else None
        if not isinstance(got, L.LA):
            raise AnalysisError(f"{f.qualname}: the layout interpreter did not reach an array result")
        ctx.check(it.same(got, want), "R-POSITIONS", f"{f.qualname}:layout", f.where, txt,
                  f"get_positions() returns an array with {L.describe(got)}; expected {L.describe(want)} "
                  f"({txt}; g0/g1 = grid axes of x/y, t = point index, C = component axis)", key_detail="layout")


class _KernelHooks:
    def __init__(self):
        from ..rules import axislayout as L

        self.L = L

    def name(self, ident, interp):
        if ident == "cp":
            return None
        return NotImplemented

    def attr(self, base, attr, interp):
        return NotImplemented

    def call(self, fname, args, kwargs, node, interp):
        L = self.L
        short = fname.split(".")[-1]
        if short == "get_array_module":
            return L.MOD
        if short == "get_dtype":
            return L.OPAQUE
        if short == "complex_exponential" and len(args) == 1:
            return interp.exp(args[0])
        if short == "spatial_frequencies":
            b = dict(zip(("gpts", "sampling"), args))
            b.update(kwargs)
            g, s = b.get("gpts"), b.get("sampling")
            if not (isinstance(g, (tuple, list)) and isinstance(s, (tuple, list))) or b.get("return_grid"):
                raise AnalysisError("fft_shift_kernel: spatial_frequencies(gpts, sampling) with non-sequence arguments")
            out = []
            for n_, _ in zip(g, s):
                lab = interp.label_of_size(n_, node)
                out.append(L.LA((lab,), Poly.atom(f"f[{lab}]")))
            return tuple(out)
        return NotImplemented


def _kernel_layout(ctx, repo) -> None:
    from ..rules import axislayout as L
    from ..rules.absint import DomainError

    k = repo.function(FFT, "fft_shift_kernel")
    p_pos, p_shape = k.positional_params[:2]
    sizes = {"b0": 3, "b1": 5, "s0": 7, "s1": 11}
    A = Poly.atom
    for n in (1, 2, 0):
        batch = tuple(f"b{j}" for j in range(n))
        it = L.LayoutInterp(_KernelHooks(), sizes)
        pos = L.LA(batch + (L.COMP,), (A("p0"), A("p1")))
        expo = Poly.const(-2) * A("π") * (A("f[s0]") * A("p0") + A("f[s1]") * A("p1"))
        want = it.exp(L.LA(batch + ("s0", "s1"), expo))
        cname = f"{k.qualname}:layout:{n} batch axes"
        txt = (f"for positions of shape ({', '.join(batch + ('2',))}) the kernel has axes ({', '.join(want.axes)}) "
               f"and equals exp(-2πi(k_x·x + k_y·y))")
        try:
            r = it.run(k.body, {p_pos: pos, p_shape: (sizes["s0"], sizes["s1"])})
        except DomainError as e:
            ctx.violation("R-KERNELAXES", cname, k.loc(e.node) if e.node is not None else k.where,
                          f"building the shift kernel for positions of shape ({', '.join(batch + ('2',))}) and a "
                          f"{sizes['s0']}x{sizes['s1']} grid fails: {e}", key_detail=f"n{n}")
            continue
        got = r[1] if r is not None and r[0] == "return" else None
        if not isinstance(got, L.LA):
            raise AnalysisError(f"{k.qualname}: the layout interpreter did not reach an array result")
        ctx.check(it.same(got, want), "R-KERNELAXES", cname, k.where, txt,
                  f"for positions of shape ({', '.join(batch + ('2',))}) the kernel comes out with "
                  f"{L.describe(got)[:300]}; expected axes ({', '.join(want.axes)}) holding "
                  f"exp(-2π(f[s0]·p0 + f[s1]·p1)) (b = position axes, s0/s1 = grid axes, p0/p1 = x/y of the position)",
                  key_detail=f"n{n}")


def run(ctx) -> None:  # noqa: F811
    ctx.rule("R-POSITIONS", "get_positions() assembles the per-axis coordinate vectors into a position list with the "
             "documented layout: GridScan positions[i, j] == (x_i, y_j) — grid axes in the order (x, y), the (x, y) pair "
             "on the last axis — and LineScan positions[k] == (x_k, y_k); decided by executing the assembly code "
             "(meshgrid / stack / reshape / transposes and the python control flow around them) over labelled axes "
             "(sa/rules/axislayout.py) for a scan with defined start, end and gpts.  A different stacking axis, "
             "meshgrid indexing or a guard that returns a single coordinate vector hands the probe builder and the "
             "measurement axes positions that are not the lattice start + (i, j)*sampling")
    ctx.rule("R-KERNELAXES", "fft_shift_kernel places the position axes first and the grid axes last and multiplies "
             "one phase ramp per dimension: executed over labelled axes for 0, 1 and 2 position axes the result has "
             "axes (positions..., kx, ky) and equals exp(-2πi Σ_d k_d x_d) — the ramp of dimension d depends on "
             "component d of the position only and varies along grid axis d only, every dimension occurs exactly once "
             "(products of exponentials are compared by their summed exponents)")
    ctx.rule("R-NONEMPTY", "the early exits for a scan without positions are taken only then: in "
             "BaseScan._evaluate_kernel every return whose value does not come from fft_shift_kernel, and in "
             "CustomScan.ensemble_axes_metadata every return that lists no PositionsAxis, is guarded by a test that is "
             "true only for an empty position list (len(...) == 0 and its equivalents); the full result is not guarded "
             "by emptiness")
    ctx.rule("R-REALCOORD", "scan coordinates are real numbers: a dtype handed to the coordinate-generating linspace "
             "calls of GridScan/LineScan is a real floating type (get_dtype(complex=False) or a float type)")
    repo = ctx.repo
    line = repo.cls(SCAN, "LineScan")
    grid = repo.cls(SCAN, "GridScan")
    pending: list[AnalysisError] = []
    for step in (lambda: _positions_layout(ctx, repo, line, grid), lambda: _kernel_layout(ctx, repo),
                 lambda: _guards(ctx, repo), lambda: _real_coords(ctx, [line, grid])):
        try:
            step()
        except AnalysisError as e:
            pending.append(e)
    _inner_run_c20(ctx)
    if pending:
        raise pending[0]


def _guards(ctx, repo) -> None:
    f = repo.method(SCAN, "BaseScan", "_evaluate_kernel")
    df = DataFlow(f.node)

    from ..cfg import uses_of

    derived: set[str] = set()
    changed = True
    while changed:
        changed = False
        for d in df.defs:
            if d.value is None or d.var in derived:
                continue
            if any(isinstance(c, ast.Call) and call_name(c) == "self.get_positions" for c in ast.walk(d.value)) or \
                    uses_of(d.value) & derived:
                derived.add(d.var)
                changed = True

    def is_pos(e: ast.expr) -> bool:
        # the value of self.get_positions(), directly or through locals
        if isinstance(e, ast.Name):
            return e.id in derived
        return isinstance(e, ast.Call) and call_name(e) == "self.get_positions"

    n = _nonempty_guard(ctx, f, lambda c: call_name(c) == "fft_shift_kernel", is_pos, "fft_shift_kernel",
                        "the identity kernel")
    cs = repo.cls(SCAN, "CustomScan")
    g = cs.own_method("ensemble_axes_metadata", "getter")
    ctx.require(g is not None, "CustomScan.ensemble_axes_metadata not found")
    n += _nonempty_guard(ctx, g, lambda c: call_name(c) == "PositionsAxis",
                         lambda e: dotted(e) in ("self.positions", "self._positions"), "PositionsAxis",
                         "an empty axes list")
    ctx.require(n >= 4, f"R-NONEMPTY examined only {n} returns")


def _real_coords(ctx, classes: list[ClassInfo]) -> None:
    n = 0
    for c in classes:
        for defs in c.methods.values():
            for f in defs:
                for call in [x for x in walk_no_nested(f.node) if isinstance(x, ast.Call) and (
                        call_name(x) or "").split(".")[-1] == "linspace"]:
                    d = kw(call, "dtype")
                    if d is None or not any(ALIAS.get(dotted(x) or "") in ("start", "end") for a in call.args[:2]
                                            for x in ast.walk(a)) and not any(
                            isinstance(x, ast.Name) and x.id in ("start", "end") for a in call.args[:2] for x in ast.walk(a)):
                        continue
                    r = _real_dtype(d)
                    if r is None:
                        raise AnalysisError(f"{f.qualname}: dtype `{norm_text(d)[:40]}` of a coordinate linspace is not "
                                            "recognised")
                    n += 1
                    used = sum(1 for x in walk_no_nested(f.node) if isinstance(x, ast.Call) and (
                        call_name(x) or "").split(".")[-1] == "linspace" and x.lineno <= call.lineno)
                    ctx.check(r, "R-REALCOORD", f"{f.qualname}:linspace#{used}", f.loc(call),
                              "coordinates are generated with a real dtype",
                              f"`dtype={norm_text(d)}`: the scan coordinates are generated as complex numbers",
                              key_detail="dtype")
    ctx.require(n >= 4, f"R-REALCOORD matched only {n} coordinate linspace calls with a dtype")
