"""C03 — parameter ensembles decompose into individual simulations (order / arity clauses)."""
from __future__ import annotations

import ast
from typing import Optional

from ..cfg import DataFlow
from ..model import (AnalysisError, ClassInfo, FuncInfo, NotConstant, call_name, dotted, fold_constant,
                     module_constants, norm_text, walk_no_nested)
from ..rules import recon

POLAR = "<polar>"
DIST = "abtem.distributions"


def _collapse(names, polar: set[str]) -> list[str]:
    out: list[str] = []
    for n in names:
        t = POLAR if n in polar else n
        if not out or out[-1] != t or t != POLAR:
            out.append(t)
    return out


def _distributions_literal(repo, k: ClassInfo, consts: dict) -> Optional[list[str]]:
    """The tuple passed as `distributions=` along K's executed constructor chain."""
    chain = repo.init_chain(k)
    for i, f in enumerate(chain):
        for c in walk_no_nested(f.node):
            if isinstance(c, ast.Call) and isinstance(c.func, ast.Attribute) and c.func.attr == "__init__":
                for kw in c.keywords:
                    if kw.arg == "distributions":
                        v = kw.value
                        if isinstance(v, ast.Name):
                            if v.id in f.params:
                                continue  # forwarded from the subclass: already seen there
                            defs = [st.value for st in walk_no_nested(f.node) if isinstance(st, ast.Assign)
                                    and any(isinstance(t, ast.Name) and t.id == v.id for t in st.targets)]
                            if len(defs) != 1:
                                raise AnalysisError(f"{f.qualname}: `distributions` has {len(defs)} definitions")
                            v = defs[0]
                        try:
                            val = fold_constant(v, consts)
                        except (NotConstant, Exception) as e:
                            raise AnalysisError(f"{f.qualname}: distributions tuple is not a literal ({e})")
                        return list(val)
    return None


def _attr_token(e: ast.AST) -> Optional[str]:
    """First `self.<name>` mentioned in e."""
    for n in ast.walk(e):
        if isinstance(n, ast.Attribute) and isinstance(n.value, ast.Name) and n.value.id == "self":
            return n.attr.lstrip("_")
    return None


def _component_class(repo, k: ClassInfo, prop: str) -> Optional[ClassInfo]:
    f = k.find_method(prop)
    if f is None:
        return None
    for r in walk_no_nested(f.node):
        if isinstance(r, ast.Return) and isinstance(r.value, ast.Call):
            t = repo.resolve_name(f.module, dotted(r.value.func) or "")
            if isinstance(t, ClassInfo):
                return t
    return None


def _meta_tokens(repo, k: ClassInfo, depth: int = 0) -> list[tuple[str, ast.AST]]:
    """Distribution names in the order K.ensemble_axes_metadata lists their axes: (token, node)."""
    f = k.find_method("ensemble_axes_metadata")
    if f is None or depth > 3:
        return []
    out: list[tuple[str, ast.AST]] = []
    nodes = [n for n in walk_no_nested(f.node) if isinstance(n, (ast.Call, ast.Attribute))]
    nodes.sort(key=lambda n: (n.lineno, n.col_offset))
    seen_calls: list[ast.Call] = []
    for n in nodes:
        if any(n is not c and any(x is n for x in ast.walk(c)) for c in seen_calls):
            continue  # nested inside an axis constructor already handled
        if isinstance(n, ast.Call):
            cn = call_name(n) or ""
            if cn.split(".")[-1].endswith("Axis"):
                vals = next((kw.value for kw in n.keywords if kw.arg == "values"), None)
                tok = _attr_token(vals) if vals is not None else None
                if tok:
                    out.append((tok, n))
                seen_calls.append(n)
            elif cn == "self._get_axes_metadata_from_distributions":
                for kw in n.keywords:
                    if kw.arg:
                        out.append((kw.arg, n))
                seen_calls.append(n)
        elif isinstance(n, ast.Attribute) and isinstance(n.value, ast.Name) and n.value.id == "self":
            if n.attr == "_phase_aberrations_ensemble_axes_metadata":
                out.append((POLAR, n))
        elif isinstance(n, ast.Attribute) and n.attr == "ensemble_axes_metadata" and isinstance(n.value, ast.Attribute) \
                and isinstance(n.value.value, ast.Name) and n.value.value.id == "self":
            comp = _component_class(repo, k, n.value.attr)
            if comp is not None:
                out += [(t, n) for t, _ in _meta_tokens(repo, comp, depth + 1)]
    return out


def _unpack_tokens(f: FuncInfo) -> Optional[list[str]]:
    """Names, in order, that a kernel passes to _unpack_distributions."""
    calls = [c for c in walk_no_nested(f.node) if isinstance(c, ast.Call) and call_name(c) == "_unpack_distributions"]
    if not calls:
        return None
    if len(calls) != 1:
        raise AnalysisError(f"{f.qualname}: several _unpack_distributions calls")
    c = calls[0]
    assigns = {st.targets[0].id: st.value for st in walk_no_nested(f.node)
               if isinstance(st, ast.Assign) and len(st.targets) == 1 and isinstance(st.targets[0], ast.Name)}

    def flat(e) -> list[str]:
        if isinstance(e, ast.Starred):
            return flat(e.value)
        if isinstance(e, ast.Name) and e.id in assigns:
            return flat(assigns[e.id])
        if isinstance(e, ast.BinOp) and isinstance(e.op, ast.Add):
            return flat(e.left) + flat(e.right)
        if isinstance(e, (ast.Tuple, ast.List)):
            return [t for x in e.elts for t in flat(x)]
        if isinstance(e, ast.Call) and call_name(e) in ("tuple", "list") and e.args:
            return flat(e.args[0])
        if isinstance(e, ast.Call) and isinstance(e.func, ast.Attribute) and e.func.attr == "values":
            d = dotted(e.func.value)
            if d in ("self.aberration_coefficients", "self._aberration_coefficients"):
                return [POLAR]
        d = dotted(e)
        if d and d.startswith("self."):
            return [d.split(".", 1)[1].lstrip("_")]
        raise AnalysisError(f"{f.qualname}: cannot read _unpack_distributions argument {norm_text(e)}")

    return [t for a in c.args for t in flat(a)]


def run(ctx) -> None:
    repo = ctx.repo
    ctx.rule("R-ORDER", "for every ensemble built from distributions the order of names in its `distributions` tuple "
             "(which fixes ensemble_shape, the partition order and the rebuild keys) equals the order in which its "
             "kernel passes them to _unpack_distributions (which fixes the array axes) and the order of its "
             "ensemble_axes_metadata entries; a CTF composes its components in the order of its distribution groups")
    ctx.rule("R-VALUES", "an ensemble axis lists the distribution's own values in order (tuple(self.<d>.values) / "
             "tuple(self.<d>)), not weights and not a sorted or reversed copy")
    ctx.rule("R-UNPACK", "_unpack_distributions: every argument contributes exactly one unpacked entry; the i-th "
             "distribution gets the new axis i (tuple_range_except(num_new_axes, i) + base_axes), the counter advances "
             "only on distributions, values and weights are expanded with the same axes, weights are multiplied")
    ctx.rule("R-KEYS", "EnsembleFromDistributions partitions and rebuilds in one order: _partition_args and "
             "_from_partitioned_args both iterate self._distribution_properties, which filters self._distributions in "
             "order; _partial_transform zips keys with args and overrides the copied kwargs")
    ctx.rule("R-DISTNAMES", "every name in a `distributions` tuple is accepted by the class's constructor (named "
             "parameter or **kwargs) and readable on instances")
    ctx.undecided("that member i equals the scalar run numerically; weighted means; scan positions (C20)")

    consts = module_constants(repo.module("abtem.transfer"))
    ctx.require("polar_symbols" in consts, "polar_symbols is not a foldable literal")
    polar = set(consts["polar_symbols"].keys())
    base = repo.cls(DIST, "EnsembleFromDistributions")
    classes = [c for c in recon.concrete_classes(repo) if base in c.mro()]
    ctx.require(len(classes) >= 12, f"only {len(classes)} concrete EnsembleFromDistributions subclasses found")

    n_order = 0
    for k in sorted(classes, key=lambda c: c.qualname):
        dist = _distributions_literal(repo, k, consts)
        if dist is None:
            ctx.info("R-ORDER", k.qualname, k.where, "no `distributions=` along the constructor chain")
            continue
        dtok = _collapse(dist, polar)
        # ---- R-DISTNAMES
        params = recon.ctor_params(repo, k) or []
        init = k.find_method("__init__")
        has_kw = init is not None and init.has_varkw
        resolvable = repo.getattr_resolvable(k)
        dyn = repo.has_dynamic_getattr(k) is not None
        bad = [d for d in dist if not ((d in params or has_kw) and (d in resolvable or dyn))]
        if dist:
            ctx.check(not bad, "R-DISTNAMES", k.qualname, k.where, f"{len(dist)} distribution names are constructor "
                      "parameters and attributes", f"distribution names {bad} of {k.name} are not constructor "
                      "parameters / attributes: blocks cannot be rebuilt with their slice of the distribution",
                      key_detail="names")
        # ---- kernel order
        kernel = None
        for mname in ("_evaluate_from_angular_grid", "_evaluate_kernel", "_calculate_new_array"):
            f = k.find_method(mname)
            if f is not None and not f.is_abstract:
                toks = _unpack_tokens(f)
                if toks is not None:
                    kernel = (f, toks)
                    break
        if kernel is not None:
            f, toks = kernel
            want = [t for t in dtok if t in toks]
            n_order += 1
            ctx.check(toks == want and set(toks) <= set(dtok), "R-ORDER", f"{k.qualname}:kernel", f.where,
                      f"kernel unpacks {toks} in the order of `distributions`",
                      f"{f.short} passes {toks} to _unpack_distributions but `distributions` lists them as "
                      f"{[t for t in dtok if t in toks] or dtok}: array axes and ensemble axes/metadata are permuted",
                      key_detail="kernel")
        # ---- metadata order
        mt = _meta_tokens(repo, k)
        if mt:
            toks = [t for t, _ in mt]
            want = [t for t in dtok if t in toks]
            n_order += 1
            mf = k.find_method("ensemble_axes_metadata")
            ctx.check(toks == want and set(toks) <= set(dtok), "R-ORDER", f"{k.qualname}:metadata", mf.where,
                      f"axes metadata lists {toks} in the order of `distributions`",
                      f"{mf.short} lists axes for {toks} but `distributions` orders them {want or dtok}",
                      key_detail="metadata")
            # ---- R-VALUES
            for tok, node in mt:
                if isinstance(node, ast.Call) and (call_name(node) or "").split(".")[-1].endswith("Axis"):
                    vals = next((kw.value for kw in node.keywords if kw.arg == "values"), None)
                    txt = norm_text(vals)
                    calls = {(call_name(c) or "").split(".")[-1] for c in ast.walk(vals) if isinstance(c, ast.Call)}
                    attrs = {a.attr for a in ast.walk(vals) if isinstance(a, ast.Attribute)}
                    slices = [s for s in ast.walk(vals) if isinstance(s, ast.Subscript)]
                    ok = calls <= {"tuple", "list", "float"} and "weights" not in attrs and not slices
                    ctx.check(ok, "R-VALUES", f"{k.qualname}:{tok}", mf.loc(node),
                              f"axis values = {txt}", f"axis for `{tok}` lists `{txt}`: not the distribution's values "
                              "in order", key_detail=tok)

    # generic metadata helper
    gm = repo.method("abtem.transform", "EnsembleTransform", "_get_axes_metadata_from_distributions", inherited=True)
    pa = [c for c in walk_no_nested(gm.node) if isinstance(c, ast.Call) and (call_name(c) or "").endswith("Axis")]
    ctx.require(len(pa) == 1, "_get_axes_metadata_from_distributions: axis construction not found")
    vals = next((kw.value for kw in pa[0].keywords if kw.arg == "values"), None)
    loops = [l for l in walk_no_nested(gm.node) if isinstance(l, ast.For)]
    ok = False
    if vals is not None and len(loops) == 1 and isinstance(loops[0].iter, ast.Call) and isinstance(
            loops[0].iter.func, ast.Attribute) and loops[0].iter.func.attr == "items" and \
            dotted(loops[0].iter.func.value) == (gm.node.args.kwarg.arg if gm.node.args.kwarg else None):
        # the axis values are tuple(<d>) / tuple(<d>.values) of the distribution looked up by the loop's name
        inner = vals.args[0] if isinstance(vals, ast.Call) and call_name(vals) in ("tuple", "list") and vals.args else None
        if isinstance(inner, ast.Attribute) and inner.attr == "values":
            inner = inner.value
        dvar = dotted(inner) if inner is not None else None
        ddefs = [st.value for st in walk_no_nested(gm.node) if isinstance(st, ast.Assign)
                 and any(dotted(t) == dvar for t in st.targets)]
        namevar = loops[0].target.elts[0].id if isinstance(loops[0].target, ast.Tuple) else None
        ok = (dvar is not None and len(ddefs) == 1 and isinstance(ddefs[0], ast.Call) and call_name(ddefs[0]) == "getattr"
              and len(ddefs[0].args) == 2 and dotted(ddefs[0].args[0]) == "self" and dotted(ddefs[0].args[1]) == namevar)
    ctx.check(ok, "R-VALUES", gm.qualname, gm.where, "axes built in keyword order from the distribution's values",
              "the generic axis builder does not list the distribution's values in keyword order", key_detail="generic")

    # ---- CTF composition
    ctf = repo.cls("abtem.transfer", "CTF")
    ev = ctf.find_method("_evaluate_from_angular_grid")
    comp_calls = []
    for c in walk_no_nested(ev.node):
        if not (isinstance(c, ast.Call) and isinstance(c.func, ast.Attribute)
                and c.func.attr == "_evaluate_from_angular_grid"):
            continue
        recv = c.func.value
        if isinstance(recv, ast.Attribute) and dotted(recv.value) == "self":
            comp_calls.append(((c.lineno, 0), recv.attr))
        elif isinstance(recv, ast.Name):
            # `for factor in factors: factor._evaluate_from_angular_grid(...)`: the components are applied in the
            # order in which they were put into the list (literal elements, then appends in statement order)
            loop = next((l for l in walk_no_nested(ev.node) if isinstance(l, ast.For) and isinstance(l.target, ast.Name)
                         and l.target.id == recv.id and any(x is c for x in ast.walk(l))), None)
            if loop is None or not isinstance(loop.iter, ast.Name):
                raise AnalysisError(f"{ev.qualname}: component call through `{recv.id}` is not a loop over a local list")
            lst, k = loop.iter.id, 0
            for st in walk_no_nested(ev.node):
                if isinstance(st, (ast.Assign, ast.AnnAssign)):
                    tg = st.targets[0] if isinstance(st, ast.Assign) else st.target
                    if dotted(tg) == lst and isinstance(st.value, (ast.List, ast.Tuple)):
                        for e in st.value.elts:
                            if isinstance(e, ast.Attribute) and dotted(e.value) == "self":
                                k += 1
                                comp_calls.append(((c.lineno, k), e.attr))
                if isinstance(st, ast.Expr) and isinstance(st.value, ast.Call) and isinstance(st.value.func, ast.Attribute) \
                        and st.value.func.attr == "append" and dotted(st.value.func.value) == lst and st.value.args:
                    e = st.value.args[0]
                    if isinstance(e, ast.Attribute) and dotted(e.value) == "self":
                        k += 1
                        comp_calls.append(((c.lineno, k), e.attr))
                    else:
                        raise AnalysisError(f"{ev.qualname}: `{norm_text(st)[:50]}` appends something that is not a component")
    comp_calls.sort()
    comp_order = [n for _, n in comp_calls]
    owner = {"_aberrations": POLAR, "_spatial_envelope": "angular_spread", "_temporal_envelope": "focal_spread",
             "_aperture": "semiangle_cutoff"}
    ctx.require(set(comp_order) <= set(owner) and len(comp_order) >= 3, f"CTF components {comp_order} not recognised")
    ctf_dist = _collapse(_distributions_literal(repo, ctf, consts) or [], polar)
    got = [owner[c] for c in comp_order]
    ctx.check(got == [t for t in ctf_dist if t in got], "R-ORDER", f"{ctf.qualname}:composition", ev.where,
              f"components multiplied in the order {got}",
              f"CTF multiplies its components in the order {got} but its distributions are ordered {ctf_dist}",
              key_detail="composition")
    n_order += 1
    # each component property receives the CTF's own parameter of the same name
    for prop, tok in owner.items():
        f = ctf.find_method(prop)
        ctx.require(f is not None, f"CTF.{prop} not found")
        rets = [r for r in walk_no_nested(f.node) if isinstance(r, ast.Return) and isinstance(r.value, ast.Call)]
        ctx.require(len(rets) == 1, f"CTF.{prop}: constructor call not found")
        kws = {kw.arg: kw.value for kw in rets[0].value.keywords if kw.arg}
        want = "aberration_coefficients" if tok == POLAR else tok
        ok = want in kws and dotted(kws[want]) in (f"self.{want}", f"self._{want}")
        if prop == "_spatial_envelope":
            ok = ok and dotted(kws.get("aberration_coefficients")) in ("self.aberration_coefficients",
                                                                     "self._aberration_coefficients")
        ctx.check(ok, "R-ORDER", f"{ctf.qualname}.{prop}", f.where, f"component built from self.{want}",
                  f"CTF.{prop} is not built from the CTF's own `{want}`", key_detail=prop)
    ctx.require(n_order >= 12, f"R-ORDER matched only {n_order} order instances")

    # ---------------- R-UNPACK
    un = repo.function(DIST, "_unpack_distributions")
    vararg = un.node.args.vararg.arg if un.node.args.vararg else "args"
    loops = [l for l in walk_no_nested(un.node) if isinstance(l, ast.For) and norm_text(l.iter) == vararg]
    ctx.require(len(loops) == 1, "_unpack_distributions: loop over args not found")
    loop = loops[0]
    sw = [i for i in loop.body if isinstance(i, ast.If) and "BaseDistribution" in norm_text(i.test)]
    ctx.require(len(sw) == 1, "_unpack_distributions: distribution switch not found")
    neg = isinstance(sw[0].test, ast.UnaryOp) and isinstance(sw[0].test.op, ast.Not)
    plain_arm, dist_arm = (sw[0].body, sw[0].orelse) if neg else (sw[0].orelse, sw[0].body)

    # names are discovered from their roles, not assumed
    ret = [r for r in walk_no_nested(un.node) if isinstance(r, ast.Return) and isinstance(r.value, ast.Tuple)
           and len(r.value.elts) == 2 and not (isinstance(r.value.elts[0], ast.Tuple) and not r.value.elts[0].elts)]
    ctx.require(len(ret) == 1, "_unpack_distributions: final `return unpacked, weights` not found")
    assigns_all = {}
    for st in walk_no_nested(un.node):
        if isinstance(st, ast.Assign) and len(st.targets) == 1 and isinstance(st.targets[0], ast.Name):
            assigns_all.setdefault(st.targets[0].id, []).append(st)
    r0 = ret[0].value.elts[0]
    weights_var = dotted(ret[0].value.elts[1])
    if isinstance(r0, ast.Name) and len(assigns_all.get(r0.id, [])) == 1 and isinstance(
            assigns_all[r0.id][0].value, ast.Call) and call_name(assigns_all[r0.id][0].value) == "tuple":
        r0 = assigns_all[r0.id][0].value.args[0]
    list_var = dotted(r0)
    ctx.require(list_var is not None and weights_var is not None, "_unpack_distributions: result variables not found")
    argvar = loop.target.id if isinstance(loop.target, ast.Name) else None
    ctx.require(argvar is not None, "_unpack_distributions: loop target is not a name")

    def appends(arm):
        return [c for st in arm for c in ast.walk(st) if isinstance(c, ast.Call) and isinstance(c.func, ast.Attribute)
                and c.func.attr == "append" and dotted(c.func.value) == list_var]

    aug = [x for st in dist_arm for x in ast.walk(st) if isinstance(x, ast.AugAssign) and isinstance(x.target, ast.Name)]
    counter = aug[0].target.id if aug else None

    def increments(arm):
        return [x for st in arm for x in ast.walk(st) if isinstance(x, ast.AugAssign) and isinstance(x.target, ast.Name)
                and x.target.id == counter]

    ok = len(appends(plain_arm)) == 1 and len(appends(dist_arm)) == 1
    ctx.check(ok, "R-UNPACK", f"{un.qualname}:arity", un.loc(loop), "one unpacked entry per argument in both arms",
              "an argument does not contribute exactly one unpacked entry: parameters shift against their names",
              key_detail="arity")
    ok = counter is not None and len(increments(dist_arm)) == 1 and len(increments(plain_arm)) == 0 and not any(
        isinstance(st, ast.AugAssign) and isinstance(st.target, ast.Name) and st.target.id == counter
        for st in loop.body)
    ctx.check(ok, "R-UNPACK", f"{un.qualname}:counter", un.loc(loop),
              "axis counter advances once per distribution only",
              "the new-axis counter does not advance exactly once per distribution (and never for scalars)",
              key_detail="counter")
    exp = [c for st in dist_arm for c in ast.walk(st) if isinstance(c, ast.Call) and (call_name(c) or "").endswith(
        "expand_dims")]
    axes_exprs = {norm_text(next((kw.value for kw in c.keywords if kw.arg == "axis"), c.args[1] if len(c.args) > 1 else c))
                  for c in exp}
    axis_var = next(iter(axes_exprs)) if len(axes_exprs) == 1 else None
    axis_assign = [st for st in dist_arm if isinstance(st, ast.Assign) and isinstance(st.targets[0], ast.Name)
                   and st.targets[0].id == axis_var]
    okx = False
    txt = "?"
    if len(axis_assign) == 1 and isinstance(axis_assign[0].value, ast.BinOp) and isinstance(axis_assign[0].value.op, ast.Add):
        l, r = axis_assign[0].value.left, axis_assign[0].value.right
        txt = norm_text(axis_assign[0].value)
        base_var = dotted(r)
        okx = (isinstance(l, ast.Call) and call_name(l) == "tuple_range_except" and len(l.args) == 2
               and dotted(l.args[1]) == counter and base_var is not None)
        nn = dotted(l.args[0]) if okx else None
        bdefs = assigns_all.get(base_var or "", [])
        okb = (len(bdefs) == 1 and norm_text(bdefs[0].value).replace(" ", "") ==
               f"tuple(range({nn},{nn}+len(shape)))")
    else:
        okb = False
    ctx.check(okx, "R-UNPACK", f"{un.qualname}:axis", un.loc(axis_assign[0] if axis_assign else loop),
              "distribution i keeps axis i: expand over tuple_range_except(num_new_axes, i) + base_axes",
              f"axis expression is `{txt}`", key_detail="axis")
    srcs = sorted(norm_text(c.args[0]) for c in exp)
    ok = srcs == [f"{argvar}.values", f"{argvar}.weights"] and len(axes_exprs) == 1
    ctx.check(ok, "R-UNPACK", f"{un.qualname}:values-weights", un.loc(loop),
              "values and weights expanded with the same axes",
              f"expanded {srcs} over {sorted(axes_exprs)}: values and weights are not aligned", key_detail="expand")
    wst = [st for st in dist_arm if isinstance(st, ast.Assign) and isinstance(st.targets[0], ast.Name)
           and st.targets[0].id == weights_var]
    ok = len(wst) == 1 and any(isinstance(b, ast.BinOp) and isinstance(b.op, ast.Mult) and
                               weights_var in (dotted(b.left), dotted(b.right)) and dotted(b.left) != dotted(b.right)
                               for b in ast.walk(wst[0]))
    ctx.check(ok, "R-UNPACK", f"{un.qualname}:weights-product", un.loc(wst[0] if wst else loop),
              "joint weight = product of the distributions' weights",
              "the joint weight is not the product of the individual weights", key_detail="weights")
    ctx.check(okb, "R-UNPACK", f"{un.qualname}:base-axes", un.where, "base axes follow the new ensemble axes",
              "base axes are not placed after the new ensemble axes", key_detail="base")

    # ---------------- R-KEYS
    fpa = base.own_method("_from_partitioned_args")
    pa_ = base.own_method("_partition_args")
    pt = base.own_method("_partial_transform")
    dp = base.own_method("_distribution_properties")
    ctx.require(all(x is not None for x in (fpa, pa_, pt, dp)), "EnsembleFromDistributions partition methods not found")
    def resolve(f, e):
        """Follow single plain assignments of a local name inside f."""
        seen = set()
        while isinstance(e, ast.Name) and e.id not in seen:
            seen.add(e.id)
            defs = [st.value for st in walk_no_nested(f.node) if isinstance(st, ast.Assign)
                    and any(isinstance(t, ast.Name) and t.id == e.id for t in st.targets)]
            if len(defs) != 1:
                break
            e = defs[0]
        return e

    def dict_views(f):
        """(view kind, resolved receiver text) of every .keys()/.values()/.items() in f."""
        out = []
        for c in walk_no_nested(f.node):
            if isinstance(c, ast.Call) and isinstance(c.func, ast.Attribute) and c.func.attr in ("keys", "values", "items"):
                out.append((c.func.attr, norm_text(resolve(f, c.func.value)), c))
        return out

    parts = [c for c in walk_no_nested(fpa.node) if isinstance(c, ast.Call) and call_name(c) in ("partial", "functools.partial")]
    ctx.require(len(parts) == 1, "EnsembleFromDistributions._from_partitioned_args: partial(...) not found")
    kkw = next((kw.value for kw in parts[0].keywords if kw.arg == "keys"), None)
    ctx.require(kkw is not None, "_from_partitioned_args: keys= not passed to the partial")
    kexpr = resolve(fpa, kkw)
    inner = kexpr.args[0] if isinstance(kexpr, ast.Call) and call_name(kexpr) in ("tuple", "list") and kexpr.args else kexpr
    if isinstance(inner, ast.Call) and isinstance(inner.func, ast.Attribute) and inner.func.attr == "keys":
        src_txt = norm_text(resolve(fpa, inner.func.value))
    else:
        src_txt = norm_text(resolve(fpa, inner))
    ordered_ok = not any(isinstance(c, ast.Call) and call_name(c) in ("sorted", "reversed", "set") for c in ast.walk(kexpr))
    ctx.check(src_txt == "self._distribution_properties" and ordered_ok, "R-KEYS", f"{fpa.qualname}:keys", fpa.where,
              "rebuild keys = keys of _distribution_properties (in order)",
              f"rebuild keys are `{norm_text(kexpr)}`: not the keys of self._distribution_properties in their order",
              key_detail="keys")
    views = [(k_, r_) for k_, r_, _ in dict_views(pa_)]
    zips = [c for c in walk_no_nested(pa_.node) if isinstance(c, ast.Call) and call_name(c) == "zip"]
    ok = ("values", "self._distribution_properties") in views and len(zips) == 1 and any(
        isinstance(a, ast.Call) and isinstance(a.func, ast.Attribute) and a.func.attr == "values" for a in zips[0].args[:1])
    ordered_ok = not any(isinstance(c, ast.Call) and call_name(c) in ("sorted", "reversed", "set")
                         for c in walk_no_nested(pa_.node))
    ctx.check(ok and ordered_ok, "R-KEYS", f"{pa_.qualname}:values", pa_.where,
              "partitions iterate the same dict's values zipped with the chunks",
              "_partition_args does not iterate self._distribution_properties.values() (in order) zipped with the chunks",
              key_detail="values")
    loops = [l for l in walk_no_nested(dp.node) if isinstance(l, ast.For)]
    ok = len(loops) == 1 and norm_text(loops[0].iter) == "self._distributions" and "sorted" not in norm_text(dp.node)
    ctx.check(ok, "R-KEYS", f"{dp.qualname}:order", dp.where, "_distribution_properties filters self._distributions in order",
              "_distribution_properties does not preserve the order of self._distributions", key_detail="order")
    zips = [c for c in walk_no_nested(pt.node) if isinstance(c, ast.Call) and call_name(c) == "zip" and len(c.args) == 2]
    ctx.require(len(zips) >= 1, "_partial_transform: zip(keys, args) not found")
    z = zips[0]
    first, second = (dotted(a) for a in z.args)
    ok = first == "keys" and second == "args"
    # the zipped pairs must override (come after) the copied kwargs
    dicts = [d for d in walk_no_nested(pt.node) if isinstance(d, ast.Dict) and any(k is None for k in d.keys)]
    for d in dicts:
        spreads = [norm_text(v) for k, v in zip(d.keys, d.values) if k is None]
        if spreads and spreads[0] != "kwargs" and "kwargs" in spreads:
            ok = False
    ctx.check(ok, "R-KEYS", f"{pt.qualname}:override", pt.where,
              "block values override the copied kwargs under zip(keys, args)",
              f"the rebuilt transform pairs `{norm_text(z)}` / merges {[norm_text(d)[:60] for d in dicts]}: distribution "
              "slices are not assigned to their own names over the copied kwargs", key_detail="override")


# ------------------------------------------------------------------------------------------------
# R-BASETILT: per-axis independence of BeamTilt2D.metadata
class _Unsupported(Exception):
    pass


def _eval_tilt_metadata(f: FuncInfo, dist: dict[str, bool]):
    """Evaluate BeamTilt2D.metadata for one case (which of tilt_x / tilt_y is a distribution).
    Returns {key: 'zero' | 'tilt_x' | 'tilt_y' | other text}."""
    env: dict[str, object] = {}

    def val(e):
        if isinstance(e, ast.Constant):
            return "zero" if e.value in (0, 0.0) else repr(e.value)
        d = dotted(e)
        if d in ("self.tilt_x", "self._tilt_x"):
            return "tilt_x"
        if d in ("self.tilt_y", "self._tilt_y"):
            return "tilt_y"
        if isinstance(e, ast.Name) and e.id in env:
            return env[e.id]
        if isinstance(e, (ast.Tuple, ast.List)):
            return tuple(val(x) for x in e.elts)
        if isinstance(e, ast.Dict):
            return {k.value: val(v) for k, v in zip(e.keys, e.values) if isinstance(k, ast.Constant)}
        if isinstance(e, ast.IfExp):
            return val(e.body) if test(e.test) else val(e.orelse)
        if isinstance(e, ast.Subscript) and isinstance(e.slice, ast.Constant):
            v = val(e.value)
            if isinstance(v, (tuple, dict)):
                return v[e.slice.value]
        raise _Unsupported(norm_text(e))

    def is_dist(v) -> bool:
        if v == "tilt_x":
            return dist["x"]
        if v == "tilt_y":
            return dist["y"]
        if v == "zero":
            return False
        raise _Unsupported(f"isinstance of {v}")

    def test(t) -> bool:
        if isinstance(t, ast.Call) and call_name(t) == "isinstance" and len(t.args) == 2:
            return is_dist(val(t.args[0]))
        if isinstance(t, ast.UnaryOp) and isinstance(t.op, ast.Not):
            return not test(t.operand)
        if isinstance(t, ast.BoolOp):
            vals = [test(v) for v in t.values]
            return all(vals) if isinstance(t.op, ast.And) else any(vals)
        if isinstance(t, ast.Call) and call_name(t) in ("any", "all") and len(t.args) == 1 and isinstance(
                t.args[0], (ast.GeneratorExp, ast.ListComp)):
            g = t.args[0]
            it = val(g.generators[0].iter)
            res = []
            for item in it:
                env[g.generators[0].target.id] = item
                res.append(test(g.elt))
            return any(res) if call_name(t) == "any" else all(res)
        if isinstance(t, ast.Call) and call_name(t) == "hasattr" and len(t.args) == 2 and isinstance(
                t.args[1], ast.Constant) and t.args[1].value in ("values", "weights"):
            return is_dist(val(t.args[0]))
        raise _Unsupported(norm_text(t))

    def run(body):
        for st in body:
            if isinstance(st, ast.Assign) and len(st.targets) == 1:
                tg = st.targets[0]
                if isinstance(tg, ast.Name):
                    env[tg.id] = val(st.value)
                elif isinstance(tg, ast.Subscript) and isinstance(tg.value, ast.Name) and isinstance(
                        tg.slice, ast.Constant):
                    d = env.setdefault(tg.value.id, {})
                    d[tg.slice.value] = val(st.value)
                else:
                    raise _Unsupported(norm_text(st))
            elif isinstance(st, ast.AnnAssign) and isinstance(st.target, ast.Name) and st.value is not None:
                env[st.target.id] = val(st.value)
            elif isinstance(st, ast.If):
                r = run(st.body) if test(st.test) else run(st.orelse)
                if r is not None:
                    return r
            elif isinstance(st, ast.Return):
                return val(st.value)
            elif isinstance(st, ast.Expr) and isinstance(st.value, ast.Constant):
                continue
            else:
                raise _Unsupported(norm_text(st)[:60])
        return None

    return run(f.body)


_prev_run = run


def run(ctx) -> None:  # noqa: F811
    _prev_run(ctx)
    ctx.rule("R-BASETILT", "BeamTilt2D.metadata reports, independently for each axis, base_tilt_<a> = 0 when tilt_<a> is "
             "a distribution (the ensemble axis carries it) and the scalar tilt_<a> otherwise — evaluated for all four "
             "combinations; a scalar component must survive when only the other component is a distribution")
    k = ctx.repo.cls("abtem.tilt", "BeamTilt2D")
    f = k.find_method("metadata")
    ctx.require(f is not None, "BeamTilt2D.metadata not found")
    for dx in (False, True):
        for dy in (False, True):
            try:
                got = _eval_tilt_metadata(f, {"x": dx, "y": dy})
            except _Unsupported as e:
                raise AnalysisError(f"{f.qualname}: construct not modelled: {e}")
            want = {"base_tilt_x": "zero" if dx else "tilt_x", "base_tilt_y": "zero" if dy else "tilt_y"}
            case = f"tilt_x {'distribution' if dx else 'scalar'}, tilt_y {'distribution' if dy else 'scalar'}"
            ctx.check(isinstance(got, dict) and {a: got.get(a) for a in want} == want, "R-BASETILT",
                      f"{f.qualname}[{case}]", f.where, f"metadata = {got}",
                      f"for {case} the metadata is {got}; expected {want}: the scalar tilt component is lost (member j "
                      "is then simulated with the wrong fixed tilt)", key_detail=case)


# ---- added after the seeded change C03-r2seed2: alias setters forward a distribution as a distribution
_inner_run_c03b = run


def run(ctx) -> None:  # noqa: F811
    import ast as _ast

    from ..model import call_name as _cn, dotted as _dotted, norm_text as _nt, walk_no_nested as _walk
    from ..terms import Normalizer as _Nz

    ctx.rule("R-ALIASFWD", "property setters of the transfer-function classes (abtem/transfer.py) hand the user's value "
             "on as it is — possibly negated or scaled, which BaseDistribution supports — never through a conversion "
             "(np.asarray / np.array / float / list / tuple ...): BaseDistribution.__array__ yields the bare values, so "
             "a converted distribution loses its weights and its ensemble_mean flag and is re-wrapped with unit weights; "
             "and setters of the same property name that store into the same attribute store the same expression up to "
             "validate_distribution (idempotent; the CTF's components validate again) — the cross-check of the two "
             "`defocus` setters")
    CONVERTERS = {"asarray", "array", "asanyarray", "float", "list", "tuple", "atleast_1d", "ascontiguousarray",
                  "squeeze", "ravel"}
    mod = ctx.repo.modules["abtem.transfer"]
    by_name: dict[str, list] = {}
    n = 0
    for c in mod.classes.values():
        for defs in c.methods.values():
            for f in defs:
                if not f.is_setter or len(f.positional_params) != 2:
                    continue
                p = f.positional_params[1]
                stores = [st for st in _walk(f.node) if isinstance(st, _ast.Assign) and any(
                    (_dotted(t) or "").startswith("self.") for t in st.targets)]
                if len(stores) != 1:
                    continue
                st = stores[0]
                uses_param = any(isinstance(x, _ast.Name) and x.id == p for x in _ast.walk(st.value))
                if not uses_param:
                    continue
                n += 1
                bad = []
                for call in (x for x in _ast.walk(st.value) if isinstance(x, _ast.Call)):
                    fn = (_cn(call) or "").split(".")[-1]
                    if fn in CONVERTERS and any(isinstance(x, _ast.Name) and x.id == p for a in call.args
                                                for x in _ast.walk(a)):
                        bad.append(call)
                ctx.check(not bad, "R-ALIASFWD", f"{f.qualname}.setter:forwarded unconverted", f.loc(st),
                          f"`{_nt(st)}` forwards the value without conversion",
                          f"`{_nt(st)[:80]}` passes the value through `{_nt(bad[0].func) if bad else ''}(...)`: a "
                          "distribution is reduced to its bare values (weights and ensemble_mean are lost) before it is "
                          "stored, so member i no longer carries weight_i and an averaged spread is not averaged",
                          key_detail="converted")
                tgt = _dotted(st.targets[0])
                by_name.setdefault(f.name, []).append((f, st, tgt, _Nz(atom_alias={p: "value"}, identity_calls={"validate_distribution"}).norm(st.value)))
    ctx.require(n >= 8, f"R-ALIASFWD examined only {n} setters")
    for name, lst in sorted(by_name.items()):
        groups = {}
        for f, st, tgt, poly in lst:
            groups.setdefault(tgt, []).append((f, st, poly))
        for tgt, items in groups.items():
            if len(items) < 2:
                continue
            keys = {poly.key() for _, _, poly in items}
            f0, st0, _ = items[0]
            odd = next(((f, st) for f, st, poly in items if poly.key() != items[0][2].key()), None)
            ctx.check(len(keys) == 1, "R-ALIASFWD", f"setters of `{name}` -> {tgt}:siblings agree",
                      (odd[0].loc(odd[1]) if odd else f0.loc(st0)),
                      f"{len(items)} sibling setters store {items[0][2].key()}",
                      "sibling setters of the same property disagree: " + "; ".join(
                          f"{f.qualname}: {_nt(st)}" for f, st, _ in items), key_detail="siblings")
    _inner_run_c03b(ctx)


# ---- added: builder composition order (found on the tree: Probe with tilt and aberration distributions)
_inner_run_c03c = run


def run(ctx) -> None:  # noqa: F811
    import ast as _ast

    from ..model import dotted as _dotted, norm_text as _nt, walk_no_nested as _walk

    ctx.rule("R-BUILDORDER", "a waves builder declares its ensemble axes in the order of its `ensemble_names` "
             "(ensemble_shape, ensemble_axes_metadata, partitioning) and builds the array in _calculate_array by "
             "starting from one ensemble's kernel and calling <builder>.<name>.apply(waves) for the others; every apply "
             "prepends its axes, so the array axes are (last applied, ..., first applied, kernel): this sequence must "
             "equal `ensemble_names`, otherwise member [i, j] of the built waves belongs to other parameter values "
             "than its axes metadata say")
    repo = ctx.repo
    wmod = repo.modules["abtem.waves"]
    n = 0
    for c in wmod.classes.values():
        calc = c.own_method("_calculate_array")
        init = c.own_method("__init__")
        if calc is None or init is None:
            continue
        names = None
        for st in _ast.walk(init.node):
            if isinstance(st, _ast.Call) and any(k.arg == "ensemble_names" for k in st.keywords):
                v = next(k.value for k in st.keywords if k.arg == "ensemble_names")
                if isinstance(v, _ast.Name):
                    defs = [a.value for a in _ast.walk(init.node) if isinstance(a, _ast.Assign)
                            and any(_dotted(t) == v.id for t in a.targets)]
                    v = defs[0] if len(defs) == 1 else v
                if isinstance(v, (_ast.Tuple, _ast.List)) and all(isinstance(e, _ast.Constant) for e in v.elts):
                    names = [e.value for e in v.elts]
        if names is None:
            continue
        b = calc.positional_params[0] if calc.positional_params else None
        ctx.require(b is not None, f"{calc.qualname}: builder parameter not found")
        seq = []  # (name, node) in statement order: the kernel first, then the applies
        for node in _walk(calc.node):
            if isinstance(node, _ast.Call) and isinstance(node.func, _ast.Attribute) and \
                    node.func.attr in ("apply", "_evaluate_kernel", "_calculate_new_array") and \
                    isinstance(node.func.value, _ast.Attribute) and _dotted(node.func.value.value) == b:
                seq.append((node.func.value.attr, node.func.attr, node))
        seq.sort(key=lambda t: (t[2].lineno, t[2].col_offset))
        applied = [nm for nm, kind, _ in seq if kind == "apply"]
        kernels = [nm for nm, kind, _ in seq if kind != "apply"]
        if not applied and not kernels:
            continue
        n += 1
        built = list(reversed(applied)) + kernels
        declared = list(names)
        ok = built == declared
        ctx.check(ok, "R-BUILDORDER", f"{c.qualname}:array axes == ensemble_names", calc.where,
                  f"array axes {tuple(built)} == ensemble_names",
                  f"_calculate_array builds the axes in the order {tuple(built)} (kernel {kernels}, then apply "
                  f"{applied}, each apply prepending its axes) but the builder declares ensemble_names {tuple(declared)}: "
                  "with distributions on two of the swapped ensembles the built members are labelled with each "
                  "other's parameter values", key_detail="buildorder")
    ctx.require(n >= 2, f"R-BUILDORDER matched only {n} builders")
    _inner_run_c03c(ctx)
