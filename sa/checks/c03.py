"""C03 — parameter ensembles decompose into individual simulations (order / arity clauses)."""
from __future__ import annotations

import ast
from typing import Optional

from ..cfg import DataFlow
from ..model import (AnalysisError, ClassInfo, FuncInfo, NotConstant, call_name, dotted, fold_constant,
                     module_constants, norm_text, walk_no_nested)
from ..rules import recon

POLAR = "<polar>"
DIST = "abtem.distributions"


def _collapse(names, polar: set[str]) -> list[str]:
    out: list[str] = []
    for n in names:
        t = POLAR if n in polar else n
        if not out or out[-1] != t or t != POLAR:
            out.append(t)
    return out


def _distributions_literal(repo, k: ClassInfo, consts: dict) -> Optional[list[str]]:
    """The tuple passed as `distributions=` along K's executed constructor chain."""
    chain = repo.init_chain(k)
    for i, f in enumerate(chain):
        for c in walk_no_nested(f.node):
            if isinstance(c, ast.Call) and isinstance(c.func, ast.Attribute) and c.func.attr == "__init__":
                for kw in c.keywords:
                    if kw.arg == "distributions":
                        v = kw.value
                        if isinstance(v, ast.Name):
                            if v.id in f.params:
                                continue  # forwarded from the subclass: already seen there
                            defs = [st.value for st in walk_no_nested(f.node) if isinstance(st, ast.Assign)
                                    and any(isinstance(t, ast.Name) and t.id == v.id for t in st.targets)]
                            if len(defs) != 1:
                                raise AnalysisError(f"{f.qualname}: `distributions` has {len(defs)} definitions")
                            v = defs[0]
                        try:
                            val = fold_constant(v, consts)
                        except (NotConstant, Exception) as e:
                            raise AnalysisError(f"{f.qualname}: distributions tuple is not a literal ({e})")
                        return list(val)
    return None


def _attr_token(e: ast.AST) -> Optional[str]:
    """First `self.<name>` mentioned in e."""
    for n in ast.walk(e):
        if isinstance(n, ast.Attribute) and isinstance(n.value, ast.Name) and n.value.id == "self":
            return n.attr.lstrip("_")
    return None


def _component_class(repo, k: ClassInfo, prop: str) -> Optional[ClassInfo]:
    f = k.find_method(prop)
    if f is None:
        return None
    for r in walk_no_nested(f.node):
        if isinstance(r, ast.Return) and isinstance(r.value, ast.Call):
            t = repo.resolve_name(f.module, dotted(r.value.func) or "")
            if isinstance(t, ClassInfo):
                return t
    return None


def _meta_tokens(repo, k: ClassInfo, depth: int = 0) -> list[tuple[str, ast.AST]]:
    """Distribution names in the order K.ensemble_axes_metadata lists their axes: (token, node)."""
    f = k.find_method("ensemble_axes_metadata")
    if f is None or depth > 3:
        return []
    out: list[tuple[str, ast.AST]] = []
    nodes = [n for n in walk_no_nested(f.node) if isinstance(n, (ast.Call, ast.Attribute))]
    nodes.sort(key=lambda n: (n.lineno, n.col_offset))
    seen_calls: list[ast.Call] = []
    for n in nodes:
        if any(n is not c and any(x is n for x in ast.walk(c)) for c in seen_calls):
            continue  # nested inside an axis constructor already handled
        if isinstance(n, ast.Call):
            cn = call_name(n) or ""
            if cn.split(".")[-1].endswith("Axis"):
                vals = next((kw.value for kw in n.keywords if kw.arg == "values"), None)
                tok = _attr_token(vals) if vals is not None else None
                if tok:
                    out.append((tok, n))
                seen_calls.append(n)
            elif cn == "self._get_axes_metadata_from_distributions":
                for kw in n.keywords:
                    if kw.arg:
                        out.append((kw.arg, n))
                seen_calls.append(n)
        elif isinstance(n, ast.Attribute) and isinstance(n.value, ast.Name) and n.value.id == "self":
            if n.attr == "_phase_aberrations_ensemble_axes_metadata":
                out.append((POLAR, n))
        elif isinstance(n, ast.Attribute) and n.attr == "ensemble_axes_metadata" and isinstance(n.value, ast.Attribute) \
                and isinstance(n.value.value, ast.Name) and n.value.value.id == "self":
            comp = _component_class(repo, k, n.value.attr)
            if comp is not None:
                out += [(t, n) for t, _ in _meta_tokens(repo, comp, depth + 1)]
    return out


def _unpack_tokens(f: FuncInfo) -> Optional[list[str]]:
    """Names, in order, that a kernel passes to _unpack_distributions."""
    calls = [c for c in walk_no_nested(f.node) if isinstance(c, ast.Call) and call_name(c) == "_unpack_distributions"]
    if not calls:
        return None
    if len(calls) != 1:
        raise AnalysisError(f"{f.qualname}: several _unpack_distributions calls")
    c = calls[0]
    assigns = {st.targets[0].id: st.value for st in walk_no_nested(f.node)
               if isinstance(st, ast.Assign) and len(st.targets) == 1 and isinstance(st.targets[0], ast.Name)}

    def flat(e) -> list[str]:
        if isinstance(e, ast.Starred):
            return flat(e.value)
        if isinstance(e, ast.Name) and e.id in assigns:
            return flat(assigns[e.id])
        if isinstance(e, ast.BinOp) and isinstance(e.op, ast.Add):
            return flat(e.left) + flat(e.right)
        if isinstance(e, (ast.Tuple, ast.List)):
            return [t for x in e.elts for t in flat(x)]
        if isinstance(e, ast.Call) and call_name(e) in ("tuple", "list") and e.args:
            return flat(e.args[0])
        if isinstance(e, ast.Call) and isinstance(e.func, ast.Attribute) and e.func.attr == "values":
            d = dotted(e.func.value)
            if d in ("self.aberration_coefficients", "self._aberration_coefficients"):
                return [POLAR]
        d = dotted(e)
        if d and d.startswith("self."):
            return [d.split(".", 1)[1].lstrip("_")]
        raise AnalysisError(f"{f.qualname}: cannot read _unpack_distributions argument {norm_text(e)}")

    return [t for a in c.args for t in flat(a)]


def run(ctx) -> None:
    repo = ctx.repo
    ctx.rule("R-ORDER", "for every ensemble built from distributions the order of names in its `distributions` tuple "
             "(which fixes ensemble_shape, the partition order and the rebuild keys) equals the order in which its "
             "kernel passes them to _unpack_distributions (which fixes the array axes) and the order of its "
             "ensemble_axes_metadata entries; a CTF composes its components in the order of its distribution groups")
    ctx.rule("R-VALUES", "an ensemble axis lists the distribution's own values in order (tuple(self.<d>.values) / "
             "tuple(self.<d>)), not weights and not a sorted or reversed copy")
    ctx.rule("R-UNPACK", "_unpack_distributions: every argument contributes exactly one unpacked entry; the i-th "
             "distribution gets the new axis i (tuple_range_except(num_new_axes, i) + base_axes), the counter advances "
             "only on distributions, values and weights are expanded with the same axes, weights are multiplied")
    ctx.rule("R-KEYS", "EnsembleFromDistributions partitions and rebuilds in one order: _partition_args and "
             "_from_partitioned_args both iterate self._distribution_properties, which filters self._distributions in "
             "order; _partial_transform zips keys with args and overrides the copied kwargs")
    ctx.rule("R-DISTNAMES", "every name in a `distributions` tuple is accepted by the class's constructor (named "
             "parameter or **kwargs) and readable on instances")
    ctx.undecided("that member i equals the scalar run numerically; weighted means; scan positions (C20)")

    consts = module_constants(repo.module("abtem.transfer"))
    ctx.require("polar_symbols" in consts, "polar_symbols is not a foldable literal")
    polar = set(consts["polar_symbols"].keys())
    base = repo.cls(DIST, "EnsembleFromDistributions")
    classes = [c for c in recon.concrete_classes(repo) if base in c.mro()]
    ctx.require(len(classes) >= 12, f"only {len(classes)} concrete EnsembleFromDistributions subclasses found")

    n_order = 0
    for k in sorted(classes, key=lambda c: c.qualname):
        dist = _distributions_literal(repo, k, consts)
        if dist is None:
            ctx.info("R-ORDER", k.qualname, k.where, "no `distributions=` along the constructor chain")
            continue
        dtok = _collapse(dist, polar)
        # ---- R-DISTNAMES
        params = recon.ctor_params(repo, k) or []
        init = k.find_method("__init__")
        has_kw = init is not None and init.has_varkw
        resolvable = repo.getattr_resolvable(k)
        dyn = repo.has_dynamic_getattr(k) is not None
        bad = [d for d in dist if not ((d in params or has_kw) and (d in resolvable or dyn))]
        if dist:
            ctx.check(not bad, "R-DISTNAMES", k.qualname, k.where, f"{len(dist)} distribution names are constructor "
                      "parameters and attributes", f"distribution names {bad} of {k.name} are not constructor "
                      "parameters / attributes: blocks cannot be rebuilt with their slice of the distribution",
                      key_detail="names")
        # ---- kernel order
        kernel = None
        for mname in ("_evaluate_from_angular_grid", "_evaluate_kernel", "_calculate_new_array"):
            f = k.find_method(mname)
            if f is not None and not f.is_abstract:
                toks = _unpack_tokens(f)
                if toks is not None:
                    kernel = (f, toks)
                    break
        if kernel is not None:
            f, toks = kernel
            want = [t for t in dtok if t in toks]
            n_order += 1
            ctx.check(toks == want and set(toks) <= set(dtok), "R-ORDER", f"{k.qualname}:kernel", f.where,
                      f"kernel unpacks {toks} in the order of `distributions`",
                      f"{f.short} passes {toks} to _unpack_distributions but `distributions` lists them as "
                      f"{[t for t in dtok if t in toks] or dtok}: array axes and ensemble axes/metadata are permuted",
                      key_detail="kernel")
        # ---- metadata order
        mt = _meta_tokens(repo, k)
        if mt:
            toks = [t for t, _ in mt]
            want = [t for t in dtok if t in toks]
            n_order += 1
            mf = k.find_method("ensemble_axes_metadata")
            ctx.check(toks == want and set(toks) <= set(dtok), "R-ORDER", f"{k.qualname}:metadata", mf.where,
                      f"axes metadata lists {toks} in the order of `distributions`",
                      f"{mf.short} lists axes for {toks} but `distributions` orders them {want or dtok}",
                      key_detail="metadata")
            # ---- R-VALUES
            for tok, node in mt:
                if isinstance(node, ast.Call) and (call_name(node) or "").split(".")[-1].endswith("Axis"):
                    vals = next((kw.value for kw in node.keywords if kw.arg == "values"), None)
                    txt = norm_text(vals)
                    calls = {(call_name(c) or "").split(".")[-1] for c in ast.walk(vals) if isinstance(c, ast.Call)}
                    attrs = {a.attr for a in ast.walk(vals) if isinstance(a, ast.Attribute)}
                    slices = [s for s in ast.walk(vals) if isinstance(s, ast.Subscript)]
                    ok = calls <= {"tuple", "list", "float"} and "weights" not in attrs and not slices
                    ctx.check(ok, "R-VALUES", f"{k.qualname}:{tok}", mf.loc(node),
                              f"axis values = {txt}", f"axis for `{tok}` lists `{txt}`: not the distribution's values "
                              "in order", key_detail=tok)

    # generic metadata helper
    gm = repo.method("abtem.transform", "EnsembleTransform", "_get_axes_metadata_from_distributions", inherited=True)
    pa = [c for c in walk_no_nested(gm.node) if isinstance(c, ast.Call) and (call_name(c) or "").endswith("Axis")]
    ctx.require(len(pa) == 1, "_get_axes_metadata_from_distributions: axis construction not found")
    vals = next((kw.value for kw in pa[0].keywords if kw.arg == "values"), None)
    loops = [l for l in walk_no_nested(gm.node) if isinstance(l, ast.For)]
    ok = False
    if vals is not None and len(loops) == 1 and isinstance(loops[0].iter, ast.Call) and isinstance(
            loops[0].iter.func, ast.Attribute) and loops[0].iter.func.attr == "items" and \
            dotted(loops[0].iter.func.value) == (gm.node.args.kwarg.arg if gm.node.args.kwarg else None):
        # the axis values are tuple(<d>) / tuple(<d>.values) of the distribution looked up by the loop's name
        inner = vals.args[0] if isinstance(vals, ast.Call) and call_name(vals) in ("tuple", "list") and vals.args else None
        if isinstance(inner, ast.Attribute) and inner.attr == "values":
            inner = inner.value
        dvar = dotted(inner) if inner is not None else None
        ddefs = [st.value for st in walk_no_nested(gm.node) if isinstance(st, ast.Assign)
                 and any(dotted(t) == dvar for t in st.targets)]
        namevar = loops[0].target.elts[0].id if isinstance(loops[0].target, ast.Tuple) else None
        ok = (dvar is not None and len(ddefs) == 1 and isinstance(ddefs[0], ast.Call) and call_name(ddefs[0]) == "getattr"
              and len(ddefs[0].args) == 2 and dotted(ddefs[0].args[0]) == "self" and dotted(ddefs[0].args[1]) == namevar)
    ctx.check(ok, "R-VALUES", gm.qualname, gm.where, "axes built in keyword order from the distribution's values",
              "the generic axis builder does not list the distribution's values in keyword order", key_detail="generic")

    # ---- CTF composition
    ctf = repo.cls("abtem.transfer", "CTF")
    ev = ctf.find_method("_evaluate_from_angular_grid")
    comp_calls = []
    for c in walk_no_nested(ev.node):
        if not (isinstance(c, ast.Call) and isinstance(c.func, ast.Attribute)
                and c.func.attr == "_evaluate_from_angular_grid"):
            continue
        recv = c.func.value
        if isinstance(recv, ast.Attribute) and dotted(recv.value) == "self":
            comp_calls.append(((c.lineno, 0), recv.attr))
        elif isinstance(recv, ast.Name):
            # `for factor in factors: factor._evaluate_from_angular_grid(...)`: the components are applied in the
            # order in which they were put into the list (literal elements, then appends in statement order)
            loop = next((l for l in walk_no_nested(ev.node) if isinstance(l, ast.For) and isinstance(l.target, ast.Name)
                         and l.target.id == recv.id and any(x is c for x in ast.walk(l))), None)
            if loop is None or not isinstance(loop.iter, ast.Name):
                raise AnalysisError(f"{ev.qualname}: component call through `{recv.id}` is not a loop over a local list")
            lst, k = loop.iter.id, 0
            for st in walk_no_nested(ev.node):
                if isinstance(st, (ast.Assign, ast.AnnAssign)):
                    tg = st.targets[0] if isinstance(st, ast.Assign) else st.target
                    if dotted(tg) == lst and isinstance(st.value, (ast.List, ast.Tuple)):
                        for e in st.value.elts:
                            if isinstance(e, ast.Attribute) and dotted(e.value) == "self":
                                k += 1
                                comp_calls.append(((c.lineno, k), e.attr))
                if isinstance(st, ast.Expr) and isinstance(st.value, ast.Call) and isinstance(st.value.func, ast.Attribute) \
                        and st.value.func.attr == "append" and dotted(st.value.func.value) == lst and st.value.args:
                    e = st.value.args[0]
                    if isinstance(e, ast.Attribute) and dotted(e.value) == "self":
                        k += 1
                        comp_calls.append(((c.lineno, k), e.attr))
                    else:
                        raise AnalysisError(f"{ev.qualname}: `{norm_text(st)[:50]}` appends something that is not a component")
    comp_calls.sort()
    comp_order = [n for _, n in comp_calls]
    owner = {"_aberrations": POLAR, "_spatial_envelope": "angular_spread", "_temporal_envelope": "focal_spread",
             "_aperture": "semiangle_cutoff"}
    ctx.require(set(comp_order) <= set(owner) and len(comp_order) >= 3, f"CTF components {comp_order} not recognised")
    ctf_dist = _collapse(_distributions_literal(repo, ctf, consts) or [], polar)
    got = [owner[c] for c in comp_order]
    ctx.check(got == [t for t in ctf_dist if t in got], "R-ORDER", f"{ctf.qualname}:composition", ev.where,
              f"components multiplied in the order {got}",
              f"CTF multiplies its components in the order {got} but its distributions are ordered {ctf_dist}",
              key_detail="composition")
    n_order += 1
    # each component property receives the CTF's own parameter of the same name
    for prop, tok in owner.items():
        f = ctf.find_method(prop)
        ctx.require(f is not None, f"CTF.{prop} not found")
        rets = [r for r in walk_no_nested(f.node) if isinstance(r, ast.Return) and isinstance(r.value, ast.Call)]
        ctx.require(len(rets) == 1, f"CTF.{prop}: constructor call not found")
        kws = {kw.arg: kw.value for kw in rets[0].value.keywords if kw.arg}
        want = "aberration_coefficients" if tok == POLAR else tok
        ok = want in kws and dotted(kws[want]) in (f"self.{want}", f"self._{want}")
        if prop == "_spatial_envelope":
            ok = ok and dotted(kws.get("aberration_coefficients")) in ("self.aberration_coefficients",
                                                                     "self._aberration_coefficients")
        ctx.check(ok, "R-ORDER", f"{ctf.qualname}.{prop}", f.where, f"component built from self.{want}",
                  f"CTF.{prop} is not built from the CTF's own `{want}`", key_detail=prop)
    ctx.require(n_order >= 12, f"R-ORDER matched only {n_order} order instances")

    # ---------------- R-UNPACK
    un = repo.function(DIST, "_unpack_distributions")
    vararg = un.node.args.vararg.arg if un.node.args.vararg else "args"
    loops = [l for l in walk_no_nested(un.node) if isinstance(l, ast.For) and norm_text(l.iter) == vararg]
    ctx.require(len(loops) == 1, "_unpack_distributions: loop over args not found")
    loop = loops[0]
    sw = [i for i in loop.body if isinstance(i, ast.If) and "BaseDistribution" in norm_text(i.test)]
    ctx.require(len(sw) == 1, "_unpack_distributions: distribution switch not found")
    neg = isinstance(sw[0].test, ast.UnaryOp) and isinstance(sw[0].test.op, ast.Not)
    plain_arm, dist_arm = (sw[0].body, sw[0].orelse) if neg else (sw[0].orelse, sw[0].body)

    # names are discovered from their roles, not assumed
    ret = [r for r in walk_no_nested(un.node) if isinstance(r, ast.Return) and isinstance(r.value, ast.Tuple)
           and len(r.value.elts) == 2 and not (isinstance(r.value.elts[0], ast.Tuple) and not r.value.elts[0].elts)]
    ctx.require(len(ret) == 1, "_unpack_distributions: final `return unpacked, weights` not found")
    assigns_all = {}
    for st in walk_no_nested(un.node):
        if isinstance(st, ast.Assign) and len(st.targets) == 1 and isinstance(st.targets[0], ast.Name):
            assigns_all.setdefault(st.targets[0].id, []).append(st)
    r0 = ret[0].value.elts[0]
    weights_var = dotted(ret[0].value.elts[1])
    if isinstance(r0, ast.Name) and len(assigns_all.get(r0.id, [])) == 1 and isinstance(
            assigns_all[r0.id][0].value, ast.Call) and call_name(assigns_all[r0.id][0].value) == "tuple":
        r0 = assigns_all[r0.id][0].value.args[0]
    list_var = dotted(r0)
    ctx.require(list_var is not None and weights_var is not None, "_unpack_distributions: result variables not found")
    argvar = loop.target.id if isinstance(loop.target, ast.Name) else None
    ctx.require(argvar is not None, "_unpack_distributions: loop target is not a name")

    def appends(arm):
        return [c for st in arm for c in ast.walk(st) if isinstance(c, ast.Call) and isinstance(c.func, ast.Attribute)
                and c.func.attr == "append" and dotted(c.func.value) == list_var]

    aug = [x for st in dist_arm for x in ast.walk(st) if isinstance(x, ast.AugAssign) and isinstance(x.target, ast.Name)]
    counter = aug[0].target.id if aug else None

    def increments(arm):
        return [x for st in arm for x in ast.walk(st) if isinstance(x, ast.AugAssign) and isinstance(x.target, ast.Name)
                and x.target.id == counter]

    ok = len(appends(plain_arm)) == 1 and len(appends(dist_arm)) == 1
    ctx.check(ok, "R-UNPACK", f"{un.qualname}:arity", un.loc(loop), "one unpacked entry per argument in both arms",
              "an argument does not contribute exactly one unpacked entry: parameters shift against their names",
              key_detail="arity")
    ok = counter is not None and len(increments(dist_arm)) == 1 and len(increments(plain_arm)) == 0 and not any(
        isinstance(st, ast.AugAssign) and isinstance(st.target, ast.Name) and st.target.id == counter
        for st in loop.body)
    ctx.check(ok, "R-UNPACK", f"{un.qualname}:counter", un.loc(loop),
              "axis counter advances once per distribution only",
              "the new-axis counter does not advance exactly once per distribution (and never for scalars)",
              key_detail="counter")
    exp = [c for st in dist_arm for c in ast.walk(st) if isinstance(c, ast.Call) and (call_name(c) or "").endswith(
        "expand_dims")]
    axes_exprs = {norm_text(next((kw.value for kw in c.keywords if kw.arg == "axis"), c.args[1] if len(c.args) > 1 else c))
                  for c in exp}
    axis_var = next(iter(axes_exprs)) if len(axes_exprs) == 1 else None
    axis_assign = [st for st in dist_arm if isinstance(st, ast.Assign) and isinstance(st.targets[0], ast.Name)
                   and st.targets[0].id == axis_var]
    okx = False
    txt = "?"
    if len(axis_assign) == 1 and isinstance(axis_assign[0].value, ast.BinOp) and isinstance(axis_assign[0].value.op, ast.Add):
        l, r = axis_assign[0].value.left, axis_assign[0].value.right
        txt = norm_text(axis_assign[0].value)
        base_var = dotted(r)
        okx = (isinstance(l, ast.Call) and call_name(l) == "tuple_range_except" and len(l.args) == 2
               and dotted(l.args[1]) == counter and base_var is not None)
        nn = dotted(l.args[0]) if okx else None
        bdefs = assigns_all.get(base_var or "", [])
        okb = (len(bdefs) == 1 and norm_text(bdefs[0].value).replace(" ", "") ==
               f"tuple(range({nn},{nn}+len(shape)))")
    else:
        okb = False
    ctx.check(okx, "R-UNPACK", f"{un.qualname}:axis", un.loc(axis_assign[0] if axis_assign else loop),
              "distribution i keeps axis i: expand over tuple_range_except(num_new_axes, i) + base_axes",
              f"axis expression is `{txt}`", key_detail="axis")
    srcs = sorted(norm_text(c.args[0]) for c in exp)
    ok = srcs == [f"{argvar}.values", f"{argvar}.weights"] and len(axes_exprs) == 1
    ctx.check(ok, "R-UNPACK", f"{un.qualname}:values-weights", un.loc(loop),
              "values and weights expanded with the same axes",
              f"expanded {srcs} over {sorted(axes_exprs)}: values and weights are not aligned", key_detail="expand")
    wst = [st for top in dist_arm for st in ast.walk(top) if isinstance(st, (ast.Assign, ast.AugAssign))
           and isinstance(st.targets[0] if isinstance(st, ast.Assign) else st.target, ast.Name)
           and (st.targets[0] if isinstance(st, ast.Assign) else st.target).id == weights_var]

    def _is_product(st) -> bool:
        if isinstance(st, ast.AugAssign):
            return isinstance(st.op, ast.Mult) and dotted(st.value) != weights_var
        return any(isinstance(b, ast.BinOp) and isinstance(b.op, ast.Mult) and
                   weights_var in (dotted(b.left), dotted(b.right)) and dotted(b.left) != dotted(b.right)
                   for b in ast.walk(st))

    # one accumulation `weights = weights * new` (as a conditional expression or in the arm of a test on the
    # accumulator); any other definition only starts the product with the first weights
    ok = sum(_is_product(st) for st in wst) == 1 and all(
        _is_product(st) or isinstance(st.value, ast.Name) for st in wst)
    ctx.check(ok, "R-UNPACK", f"{un.qualname}:weights-product", un.loc(wst[0] if wst else loop),
              "joint weight = product of the distributions' weights",
              "the joint weight is not the product of the individual weights", key_detail="weights")
    ctx.check(okb, "R-UNPACK", f"{un.qualname}:base-axes", un.where, "base axes follow the new ensemble axes",
              "base axes are not placed after the new ensemble axes", key_detail="base")

    # ---------------- R-KEYS
    fpa = base.own_method("_from_partitioned_args")
    pa_ = base.own_method("_partition_args")
    pt = base.own_method("_partial_transform")
    dp = base.own_method("_distribution_properties")
    ctx.require(all(x is not None for x in (fpa, pa_, pt, dp)), "EnsembleFromDistributions partition methods not found")
    def resolve(f, e):
        """Follow single plain assignments of a local name inside f."""
        seen = set()
        while isinstance(e, ast.Name) and e.id not in seen:
            seen.add(e.id)
            defs = [st.value for st in walk_no_nested(f.node) if isinstance(st, ast.Assign)
                    and any(isinstance(t, ast.Name) and t.id == e.id for t in st.targets)]
            if len(defs) != 1:
                break
            e = defs[0]
        return e

    def dict_views(f):
        """(view kind, resolved receiver text) of every .keys()/.values()/.items() in f."""
        out = []
        for c in walk_no_nested(f.node):
            if isinstance(c, ast.Call) and isinstance(c.func, ast.Attribute) and c.func.attr in ("keys", "values", "items"):
                out.append((c.func.attr, norm_text(resolve(f, c.func.value)), c))
        return out

    parts = [c for c in walk_no_nested(fpa.node) if isinstance(c, ast.Call) and call_name(c) in ("partial", "functools.partial")]
    ctx.require(len(parts) == 1, "EnsembleFromDistributions._from_partitioned_args: partial(...) not found")
    kkw = next((kw.value for kw in parts[0].keywords if kw.arg == "keys"), None)
    ctx.require(kkw is not None, "_from_partitioned_args: keys= not passed to the partial")
    kexpr = resolve(fpa, kkw)
    inner = kexpr.args[0] if isinstance(kexpr, ast.Call) and call_name(kexpr) in ("tuple", "list") and kexpr.args else kexpr
    if isinstance(inner, ast.Call) and isinstance(inner.func, ast.Attribute) and inner.func.attr == "keys":
        src_txt = norm_text(resolve(fpa, inner.func.value))
    else:
        src_txt = norm_text(resolve(fpa, inner))
    ordered_ok = not any(isinstance(c, ast.Call) and call_name(c) in ("sorted", "reversed", "set") for c in ast.walk(kexpr))
    ctx.check(src_txt == "self._distribution_properties" and ordered_ok, "R-KEYS", f"{fpa.qualname}:keys", fpa.where,
              "rebuild keys = keys of _distribution_properties (in order)",
              f"rebuild keys are `{norm_text(kexpr)}`: not the keys of self._distribution_properties in their order",
              key_detail="keys")
    views = [(k_, r_) for k_, r_, _ in dict_views(pa_)]
    zips = [c for c in walk_no_nested(pa_.node) if isinstance(c, ast.Call) and call_name(c) == "zip"]
    ok = ("values", "self._distribution_properties") in views and len(zips) == 1 and any(
        isinstance(a, ast.Call) and isinstance(a.func, ast.Attribute) and a.func.attr == "values" for a in zips[0].args[:1])
    ordered_ok = not any(isinstance(c, ast.Call) and call_name(c) in ("sorted", "reversed", "set")
                         for c in walk_no_nested(pa_.node))
    ctx.check(ok and ordered_ok, "R-KEYS", f"{pa_.qualname}:values", pa_.where,
              "partitions iterate the same dict's values zipped with the chunks",
              "_partition_args does not iterate self._distribution_properties.values() (in order) zipped with the chunks",
              key_detail="values")
    loops = [l for l in walk_no_nested(dp.node) if isinstance(l, ast.For)]
    ok = len(loops) == 1 and norm_text(loops[0].iter) == "self._distributions" and "sorted" not in norm_text(dp.node)
    ctx.check(ok, "R-KEYS", f"{dp.qualname}:order", dp.where, "_distribution_properties filters self._distributions in order",
              "_distribution_properties does not preserve the order of self._distributions", key_detail="order")
    zips = [c for c in walk_no_nested(pt.node) if isinstance(c, ast.Call) and call_name(c) == "zip" and len(c.args) == 2]
    ctx.require(len(zips) >= 1, "_partial_transform: zip(keys, args) not found")
    z = zips[0]
    first, second = (dotted(a) for a in z.args)
    ok = first == "keys" and second == "args"
    # the zipped pairs must override (come after) the copied kwargs
    dicts = [d for d in walk_no_nested(pt.node) if isinstance(d, ast.Dict) and any(k is None for k in d.keys)]
    for d in dicts:
        spreads = [norm_text(v) for k, v in zip(d.keys, d.values) if k is None]
        if spreads and spreads[0] != "kwargs" and "kwargs" in spreads:
            ok = False
    ctx.check(ok, "R-KEYS", f"{pt.qualname}:override", pt.where,
              "block values override the copied kwargs under zip(keys, args)",
              f"the rebuilt transform pairs `{norm_text(z)}` / merges {[norm_text(d)[:60] for d in dicts]}: distribution "
              "slices are not assigned to their own names over the copied kwargs", key_detail="override")


# ------------------------------------------------------------------------------------------------
# R-BASETILT: per-axis independence of BeamTilt2D.metadata
class _Unsupported(Exception):
    pass


def _eval_tilt_metadata(f: FuncInfo, dist: dict[str, bool]):
    """Evaluate BeamTilt2D.metadata for one case (which of tilt_x / tilt_y is a distribution).
    Returns {key: 'zero' | 'tilt_x' | 'tilt_y' | other text}."""
    env: dict[str, object] = {}

    def val(e):
        if isinstance(e, ast.Constant):
            return "zero" if e.value in (0, 0.0) else repr(e.value)
        d = dotted(e)
        if d in ("self.tilt_x", "self._tilt_x"):
            return "tilt_x"
        if d in ("self.tilt_y", "self._tilt_y"):
            return "tilt_y"
        if isinstance(e, ast.Name) and e.id in env:
            return env[e.id]
        if isinstance(e, (ast.Tuple, ast.List)):
            return tuple(val(x) for x in e.elts)
        if isinstance(e, ast.Dict):
            return {k.value: val(v) for k, v in zip(e.keys, e.values) if isinstance(k, ast.Constant)}
        if isinstance(e, ast.IfExp):
            return val(e.body) if test(e.test) else val(e.orelse)
        if isinstance(e, ast.Subscript) and isinstance(e.slice, ast.Constant):
            v = val(e.value)
            if isinstance(v, (tuple, dict)):
                return v[e.slice.value]
        raise _Unsupported(norm_text(e))

    def is_dist(v) -> bool:
        if v == "tilt_x":
            return dist["x"]
        if v == "tilt_y":
            return dist["y"]
        if v == "zero":
            return False
        raise _Unsupported(f"isinstance of {v}")

    def test(t) -> bool:
        if isinstance(t, ast.Call) and call_name(t) == "isinstance" and len(t.args) == 2:
            return is_dist(val(t.args[0]))
        if isinstance(t, ast.UnaryOp) and isinstance(t.op, ast.Not):
            return not test(t.operand)
        if isinstance(t, ast.BoolOp):
            vals = [test(v) for v in t.values]
            return all(vals) if isinstance(t.op, ast.And) else any(vals)
        if isinstance(t, ast.Call) and call_name(t) in ("any", "all") and len(t.args) == 1 and isinstance(
                t.args[0], (ast.GeneratorExp, ast.ListComp)):
            g = t.args[0]
            it = val(g.generators[0].iter)
            res = []
            for item in it:
                env[g.generators[0].target.id] = item
                res.append(test(g.elt))
            return any(res) if call_name(t) == "any" else all(res)
        if isinstance(t, ast.Call) and call_name(t) == "hasattr" and len(t.args) == 2 and isinstance(
                t.args[1], ast.Constant) and t.args[1].value in ("values", "weights"):
            return is_dist(val(t.args[0]))
        raise _Unsupported(norm_text(t))

    def run(body):
        for st in body:
            if isinstance(st, ast.Assign) and len(st.targets) == 1:
                tg = st.targets[0]
                if isinstance(tg, ast.Name):
                    env[tg.id] = val(st.value)
                elif isinstance(tg, ast.Subscript) and isinstance(tg.value, ast.Name) and isinstance(
                        tg.slice, ast.Constant):
                    d = env.setdefault(tg.value.id, {})
                    d[tg.slice.value] = val(st.value)
                else:
                    raise _Unsupported(norm_text(st))
            elif isinstance(st, ast.AnnAssign) and isinstance(st.target, ast.Name) and st.value is not None:
                env[st.target.id] = val(st.value)
            elif isinstance(st, ast.If):
                r = run(st.body) if test(st.test) else run(st.orelse)
                if r is not None:
                    return r
            elif isinstance(st, ast.Return):
                return val(st.value)
            elif isinstance(st, ast.Expr) and isinstance(st.value, ast.Constant):
                continue
            else:
                raise _Unsupported(norm_text(st)[:60])
        return None

    return run(f.body)


_prev_run = run


def run(ctx) -> None:  # noqa: F811
    _prev_run(ctx)
    ctx.rule("R-BASETILT", "BeamTilt2D.metadata reports, independently for each axis, base_tilt_<a> = 0 when tilt_<a> is "
             "a distribution (the ensemble axis carries it) and the scalar tilt_<a> otherwise — evaluated for all four "
             "combinations; a scalar component must survive when only the other component is a distribution")
    k = ctx.repo.cls("abtem.tilt", "BeamTilt2D")
    f = k.find_method("metadata")
    ctx.require(f is not None, "BeamTilt2D.metadata not found")
    for dx in (False, True):
        for dy in (False, True):
            try:
                got = _eval_tilt_metadata(f, {"x": dx, "y": dy})
            except _Unsupported as e:
                raise AnalysisError(f"{f.qualname}: construct not modelled: {e}")
            want = {"base_tilt_x": "zero" if dx else "tilt_x", "base_tilt_y": "zero" if dy else "tilt_y"}
            case = f"tilt_x {'distribution' if dx else 'scalar'}, tilt_y {'distribution' if dy else 'scalar'}"
            ctx.check(isinstance(got, dict) and {a: got.get(a) for a in want} == want, "R-BASETILT",
                      f"{f.qualname}[{case}]", f.where, f"metadata = {got}",
                      f"for {case} the metadata is {got}; expected {want}: the scalar tilt component is lost (member j "
                      "is then simulated with the wrong fixed tilt)", key_detail=case)


# ---- added after the seeded change C03-r2seed2: alias setters forward a distribution as a distribution
_inner_run_c03b = run


def run(ctx) -> None:  # noqa: F811
    import ast as _ast

    from ..model import call_name as _cn, dotted as _dotted, norm_text as _nt, walk_no_nested as _walk
    from ..terms import Normalizer as _Nz

    ctx.rule("R-ALIASFWD", "property setters of the transfer-function classes (abtem/transfer.py) hand the user's value "
             "on as it is — possibly negated or scaled, which BaseDistribution supports — never through a conversion "
             "(np.asarray / np.array / float / list / tuple ...): BaseDistribution.__array__ yields the bare values, so "
             "a converted distribution loses its weights and its ensemble_mean flag and is re-wrapped with unit weights; "
             "and setters of the same property name that store into the same attribute store the same expression up to "
             "validate_distribution (idempotent; the CTF's components validate again) — the cross-check of the two "
             "`defocus` setters")
    CONVERTERS = {"asarray", "array", "asanyarray", "float", "list", "tuple", "atleast_1d", "ascontiguousarray",
                  "squeeze", "ravel"}
    mod = ctx.repo.modules["abtem.transfer"]
    by_name: dict[str, list] = {}
    n = 0
    for c in mod.classes.values():
        for defs in c.methods.values():
            for f in defs:
                if not f.is_setter or len(f.positional_params) != 2:
                    continue
                p = f.positional_params[1]
                stores = [st for st in _walk(f.node) if isinstance(st, _ast.Assign) and any(
                    (_dotted(t) or "").startswith("self.") for t in st.targets)]
                if len(stores) != 1:
                    continue
                st = stores[0]
                uses_param = any(isinstance(x, _ast.Name) and x.id == p for x in _ast.walk(st.value))
                if not uses_param:
                    continue
                n += 1
                bad = []
                for call in (x for x in _ast.walk(st.value) if isinstance(x, _ast.Call)):
                    fn = (_cn(call) or "").split(".")[-1]
                    if fn in CONVERTERS and any(isinstance(x, _ast.Name) and x.id == p for a in call.args
                                                for x in _ast.walk(a)):
                        bad.append(call)
                ctx.check(not bad, "R-ALIASFWD", f"{f.qualname}.setter:forwarded unconverted", f.loc(st),
                          f"`{_nt(st)}` forwards the value without conversion",
                          f"`{_nt(st)[:80]}` passes the value through `{_nt(bad[0].func) if bad else ''}(...)`: a "
                          "distribution is reduced to its bare values (weights and ensemble_mean are lost) before it is "
                          "stored, so member i no longer carries weight_i and an averaged spread is not averaged",
                          key_detail="converted")
                tgt = _dotted(st.targets[0])
                by_name.setdefault(f.name, []).append((f, st, tgt, _Nz(atom_alias={p: "value"}, identity_calls={"validate_distribution"}).norm(st.value)))
    ctx.require(n >= 8, f"R-ALIASFWD examined only {n} setters")
    for name, lst in sorted(by_name.items()):
        groups = {}
        for f, st, tgt, poly in lst:
            groups.setdefault(tgt, []).append((f, st, poly))
        for tgt, items in groups.items():
            if len(items) < 2:
                continue
            keys = {poly.key() for _, _, poly in items}
            f0, st0, _ = items[0]
            odd = next(((f, st) for f, st, poly in items if poly.key() != items[0][2].key()), None)
            ctx.check(len(keys) == 1, "R-ALIASFWD", f"setters of `{name}` -> {tgt}:siblings agree",
                      (odd[0].loc(odd[1]) if odd else f0.loc(st0)),
                      f"{len(items)} sibling setters store {items[0][2].key()}",
                      "sibling setters of the same property disagree: " + "; ".join(
                          f"{f.qualname}: {_nt(st)}" for f, st, _ in items), key_detail="siblings")
    _inner_run_c03b(ctx)


# ---- added: builder composition order (found on the tree: Probe with tilt and aberration distributions)
_inner_run_c03c = run


def run(ctx) -> None:  # noqa: F811
    import ast as _ast

    from ..model import dotted as _dotted, norm_text as _nt, walk_no_nested as _walk

    ctx.rule("R-BUILDORDER", "a waves builder declares its ensemble axes in the order of its `ensemble_names` "
             "(ensemble_shape, ensemble_axes_metadata, partitioning) and builds the array in _calculate_array by "
             "starting from one ensemble's kernel and calling <builder>.<name>.apply(waves) for the others; every apply "
             "prepends its axes, so the array axes are (last applied, ..., first applied, kernel): this sequence must "
             "equal `ensemble_names`, otherwise member [i, j] of the built waves belongs to other parameter values "
             "than its axes metadata say")
    repo = ctx.repo
    wmod = repo.modules["abtem.waves"]
    n = 0
    for c in wmod.classes.values():
        calc = c.own_method("_calculate_array")
        init = c.own_method("__init__")
        if calc is None or init is None:
            continue
        names = None
        for st in _ast.walk(init.node):
            if isinstance(st, _ast.Call) and any(k.arg == "ensemble_names" for k in st.keywords):
                v = next(k.value for k in st.keywords if k.arg == "ensemble_names")
                if isinstance(v, _ast.Name):
                    defs = [a.value for a in _ast.walk(init.node) if isinstance(a, _ast.Assign)
                            and any(_dotted(t) == v.id for t in a.targets)]
                    v = defs[0] if len(defs) == 1 else v
                if isinstance(v, (_ast.Tuple, _ast.List)) and all(isinstance(e, _ast.Constant) for e in v.elts):
                    names = [e.value for e in v.elts]
        if names is None:
            continue
        b = calc.positional_params[0] if calc.positional_params else None
        ctx.require(b is not None, f"{calc.qualname}: builder parameter not found")
        seq = []  # (name, node) in statement order: the kernel first, then the applies
        for node in _walk(calc.node):
            if isinstance(node, _ast.Call) and isinstance(node.func, _ast.Attribute) and \
                    node.func.attr in ("apply", "_evaluate_kernel", "_calculate_new_array") and \
                    isinstance(node.func.value, _ast.Attribute) and _dotted(node.func.value.value) == b:
                seq.append((node.func.value.attr, node.func.attr, node))
        seq.sort(key=lambda t: (t[2].lineno, t[2].col_offset))
        applied = [nm for nm, kind, _ in seq if kind == "apply"]
        kernels = [nm for nm, kind, _ in seq if kind != "apply"]
        if not applied and not kernels:
            continue
        n += 1
        built = list(reversed(applied)) + kernels
        declared = list(names)
        ok = built == declared
        ctx.check(ok, "R-BUILDORDER", f"{c.qualname}:array axes == ensemble_names", calc.where,
                  f"array axes {tuple(built)} == ensemble_names",
                  f"_calculate_array builds the axes in the order {tuple(built)} (kernel {kernels}, then apply "
                  f"{applied}, each apply prepending its axes) but the builder declares ensemble_names {tuple(declared)}: "
                  "with distributions on two of the swapped ensembles the built members are labelled with each "
                  "other's parameter values", key_detail="buildorder")
    ctx.require(n >= 2, f"R-BUILDORDER matched only {n} builders")
    _inner_run_c03c(ctx)


# ---- added after the mutation sweep: unpacked entries are consumed where they were passed; CTF components are applied
# when their parameter is a distribution; an axis carries the values and the mean-flag of one and the same distribution
_inner_run_c03d = run


def _parents(root):
    import ast as _ast

    out = {}
    for p in _ast.walk(root):
        for c in _ast.iter_child_nodes(p):
            out[id(c)] = p
    return out


def _const_int(e):
    import ast as _ast

    if e is None:
        return None
    if isinstance(e, _ast.UnaryOp) and isinstance(e.op, _ast.USub) and isinstance(e.operand, _ast.Constant) and \
            isinstance(e.operand.value, int):
        return -e.operand.value
    if isinstance(e, _ast.Constant) and isinstance(e.value, int) and not isinstance(e.value, bool):
        return e.value
    raise AnalysisError(f"index `{norm_text(e)}` of the unpacked values is not a constant")


def _consumed_rule(ctx, classes, polar: set) -> int:
    """R-CONSUMED.  Returns the number of kernels examined."""
    import ast as _ast

    n = 0
    for k in sorted(classes, key=lambda c: c.qualname):
        f = None
        for mname in ("_evaluate_from_angular_grid", "_evaluate_kernel", "_calculate_new_array"):
            g = k.own_method(mname)
            if g is not None and not g.is_abstract and _unpack_tokens(g) is not None:
                f = g
                break
        if f is None:
            continue
        toks = _unpack_tokens(f)
        sizes = [len(polar) if t == POLAR else 1 for t in toks]
        total = sum(sizes)
        span, o = {}, 0
        for t, s in zip(toks, sizes):
            span.setdefault(t, set()).update(range(o, o + s))
            o += s
        call = next(c for c in walk_no_nested(f.node) if isinstance(c, _ast.Call) and call_name(c) == "_unpack_distributions")
        par = _parents(f.node)
        st = par.get(id(call))
        ctx.require(isinstance(st, _ast.Assign) and len(st.targets) == 1, f"{f.qualname}: result of _unpack_distributions "
                    "is not assigned")
        tg = st.targets[0]
        if isinstance(tg, (_ast.Tuple, _ast.List)) and len(tg.elts) == 2 and isinstance(tg.elts[0], _ast.Name):
            var = tg.elts[0].id
        else:
            raise AnalysisError(f"{f.qualname}: `values, weights = _unpack_distributions(...)` not recognised")
        stores = [x for x in walk_no_nested(f.node) if isinstance(x, _ast.Name) and x.id == var and isinstance(x.ctx, _ast.Store)]
        ctx.require(len(stores) == 1, f"{f.qualname}: the unpacked values are rebound")
        n_all = sum(1 for x in _ast.walk(f.node) if isinstance(x, _ast.Name) and x.id == var)
        n_top = sum(1 for x in walk_no_nested(f.node) if isinstance(x, _ast.Name) and x.id == var)
        ctx.require(n_all == n_top, f"{f.qualname}: the unpacked values are used inside a nested function")
        consumed: set[int] = set()

        def positions_of(sub) -> list[int]:
            sl = sub.slice
            if isinstance(sl, _ast.Slice):
                if sl.step is not None:
                    raise AnalysisError(f"{f.qualname}: stepped slice of the unpacked values")
                return list(range(total))[slice(_const_int(sl.lower), _const_int(sl.upper))]
            i = _const_int(sl)
            if not -total <= i < total:
                raise AnalysisError(f"{f.qualname}: index {i} outside the {total} unpacked values")
            return [i % total]

        for x in walk_no_nested(f.node):
            if not (isinstance(x, _ast.Name) and x.id == var and isinstance(x.ctx, _ast.Load)):
                continue
            p = par.get(id(x))
            pos = None
            node = x
            if isinstance(p, _ast.Subscript) and p.value is x:
                pos = positions_of(p)
                node, p = p, par.get(id(p))
            else:
                pos = list(range(total))
            while isinstance(p, _ast.Call) and call_name(p) in ("tuple", "list") and len(p.args) == 1:
                node, p = p, par.get(id(p))
            if isinstance(p, _ast.Call) and call_name(p) == "zip" and not p.keywords:
                # zip stops at the shortest sequence: a literal symbol table bounds what is read
                for other in p.args:
                    if other is node:
                        continue
                    d = dotted(other.func.value) if isinstance(other, _ast.Call) and isinstance(other.func, _ast.Attribute) \
                        and other.func.attr == "keys" else dotted(other)
                    if d == "polar_symbols":
                        pos = pos[:len(polar)]
                    else:
                        raise AnalysisError(f"{f.qualname}: unpacked values zipped with `{norm_text(other)[:40]}`")
                consumed |= set(pos)
            elif isinstance(p, _ast.Assign) and p.value is node:
                t0 = p.targets[0]
                if isinstance(t0, (_ast.Tuple, _ast.List)):
                    if any(isinstance(e, _ast.Starred) for e in t0.elts):
                        consumed |= set(pos)
                    else:
                        consumed |= set(pos[:len(t0.elts)])
                elif isinstance(t0, _ast.Name):
                    # a plain alias of one entry (pos has one element) or of the whole tuple (not followed further)
                    if len(pos) == 1:
                        consumed |= set(pos)
                    else:
                        raise AnalysisError(f"{f.qualname}: the unpacked values are aliased as a whole")
                else:
                    raise AnalysisError(f"{f.qualname}: unrecognised use of the unpacked values")
            elif isinstance(p, (_ast.For, _ast.comprehension)) and p.iter is node:
                consumed |= set(pos)
            elif len(pos) == 1 and isinstance(p, (_ast.BinOp, _ast.UnaryOp, _ast.Call, _ast.keyword, _ast.Compare)):
                consumed |= set(pos)  # one entry used inside an expression
            elif isinstance(p, _ast.Return):
                consumed |= set(pos)
            else:
                raise AnalysisError(f"{f.qualname}: unrecognised use of the unpacked values in `{norm_text(p)[:60]}`")
        n += 1
        for t in dict.fromkeys(toks):
            missing = sorted(span[t] - consumed)
            label = "aberration coefficients" if t == POLAR else t
            ctx.check(not missing, "R-CONSUMED", f"{f.qualname}:{label}", f.where,
                      f"the unpacked entr{'ies' if len(span[t]) > 1 else 'y'} of `{label}` (position "
                      f"{min(span[t])}{'..' + str(max(span[t])) if len(span[t]) > 1 else ''} of {total}) "
                      f"{'are' if len(span[t]) > 1 else 'is'} read",
                      f"{f.short} passes `{label}` to _unpack_distributions at position(s) {sorted(span[t])[:3]}"
                      f"{'...' if len(span[t]) > 3 else ''} of {total} but never reads position(s) {missing[:4]} of the result: "
                      "the kernel uses another parameter's values in its place, so the ensemble axis declared for "
                      f"`{label}` does not carry its values", key_detail="unread")
    return n


def _dist_truth(t, is_param) -> "bool | None":
    """Truth value of a guard when the component's parameter is a distribution (never equal to a scalar)."""
    import ast as _ast

    if isinstance(t, _ast.UnaryOp) and isinstance(t.op, _ast.Not):
        r = _dist_truth(t.operand, is_param)
        return None if r is None else not r
    if isinstance(t, _ast.Compare) and len(t.ops) == 1 and isinstance(t.ops[0], (_ast.Eq, _ast.NotEq)):
        a, b = t.left, t.comparators[0]
        for x, y in ((a, b), (b, a)):
            scalar = isinstance(y, _ast.Constant) or (isinstance(y, _ast.Attribute) and y.attr in ("inf", "nan", "pi")) or (
                isinstance(y, _ast.UnaryOp) and isinstance(y.operand, (_ast.Constant, _ast.Attribute)))
            if is_param(x) and scalar:
                return isinstance(t.ops[0], _ast.NotEq)
        return None
    if isinstance(t, _ast.Call) and call_name(t) == "isinstance" and len(t.args) == 2 and is_param(t.args[0]) and \
            "Distribution" in norm_text(t.args[1]):
        return True
    if isinstance(t, _ast.Call) and call_name(t) == "hasattr" and len(t.args) == 2 and is_param(t.args[0]) and \
            isinstance(t.args[1], _ast.Constant) and t.args[1].value in ("values", "weights"):
        return True
    return None


def _component_applied_rule(ctx, repo, consts, polar) -> int:
    import ast as _ast

    ctf = repo.cls("abtem.transfer", "CTF")
    ev = ctf.find_method("_evaluate_from_angular_grid")
    meta = ctf.find_method("ensemble_axes_metadata")
    ctx.require(ev is not None and meta is not None, "CTF kernel / ensemble_axes_metadata not found")
    # components whose axes the CTF declares
    declared = []
    for n in walk_no_nested(meta.node):
        if isinstance(n, _ast.Attribute) and n.attr == "ensemble_axes_metadata" and isinstance(n.value, _ast.Attribute) and \
                dotted(n.value.value) == "self":
            declared.append(n.value.attr)
    ctx.require(len(declared) >= 2, f"{meta.qualname}: component axes not recognised")
    par = _parents(ev.node)
    applied: dict[str, list] = {}
    for c in walk_no_nested(ev.node):
        if isinstance(c, _ast.Call) and isinstance(c.func, _ast.Attribute) and c.func.attr == "_evaluate_from_angular_grid" \
                and isinstance(c.func.value, _ast.Attribute) and dotted(c.func.value.value) == "self":
            applied.setdefault(c.func.value.attr, []).append(c)
    # `for factor in factors: factor._evaluate_from_angular_grid(...)`: a component is applied where it is put into
    # the sequence (list element / append), under the guards around that statement
    indirect = [c for c in walk_no_nested(ev.node) if isinstance(c, _ast.Call) and isinstance(c.func, _ast.Attribute)
                and c.func.attr == "_evaluate_from_angular_grid" and isinstance(c.func.value, _ast.Name)]
    if indirect:
        for a in walk_no_nested(ev.node):
            if isinstance(a, _ast.Attribute) and dotted(a.value) == "self" and a.attr in declared:
                p = par.get(id(a))
                if isinstance(p, (_ast.List, _ast.Tuple)) or (isinstance(p, _ast.Call) and isinstance(p.func, _ast.Attribute)
                                                                and p.func.attr == "append" and a in p.args):
                    applied.setdefault(a.attr, []).append(a)
    n = 0
    for comp in declared:
        kcls = _component_class(repo, ctf, comp)
        ctx.require(kcls is not None, f"CTF.{comp}: component class not resolved")
        dnames = [d for d in (_distributions_literal(repo, kcls, consts) or []) if d not in polar]
        n += 1
        if comp not in applied:
            ctx.violation("R-APPLIED", f"{ev.qualname}:{comp}", ev.where,
                          f"the CTF declares the ensemble axes of `{comp}` but its kernel never evaluates that "
                          "component: the array has no axis for them", key_detail="never")
            continue

        def is_param(e, comp=comp, dnames=dnames):
            d = dotted(e) or ""
            return any(d in (f"self.{comp}.{p}", f"self.{comp}._{p}", f"self.{p}", f"self._{p}") for p in dnames)

        for c in applied[comp]:
            node, p = c, par.get(id(c))
            verdicts = []
            while p is not None and p is not ev.node:
                if isinstance(p, _ast.If) and node is not p.test:
                    in_body = any(node is s for s in p.body)
                    truth = _dist_truth(p.test, is_param)
                    if truth is None:
                        raise AnalysisError(f"{ev.qualname}: guard `{norm_text(p.test)[:60]}` around the `{comp}` "
                                            "component is not of a recognised form")
                    verdicts.append((p, truth == in_body))
                elif isinstance(p, (_ast.For, _ast.While, _ast.Try, _ast.With)):
                    raise AnalysisError(f"{ev.qualname}: `{comp}` is evaluated inside a loop/with/try")
                node, p = p, par.get(id(p))
            bad = [g for g, ok in verdicts if not ok]
            ctx.check(not bad, "R-APPLIED", f"{ev.qualname}:{comp}", ev.loc(c),
                      f"`{comp}` is applied whenever {dnames or 'its parameter'} is a distribution "
                      f"({len(verdicts)} guard(s))",
                      f"the guard `{norm_text(bad[0].test)[:60] if bad else ''}` skips the `{comp}` component when "
                      f"{dnames} is a distribution (a distribution never equals the scalar): the CTF declares an "
                      "ensemble axis for it that the array does not have, and member i is not the run with value i",
                      key_detail="guard")
    return n


def _axis_pair_rule(ctx, repo, classes) -> int:
    import ast as _ast

    seen_funcs = {}
    for k in classes:
        if k.module.name not in ("abtem.transfer", "abtem.tilt", "abtem.transform"):
            continue  # the property quantifies over the transfer functions, the tilts and (C20) the scans
        for mname in ("ensemble_axes_metadata", "_phase_aberrations_ensemble_axes_metadata",
                      "_get_axes_metadata_from_distributions"):
            g = k.find_method(mname)
            if g is not None:
                seen_funcs[g.qualname] = g
    tilt = repo.modules.get("abtem.tilt")
    if tilt is not None:
        for c in tilt.classes.values():
            g = c.own_method("ensemble_axes_metadata")
            if g is not None:
                seen_funcs[g.qualname] = g
    n = 0
    for q, g in sorted(seen_funcs.items()):
        df = DataFlow(g.node)
        par = _parents(g.node)

        def root(e, at, want_attr):
            """canonical text of the distribution object `e` is derived from (through tuple()/list(), a generator over
            it, `.values`, a local temporary)"""
            for _ in range(12):
                if isinstance(e, _ast.Call) and call_name(e) in ("tuple", "list", "bool") and len(e.args) == 1:
                    e = e.args[0]
                elif isinstance(e, (_ast.GeneratorExp, _ast.ListComp)) and len(e.generators) == 1:
                    e = e.generators[0].iter
                elif isinstance(e, _ast.Attribute) and e.attr == want_attr:
                    e = e.value
                    want_attr = None
                elif isinstance(e, _ast.Name):
                    d = df.single_def(at, e.id)
                    if d is not None and d.kind == "assign" and d.value is not None and not isinstance(
                            df.cfg.nodes[d.node].ast.targets[0] if isinstance(df.cfg.nodes[d.node].ast, _ast.Assign)
                            else None, (_ast.Tuple, _ast.List)):
                        e, at = d.value, d.node
                    else:
                        break
                else:
                    break
            # a local that is a loop variable / getattr result stays as it is: both keywords must then name it
            return norm_text(e)

        n_local = 0
        for c in sorted((x for x in walk_no_nested(g.node) if isinstance(x, _ast.Call)), key=lambda x: (x.lineno, x.col_offset)):
            if not (call_name(c) or "").split(".")[-1].endswith("Axis"):
                continue
            kws = {k_.arg: k_.value for k_ in c.keywords if k_.arg}
            if "values" not in kws:
                continue
            stmt = c
            while id(stmt) in par and not isinstance(stmt, _ast.stmt):
                stmt = par[id(stmt)]
            at = df.cfg.node_of(stmt).idx
            vroot = root(kws["values"], at, "values")
            n += 1
            n_local += 0 if vroot.startswith(("self.", "getattr(self")) else 1
            shown = vroot if vroot.startswith(("self.", "getattr(self")) else f"<item {n_local}>"
            construct = f"{q}:{(call_name(c) or '').split('.')[-1]}({shown})"
            mroot = root(kws["_ensemble_mean"], at, "ensemble_mean") if "_ensemble_mean" in kws else None
            problems = []
            if mroot is None:
                problems.append(f"the axis listing the values of `{vroot}` does not carry that distribution's "
                                "ensemble_mean flag (an averaged distribution is kept as a full ensemble axis)")
            elif mroot != vroot:
                problems.append(f"values come from `{vroot}` but the ensemble_mean flag from `{mroot}`")
            # the nearest distribution test that controls the construction must test the same object
            node, p = stmt, par.get(id(stmt))
            while p is not None and p is not g.node:
                if isinstance(p, _ast.If):
                    t = p.test
                    neg = False
                    while isinstance(t, _ast.UnaryOp) and isinstance(t.op, _ast.Not):
                        t, neg = t.operand, not neg
                    if isinstance(t, _ast.Call) and call_name(t) in ("isinstance", "hasattr") and len(t.args) == 2:
                        is_dist_test = ("Distribution" in norm_text(t.args[1])) if call_name(t) == "isinstance" else (
                            isinstance(t.args[1], _ast.Constant) and t.args[1].value in ("values", "weights"))
                        if is_dist_test:
                            troot = root(t.args[0], df.cfg.node_of(p).idx, None)
                            in_body = any(node is s for s in p.body)
                            if troot != vroot:
                                problems.append(f"the axis of `{vroot}` is built when `{troot}` is a distribution")
                            elif in_body == neg:
                                problems.append(f"the axis of `{vroot}` is built when it is *not* a distribution")
                            break
                node, p = p, par.get(id(p))
            ctx.check(not problems, "R-AXISPAIR", construct, g.loc(c),
                      f"values, ensemble_mean flag and distribution test all refer to `{vroot}`",
                      "; ".join(problems) + ": the ensemble axis is labelled / averaged / created according to another "
                      "parameter than the one whose values it lists", key_detail="pair")
    return n


def _grid_match_rule(ctx, repo) -> int:
    """R-GRIDMATCH on CTF._evaluate_from_angular_grid."""
    import ast as _ast
    from fractions import Fraction as _F

    from ..terms import FlowNormalizer as _FN

    ctf = repo.cls("abtem.transfer", "CTF")
    ev = ctf.find_method("_evaluate_from_angular_grid")
    pp = ev.positional_params
    ctx.require(len(pp) >= 3, f"{ev.qualname}: expected (self, alpha, phi)")
    grid_rank = {f"len(1*{q}.shape)" for q in pp[1:3]} | {f"{q}.ndim" for q in pp[1:3]}  # atoms as sa.terms spells them
    df = DataFlow(ev.node)
    par = _parents(ev.node)

    def kind(e, at, depth=0):
        """'trailing' | ('bad', text) | None"""
        if depth > 8:
            return None
        if isinstance(e, _ast.Name):
            d = df.single_def(at, e.id)
            if d is None or d.kind != "assign" or d.value is None:
                return None
            return kind(d.value, d.node, depth + 1)
        if isinstance(e, _ast.BinOp) and isinstance(e.op, _ast.Add):
            return kind(e.right, at, depth + 1)  # leading (ensemble) axes + the grid axes
        if isinstance(e, (_ast.Tuple, _ast.List)):
            try:
                vals = [_const_int(x) for x in e.elts]
            except AnalysisError:
                return None
            if vals and vals == list(range(-len(vals), 0)):
                return "trailing"
            return ("bad", norm_text(e))
        if isinstance(e, _ast.Call) and call_name(e) in ("tuple", "list") and len(e.args) == 1:
            return kind(e.args[0], at, depth + 1)
        if isinstance(e, _ast.Call) and call_name(e) == "range" and len(e.args) in (1, 2) and not e.keywords:
            nz = _FN(df, at)
            lo = nz.norm(e.args[0]) if len(e.args) == 2 else None
            up = nz.norm(e.args[-1])
            if lo is None:
                return ("bad", norm_text(e)) if up.atoms() else None
            atoms = lo.atoms() | up.atoms()
            if not atoms or not atoms <= grid_rank:
                return None
            if up.const_value() == 0 and lo.is_monomial() and list(lo.terms.values()) == [_F(-1)] and \
                    all(len(m) == 1 and m[0][1] == 1 for m in lo.terms):
                return "trailing"
            return ("bad", norm_text(e))
        return None

    n = 0
    for c in sorted((x for x in walk_no_nested(ev.node) if isinstance(x, _ast.Call)), key=lambda x: (x.lineno, x.col_offset)):
        if (call_name(c) or "").split(".")[-1] != "expand_dims_to_broadcast":
            continue
        md = next((k_.value for k_ in c.keywords if k_.arg == "match_dims"), c.args[2] if len(c.args) > 2 else None)
        ctx.require(md is not None, f"{ev.qualname}: expand_dims_to_broadcast without match_dims joins no axes at all")
        stmt = c
        while id(stmt) in par and not isinstance(stmt, _ast.stmt):
            stmt = par[id(stmt)]
        at = df.cfg.node_of(stmt).idx
        if isinstance(md, _ast.Name):
            d = df.single_def(at, md.id)
            md = d.value if d is not None and d.kind == "assign" else md
        ctx.require(isinstance(md, (_ast.Tuple, _ast.List)) and len(md.elts) == 2,
                    f"{ev.qualname}: match_dims is not a pair")
        n += 1
        kinds = [kind(x, at) for x in md.elts]
        if any(k_ is None for k_ in kinds):
            raise AnalysisError(f"{ev.qualname}: match_dims `{norm_text(md)[:60]}` not traced to the grid axes")
        bad = [k_[1] for k_ in kinds if k_ != "trailing"]
        ctx.check(not bad, "R-GRIDMATCH", f"{ev.qualname}:match_dims#{n}", ev.loc(c),
                  "both arrays are joined on their trailing grid axes",
                  f"match_dims ends in `{bad[0] if bad else ''}`, which is not the trailing axes "
                  "(-rank, ..., -1) of the angular grid: the component's grid axes are not identified with "
                  "the array's, so the product is an outer product over the grid and no member equals the scalar run",
                  key_detail="grid")
    return n


def run(ctx) -> None:  # noqa: F811
    ctx.rule("R-CONSUMED", "every argument a kernel passes to _unpack_distributions is read back from the returned tuple "
             "at the position it was passed (constant index, slice, destructuring, zip with the symbol table — zip "
             "stops after len(polar_symbols) entries): an entry that is never read means the kernel computes with "
             "another parameter's values in its place, so member i along the axis declared for that parameter is not "
             "the run with its value i")
    ctx.rule("R-APPLIED", "every component whose ensemble axes CTF.ensemble_axes_metadata declares is evaluated by "
             "CTF._evaluate_from_angular_grid on the paths on which that component's parameter is a distribution: each "
             "guard around the evaluation is decided for a distribution-valued parameter (`p != scalar` true, "
             "`p == scalar` false, isinstance/hasattr true, `not`) and must lead to the evaluation")
    ctx.rule("R-GRIDMATCH", "every expand_dims_to_broadcast in CTF._evaluate_from_angular_grid matches, for both arrays, "
             "(leading ensemble axes +) the trailing axes of the angular grid: tuple(range(-len(alpha.shape), 0)) or a "
             "literal (-k, ..., -1).  Axes that are not matched are broadcast against each other: without the grid "
             "axes in match_dims the component kernels are combined as an outer product over the grid")
    ctx.rule("R-AXISPAIR", "in the ensemble-axes builders (transfer, tilt, the generic builder) an axis constructor's "
             "`values=` and `_ensemble_mean=` are derived from one and the same distribution object, and the "
             "isinstance/hasattr test that controls its construction tests that same object on the arm where it is a "
             "distribution: values of one parameter under the flag or the existence condition of another break "
             "'the axis lists exactly those values' and 'averaged axes equal the weighted mean'")
    repo = ctx.repo
    consts = module_constants(repo.module("abtem.transfer"))
    ctx.require("polar_symbols" in consts, "polar_symbols is not a foldable literal")
    polar = set(consts["polar_symbols"].keys())
    base = repo.cls(DIST, "EnsembleFromDistributions")
    classes = [c for c in recon.concrete_classes(repo) if base in c.mro()]
    n = _consumed_rule(ctx, classes, polar)
    ctx.require(n >= 3, f"R-CONSUMED examined only {n} kernels")
    n = _component_applied_rule(ctx, repo, consts, polar)
    ctx.require(n >= 3, f"R-APPLIED examined only {n} components")
    n = _grid_match_rule(ctx, repo)
    ctx.require(n >= 2, f"R-GRIDMATCH examined only {n} broadcasts")
    n = _axis_pair_rule(ctx, repo, classes)
    ctx.require(n >= 6, f"R-AXISPAIR examined only {n} axis constructors")
    _inner_run_c03d(ctx)


# ---- added after the seeded change C03-r4seed2: the array a kernel returns is linear in the ensemble weights
_inner_run_c03e = run


def _weight_linear_rule(ctx) -> int:
    from ..rules import weightlin

    repo = ctx.repo
    un = repo.function(DIST, "_unpack_distributions")
    kernels = [f for f in repo.all_functions() if f is not un and not f.is_abstract and weightlin.unpack_calls(f)]
    n = 0
    for f in sorted(kernels, key=lambda g: g.qualname):
        v = weightlin.decide(f)
        n += 1
        construct = f"{f.qualname}:returned array"
        if v.kind == "linear":
            ctx.ok("R-WEIGHTLINEAR", construct, f.where,
                   f"weights x (term free of the weights) on {v.n_paths} path(s) after the unpacking "
                   f"({v.n_exempt} path(s) return before it or without weights)")
            continue
        for detail, text, node in v.problems:
            if detail == "discarded":
                ctx.violation("R-WEIGHTLINEAR", construct, f.loc(node),
                              f"{f.short} unpacks its distributions but throws the weights returned by "
                              "_unpack_distributions away: the returned array does not depend on them, member i is not "
                              "weight_i x (the array of value i) as it is for the kernels that apply them, and an "
                              "averaged (ensemble_mean) axis is the plain mean whatever weights the distribution defines",
                              key_detail="discarded")
            elif detail == "dropped":
                ctx.violation("R-WEIGHTLINEAR", construct, f.loc(node),
                              f"{f.short}: {text} although they were unpacked and are not None on that path: member i "
                              "is not weight_i x (the array of value i)", key_detail="dropped")
            else:
                ctx.violation("R-WEIGHTLINEAR", construct, f.loc(node),
                              f"{f.short}: {text}; the returned array is not weight_i x (the array of the scalar value "
                              "i): the weights of a distribution scale something else than the amplitude of member i, "
                              "so neither the members nor the averaged axis are what the distribution defines",
                              key_detail="nonlinear")
    return n


def run(ctx) -> None:  # noqa: F811
    from ..rules import deferred

    ctx.rule("R-WEIGHTLINEAR", "every function that unpacks parameter distributions with _unpack_distributions(...) "
             "(which returns the broadcast values and the broadcast product of the distributions' weights) returns, on "
             "every path after the unpacking on which the weights are not None, a term that is LINEAR in those "
             "weights: in the polynomial normal form of the returned value (symbolic execution of the body, all "
             "branches) every monomial carries the weights exactly to the first power as an outer factor, and the "
             "weights occur nowhere inside the argument of a non-linear construct (complex_exponential, exp, sqrt, "
             "abs, a power, a quotient ...); the weights may not be thrown away either.  Otherwise member i is not "
             "weight_i x (the run with value i) and an averaged axis is not the weighted mean the distribution defines. "
             "The weights are identified by their origin, not by a name; casts, transports (asnumpy), indexing, "
             "temporaries, `*=` and commuted products are read through")
    ctx.undecided("weights of distributions that a kernel reads without _unpack_distributions (Aperture.semiangle_cutoff "
                  "through xp.asarray, the beam tilts): those kernels never see the weights")

    def new():
        n = _weight_linear_rule(ctx)
        ctx.require(n >= 2, f"R-WEIGHTLINEAR examined only {n} functions that call _unpack_distributions")

    deferred.run(ctx, new, _inner_run_c03e)


# ---- added after the seeded change C03-r6seed2: what a distribution-valued parameter undergoes between the user and
# ---- the kernel (sign-flipping aliases, scalings, validate_distribution) keeps its weights and its ensemble_mean flag
_inner_run_c03f = run

_UNARY_DUNDER = {ast.USub: ("__neg__", "negation"), ast.UAdd: ("__pos__", "unary plus")}
_BINARY_DUNDER = {ast.Mult: ("mul", "product"), ast.Div: ("truediv", "quotient"), ast.Add: ("add", "sum"),
                  ast.Sub: ("sub", "difference"), ast.FloorDiv: ("floordiv", "floor quotient"),
                  ast.Pow: ("pow", "power"), ast.Mod: ("mod", "remainder"), ast.MatMult: ("matmul", "matrix product")}
_NEVER_A_DISTRIBUTION = {"Number", "str", "int", "float", "complex", "bool", "tuple", "list", "dict", "ndarray",
                         "SupportsFloat", "Real", "Integral"}


def _distribution_classes(repo):
    base = repo.cls(DIST, "BaseDistribution")
    out, other = [], []
    for c in recon.concrete_classes(repo):
        if base not in c.mro() or c is base:
            continue
        init = c.find_method("__init__")
        params = set(init.params) if init is not None else set()
        # a parameter distribution is built from values and weights or from component distributions; a class outside
        # the distributions module whose constructor takes neither never holds the state the operators work on
        if c.module.name == DIST or {"values", "weights"} <= params or "distributions" in params:
            out.append(c)
        else:
            other.append(c)
    if not out:
        raise AnalysisError("no concrete subclass of BaseDistribution found")
    return base, sorted(out, key=lambda c: c.qualname), sorted(other, key=lambda c: c.qualname)


def _capable_names(repo, classes, consts) -> dict:
    """{method node id: (FuncInfo, names)}: the methods along the MRO of every ensemble class that declares
    distribution-valued parameters, with the names (and sign/alias names) of those parameters."""
    aliases = consts.get("polar_aliases", {})
    if not isinstance(aliases, dict):
        raise AnalysisError("polar_aliases is not a foldable literal")
    out: dict = {}
    for k in classes:
        d = _distributions_literal(repo, k, consts)
        if not d:
            continue
        names = set(d) | {a for a, s in aliases.items() if s in d}
        for c in k.mro():
            for defs in c.methods.values():
                for f in defs:
                    ent = out.setdefault(id(f.node), (f, set()))
                    ent[1].update(names)
    return out


def _operand_role(n: ast.AST, f: FuncInfo, names: set) -> Optional[str]:
    """Is `n` (inside f) a read of a parameter that may hold a distribution?  -> a stable description of its role."""
    if not isinstance(getattr(n, "ctx", None), ast.Load):
        return None
    pp = f.positional_params
    if isinstance(n, ast.Name):
        if f.is_setter and len(pp) == 2 and n.id == pp[1] and f.name in names:
            return "the assigned value"
        if f.name == "__setattr__" and len(pp) == 3 and n.id == pp[2]:
            return "the assigned value"
        if f.name == "__init__" and n.id in names and n.id in f.params:
            return f"the argument `{n.id}`"
        return None
    if isinstance(n, ast.Attribute) and isinstance(n.value, ast.Name) and pp and n.value.id == pp[0]:
        if n.attr in names or (n.attr.startswith("_") and n.attr[1:] in names):
            return f"self.{n.attr.lstrip('_')}"
        return None
    if isinstance(n, ast.Subscript) and isinstance(n.slice, ast.Constant) and n.slice.value in names and \
            isinstance(n.value, ast.Attribute) and isinstance(n.value.value, ast.Name) and pp and n.value.value.id == pp[0]:
        return f"the stored `{n.slice.value}`"
    return None


def _excluded_by_guard(node: ast.AST, par: dict, top: ast.AST, operand_text: str) -> bool:
    """The site lies on the arm of an isinstance/hasattr test of the same operand on which it is NOT a distribution."""
    is_param = lambda e: norm_text(e) == operand_text
    p = par.get(id(node))
    while p is not None and p is not top:
        if isinstance(p, ast.If) and node is not p.test:
            t = p.test
            if any(isinstance(c, ast.Call) and call_name(c) in ("isinstance", "hasattr") for c in ast.walk(t)):
                truth = _dist_truth(t, is_param)
                in_body = any(node is s for s in p.body)
                if truth is not None and truth != in_body:
                    return True
        elif isinstance(p, ast.IfExp) and node is not p.test:
            truth = _dist_truth(p.test, is_param)
            if truth is not None and truth != (node is p.body):
                return True
        node, p = p, par.get(id(p))
    return False


def _operator_sites(repo, scanned: dict, validate: FuncInfo):
    """[(FuncInfo, operator node, dunder, construct)] for every unary/binary operator applied — directly, through
    validate_distribution(...) or on the result of another such operator — to a read of a distribution-valued
    parameter; and the calls of validate_distribution on such reads."""
    sites, vsites = [], []
    for f, names in sorted(scanned.values(), key=lambda t: (t[0].qualname, t[0].node.lineno)):
        par = _parents(f.node)
        seen: dict[str, int] = {}
        nodes = sorted((n for n in walk_no_nested(f.node) if isinstance(n, (ast.Name, ast.Attribute, ast.Subscript))),
                       key=lambda n: (n.lineno, n.col_offset))
        for n in nodes:
            role = _operand_role(n, f, names)
            if role is None:
                continue
            if _excluded_by_guard(n, par, f.node, norm_text(n)):
                continue
            node, p = n, par.get(id(n))
            while p is not None:
                if isinstance(p, ast.Call) and any(a is node for a in p.args) and \
                        repo.resolve_name(f.module, dotted(p.func) or "") is validate:
                    vsites.append((f, p))
                elif isinstance(p, ast.UnaryOp) and type(p.op) in _UNARY_DUNDER:
                    dunder, word = _UNARY_DUNDER[type(p.op)]
                    sites.append((f, p, dunder, word, role))
                elif isinstance(p, ast.BinOp) and type(p.op) in _BINARY_DUNDER:
                    stem, word = _BINARY_DUNDER[type(p.op)]
                    sites.append((f, p, f"__{'r' if node is p.right else ''}{stem}__", word, role))
                else:
                    break
                node, p = p, par.get(id(p))
    out = []
    counts: dict[str, int] = {}
    for f, p, dunder, word, role in sites:
        c = f"{f.qualname}{'.setter' if f.is_setter else ''}:{word} of {role}"
        counts[c] = counts.get(c, 0) + 1
        out.append((f, p, dunder, c if counts[c] == 1 else f"{c} #{counts[c]}"))
    return out, vsites


def _returns_distribution_unchanged(repo, fn: FuncInfo, d: ClassInfo):
    """Abstractly run `fn(x)` for x an instance of the distribution class `d`: (True, text, node) when the value
    returned on that path is the argument itself."""
    pp = fn.positional_params
    if len(pp) != 1:
        raise AnalysisError(f"{fn.qualname}: expected one parameter")
    x = pp[0]
    df = DataFlow(fn.node)

    def inst(t: ast.AST) -> bool:
        els = t.elts if isinstance(t, ast.Tuple) else [t]
        res = False
        for e in els:
            target = repo.resolve_name(fn.module, dotted(e) or "")
            if isinstance(target, ClassInfo):
                res = res or target in d.mro()
            elif (dotted(e) or "").split(".")[-1] in _NEVER_A_DISTRIBUTION:
                continue
            else:
                raise AnalysisError(f"{fn.qualname}: isinstance against `{norm_text(e)}` not modelled")
        return res

    def truth(t: ast.AST):
        if isinstance(t, ast.UnaryOp) and isinstance(t.op, ast.Not):
            r = truth(t.operand)
            return None if r is None else not r
        if isinstance(t, ast.BoolOp):
            vals = [truth(v) for v in t.values]
            if isinstance(t.op, ast.And):
                return False if any(v is False for v in vals) else (True if all(v is True for v in vals) else None)
            return True if any(v is True for v in vals) else (False if all(v is False for v in vals) else None)
        if isinstance(t, ast.Call) and call_name(t) == "isinstance" and len(t.args) == 2 and dotted(t.args[0]) == x:
            if any(dd.kind != "param" for dd in df.reaching(df.cfg.node_of(cur[0]).idx, x)):
                raise AnalysisError(f"{fn.qualname}: `{x}` is rebound before it is tested")
            return inst(t.args[1])
        return None

    cur: list = [None]

    def run_body(body):
        for st in body:
            cur[0] = st
            if isinstance(st, ast.If):
                r = truth(st.test)
                if r is None:
                    raise AnalysisError(f"{fn.qualname}: test `{norm_text(st.test)[:60]}` not decided for a "
                                        f"{d.name} argument")
                got = run_body(st.body if r else st.orelse)
                if got is not None:
                    return got
            elif isinstance(st, (ast.Return, ast.Raise)):
                return st
            elif isinstance(st, (ast.Assign, ast.AnnAssign, ast.AugAssign, ast.Expr, ast.Pass, ast.Assert)):
                continue
            else:
                raise AnalysisError(f"{fn.qualname}: statement `{norm_text(st)[:50]}` not modelled")
        return None

    end = run_body(fn.body)
    if end is None or isinstance(end, ast.Raise) or end.value is None:
        return False, f"{fn.short} does not return a {d.name} argument (it " + (
            "raises" if isinstance(end, ast.Raise) else "returns nothing") + ")", end or fn.node
    v = end.value
    while isinstance(v, ast.Call):  # a copy of a distribution is the same distribution (CopyMixin)
        if isinstance(v.func, ast.Attribute) and v.func.attr == "copy" and not v.args and not v.keywords:
            v = v.func.value
        elif call_name(v) in ("copy", "copy.copy", "deepcopy", "copy.deepcopy") and len(v.args) == 1 and not v.keywords:
            v = v.args[0]
        else:
            break
    same = isinstance(v, ast.Name) and v.id == x and all(
        dd.kind == "param" for dd in df.reaching(df.cfg.node_of(end).idx, x))
    return same, f"{fn.short} returns `{norm_text(end.value)[:60]}` for a {d.name} argument", end


def _alias_weights_rule(ctx) -> tuple[int, int]:
    from . import c36

    repo = ctx.repo
    consts = module_constants(repo.module("abtem.transfer"))
    base = repo.cls(DIST, "EnsembleFromDistributions")
    classes = [c for c in recon.concrete_classes(repo) if base in c.mro()]
    scanned = _capable_names(repo, classes, consts)
    ctx.require(len(scanned) >= 20, f"R-ALIASWEIGHTS found only {len(scanned)} methods of classes with distribution-"
                                     "valued parameters")
    validate = repo.function(DIST, "validate_distribution")
    _, dclasses, others = _distribution_classes(repo)
    for c in others:
        ctx.info("R-ALIASWEIGHTS", c.qualname, c.where, "subclass of BaseDistribution outside abtem.distributions whose "
                 "constructor takes neither values/weights nor component distributions: not a parameter distribution")
    sites, vsites = _operator_sites(repo, scanned, validate)

    # ---- every operator site resolves, for every distribution class, to a method of that class
    reached: dict[tuple[str, str], tuple[ClassInfo, FuncInfo, list[str]]] = {}
    for f, node, dunder, construct in sites:
        missing = []
        for d in dclasses:
            m = d.find_method(dunder)
            if m is None or m.is_abstract:
                missing.append(d.name)
            else:
                reached.setdefault((d.qualname, dunder), (d, m, []))[2].append(construct.split(":")[0].split(".", 2)[-1])
        ctx.check(not missing, "R-ALIASWEIGHTS", construct, f.loc(node),
                  f"`{norm_text(node)[:50]}` on a distribution is {dunder} of " + ", ".join(d.name for d in dclasses),
                  f"`{norm_text(node)[:50]}` is applied to a parameter that may be a distribution, but "
                  f"{', '.join(missing)} define{'s' if len(missing) == 1 else ''} no {dunder}: the operator raises "
                  "TypeError for a distribution or (numpy operand) reduces it through __array__ to its bare values — "
                  "weights and ensemble_mean are lost before the parameter is stored", key_detail="undefined")

    # ---- the operator methods reached: values = op(values), weights and ensemble_mean the receiver's own
    from ..terms import Poly as _Poly

    def flat(d: ClassInfo) -> bool:
        init = d.find_method("__init__")
        ctx.require(init is not None, f"{d.qualname}: constructor not found")
        return {"values", "weights"} <= set(init.params)

    n_methods = 0
    # composite distributions first: they hand the operator on to their components
    for (_, dunder), (d, m, where) in sorted(reached.items()):
        if flat(d):
            continue
        via = ", ".join(dict.fromkeys(where))
        n_methods += 1
        _, owner, comp, it_ok, op, ret = c36.multi_component_op(d, dunder)
        v_, o_ = _Poly.atom("v"), _Poly.atom("o")
        want, got = c36.operator_values(dunder, v_, o_), c36.operator_values(op, v_, o_)
        same = want is not None and got is not None and want == got
        ctx.check(it_ok and same, "R-ALIASWEIGHTS", f"{m.qualname}:components", m.loc(ret),
                  f"applies {op} to every component, whose weights and flag it keeps (reached from {via})",
                  (f"applies {op} instead of {dunder} to its components" if not same else
                   f"maps over `{norm_text(comp.generators[0].iter)}`, not over all components")
                  + f": a multidimensional distribution given through {via} is not stored as the distribution of "
                  "the transformed values with the weights of the original", key_detail="components")
        if same:
            lost = []
            for c in dclasses:
                if not flat(c):
                    continue
                m2 = c.find_method(op)
                if m2 is None or m2.is_abstract:
                    lost.append(c.name)
                else:
                    reached.setdefault((c.qualname, op), (c, m2, []))[2].extend(where)
            ctx.check(not lost, "R-ALIASWEIGHTS", f"{m.qualname}:component operator", m.loc(ret),
                      f"{op} is defined by the component classes",
                      f"{m.short} applies {op} to its components, which {', '.join(lost)} do not define",
                      key_detail="component-undefined")
    for (_, dunder), (d, m, where) in sorted(reached.items()):
        if not flat(d):
            continue
        via = ", ".join(dict.fromkeys(where))
        n_methods += 1
        for detail, ok, good, bad, node in c36.operator_contract(repo, d, m):
            if detail == "values":
                tail = ("member i of a parameter given through it is not the run with the transformed value i "
                        "that the scalar alias means")
            elif detail == "weights":
                tail = (f"a distribution given through {via} silently loses its weights — with non-uniform weights "
                        "member i is no longer weight_i x (the scalar run) and an averaged axis is not the weighted "
                        "mean the distribution defines")
            else:
                tail = (f"a distribution given through {via} does not keep its {detail}: the axis is averaged / kept "
                        "contrary to what the user's distribution says")
            ctx.check(ok, "R-ALIASWEIGHTS", f"{m.qualname}:{detail}", m.loc(node),
                      f"{good} (reached from {via})", f"{bad}; {tail}", key_detail=detail)

    # ---- validate_distribution hands a distribution on as it is
    for d in dclasses:
        ok, text, node = _returns_distribution_unchanged(repo, validate, d)
        ctx.check(ok, "R-ALIASWEIGHTS", f"{validate.qualname}:{d.name} argument", validate.loc(node),
                  f"returns the distribution itself ({len(vsites)} call sites on parameters of the ensemble classes)",
                  f"{text}, not the argument itself: a distribution parameter is re-wrapped on its way into the "
                  "transfer function and loses its weights / ensemble_mean", key_detail="rewrapped")
    return len(sites), n_methods


def run(ctx) -> None:  # noqa: F811
    from ..rules import deferred

    ctx.rule("R-ALIASWEIGHTS", "between the user and the kernel a distribution-valued parameter is transformed in a "
             "few places: sign-flipping aliases (`defocus` is stored as C10 = −defocus and read back as −C10), scalings, "
             "validate_distribution.  The places are enumerated from the code: in every method along the MRO of an "
             "ensemble class that declares distribution parameters, each unary / binary operator applied to a read of "
             "such a parameter (setter value, constructor argument, self.<name>, the coefficient table) — directly, "
             "through validate_distribution or on the result of another operator.  Each operator is resolved, for every "
             "concrete distribution class, to its dunder method through the MRO (a missing method is a violation: the "
             "operator is undefined for distributions).  The method reached must return the receiver with the operator "
             "applied to the VALUES only: what it hands to the class constructor — directly or through a factory "
             "function whose defaults are applied — is values = op(receiver's values), weights = the receiver's weights "
             "(origin, through value-preserving wrappers) and ensemble_mean = the receiver's flag; a multidimensional "
             "distribution applies the same operator to every component.  validate_distribution returns a "
             "distribution argument itself.  Otherwise a weighted distribution given through an alias is silently "
             "simulated with other weights than the same distribution given through the primary name: member i is "
             "not weight_i x (scalar run) and the averaged axis is not the weighted mean")

    def new():
        n, m = _alias_weights_rule(ctx)
        ctx.require(n >= 2 and m >= 2, f"R-ALIASWEIGHTS found only {n} operator sites / {m} operator methods")

    deferred.run(ctx, new, _inner_run_c03f)
