"""C35 — axis metadata behaves like the value sequences it describes (abtem/core/axes.py)."""
from __future__ import annotations

import ast
from typing import Optional

from ..cfg import DataFlow
from ..model import AnalysisError, ClassInfo, FuncInfo, call_name, dotted, last_attr, norm_text, walk_no_nested
from ..rules import axis_registry as reg
from ..terms import FlowNormalizer, Poly

MOD = reg.AXES_MOD


def _single_return(f: FuncInfo) -> ast.Return:
    rets = [n for n in walk_no_nested(f.node) if isinstance(n, ast.Return) and n.value is not None]
    if len(rets) != 1:
        raise AnalysisError(f"{f.qualname}: expected one `return <value>`, found {len(rets)}")
    return rets[0]


def _is_asdict_self(e: ast.AST) -> bool:
    return isinstance(e, ast.Call) and last_attr(e) == "asdict" and len(e.args) == 1 and dotted(e.args[0]) == "self"


def _rebuild(ctx, f: FuncInfo, rule: str):
    """`return self.__class__(**kw)` with kw = dataclasses.asdict(self): returns (kw name, DataFlow)."""
    df = DataFlow(f.node)
    ret = _single_return(f)
    v = ret.value
    ctx.require(isinstance(v, ast.Call), f"{f.qualname}: result is not a constructor call")
    fn = v.func
    same_cls = dotted(fn) == "self.__class__" or (isinstance(fn, ast.Call) and dotted(fn.func) == "type"
                                                  and len(fn.args) == 1 and dotted(fn.args[0]) == "self")
    ctx.check(same_cls, rule, f"{f.qualname}:same-class", f.loc(ret), "result is built with the receiver's own class",
              f"result is built with `{norm_text(fn)}`: subclasses lose their type (and their extra fields make the "
              "call fail)", key_detail="class")
    stars = [k for k in v.keywords if k.arg is None]
    ctx.require(len(stars) == 1 and isinstance(stars[0].value, ast.Name) and not v.args and len(v.keywords) == 1,
                f"{f.qualname}: result is not built from a single **dict")
    kw = stars[0].value.id
    defs = [d for d in df.defs if d.var == kw and d.kind == "assign"]
    ctx.require(len(defs) == 1, f"{f.qualname}: `{kw}` is assigned {len(defs)} times")
    ctx.check(_is_asdict_self(defs[0].value), rule, f"{f.qualname}:all-fields", f.loc(df.cfg.nodes[defs[0].node].ast),
              "the keyword dict starts as dataclasses.asdict(self): every field is carried over",
              f"the keyword dict starts as `{norm_text(defs[0].value)[:60]}`, not as the receiver's fields",
              key_detail="asdict")
    return kw, df, ret


def _field_stores(f: FuncInfo, kw: str) -> list[tuple[ast.Assign, object]]:
    out = []
    for st in walk_no_nested(f.node):
        if isinstance(st, (ast.Assign, ast.AugAssign)):
            tgts = st.targets if isinstance(st, ast.Assign) else [st.target]
            for t in tgts:
                if isinstance(t, ast.Subscript) and isinstance(t.value, ast.Name) and t.value.id == kw:
                    if not (isinstance(t.slice, ast.Constant) and isinstance(t.slice.value, str)):
                        raise AnalysisError(f"{f.qualname}: store into `{kw}` under a computed key")
                    out.append((st, t.slice.value))
        for c in ([st.value] if isinstance(st, ast.Expr) else []):
            if isinstance(c, ast.Call) and isinstance(c.func, ast.Attribute) and isinstance(c.func.value, ast.Name) \
                    and c.func.value.id == kw:
                if c.func.attr in ("pop", "clear", "popitem"):
                    out.append((st, None))
                elif c.func.attr in ("update", "setdefault", "__setitem__"):
                    raise AnalysisError(f"{f.qualname}: `{norm_text(c)[:50]}` changes `{kw}` in a way the analyser "
                                        "does not follow")
        if isinstance(st, ast.Delete):
            for t in st.targets:
                if isinstance(t, ast.Subscript) and isinstance(t.value, ast.Name) and t.value.id == kw:
                    out.append((st, None))
    return out


def _is_values_of(e: ast.AST, kw: Optional[str], owner: str) -> bool:
    """kw["values"] (owner == 'self') or <owner>.values, through tuple()/list()."""
    while isinstance(e, ast.Call) and dotted(e.func) in ("tuple", "list") and len(e.args) == 1:
        e = e.args[0]
    if owner == "self" and kw is not None and isinstance(e, ast.Subscript) and isinstance(e.value, ast.Name) and \
            e.value.id == kw and isinstance(e.slice, ast.Constant) and e.slice.value == "values":
        return True
    return dotted(e) == f"{owner}.values"


DATACLASS_RULE = ("the dict form is dataclasses.asdict and the reader calls cls(**fields): every axis class "
                  "that introduces a new field is decorated with @dataclass (else the field is missing from the dict), no "
                  "field is declared init=False, no dataclass(init=False), and no axis class defines its own __init__")


def _all_fields_written(ctx, w: FuncInfo) -> None:
    """Every entry of dataclasses.asdict(axis) reaches the returned dict: the dict is returned itself (values may be
    converted in place), or a new dict is filled in a loop over `.items()` whose store is executed on every pass."""
    from ..cfg import CFG

    rets = [r for r in walk_no_nested(w.node) if isinstance(r, ast.Return) and r.value is not None]
    asd = [c for c in walk_no_nested(w.node) if isinstance(c, ast.Call) and last_attr(c) == "asdict"]
    if len(rets) != 1 or not isinstance(rets[0].value, ast.Name) or len(asd) != 1:
        return  # other shapes are judged by the asdict / comprehension rule below
    out = rets[0].value.id
    direct = any(isinstance(st, ast.Assign) and st.value is asd[0] and dotted(st.targets[0]) == out
                 for st in walk_no_nested(w.node))
    problems = []
    where = w.where
    if direct:
        for st in walk_no_nested(w.node):
            drops = (isinstance(st, ast.Delete) and any(isinstance(t, ast.Subscript) and dotted(t.value) == out
                                                        for t in st.targets)) or (
                isinstance(st, ast.Expr) and isinstance(st.value, ast.Call) and isinstance(st.value.func, ast.Attribute)
                and st.value.func.attr in ("pop", "popitem", "clear") and dotted(st.value.func.value) == out)
            if drops:
                problems.append(f"`{norm_text(st)[:60]}` removes entries from the dict form")
                where = w.loc(st)
    else:
        loops = [l for l in walk_no_nested(w.node) if isinstance(l, ast.For) and any(x is asd[0] for x in ast.walk(l.iter))]
        if len(loops) != 1:
            raise AnalysisError(f"{w.qualname}: the returned dict `{out}` is neither dataclasses.asdict(...) itself nor "
                                "filled in one loop over its items")
        loop = loops[0]
        cfg = CFG(w.node)
        header = cfg.node_of(loop).idx
        body = cfg.loop_body_nodes(header)
        stores = [cfg.node_of(st).idx for st in ast.walk(loop) if isinstance(st, ast.Assign) and any(
            isinstance(t, ast.Subscript) and dotted(t.value) == out for t in st.targets)]
        if not stores:
            problems.append(f"the loop over the fields never stores into `{out}`")
        else:
            seen, stack, skip = set(), [x for x in cfg.nodes[header].succ if x in body], False
            while stack:
                x = stack.pop()
                if x in stores or x in seen:
                    continue
                seen.add(x)
                for s2 in cfg.nodes[x].succ:
                    if s2 == header:
                        skip = True
                    elif s2 in body:
                        stack.append(s2)
            if skip:
                conds = [norm_text(i.test) for i in ast.walk(loop) if isinstance(i, ast.If)
                         and any(isinstance(x, ast.Continue) for b in i.body + i.orelse for x in ast.walk(b))]
                problems.append("a pass of the loop over the fields can end without storing the field"
                                + (f" (`if {conds[0]}: continue`)" if conds else "") +
                                ": such fields are missing from the dict and come back as the class default, which "
                                "need not be the value that was written")
                where = w.loc(loop)
    ctx.check(not problems, "R-DATACLASS", f"{w.qualname}:all-fields", where,
              "every field of dataclasses.asdict(axis) is written", "; ".join(problems), key_detail="all-fields")


def dataclass_rules(ctx, repo, classes=None, writers=None) -> None:
    """R-DATACLASS, shared by C35 (dict round trip) and C30 (zarr round trip writes axes with axis_to_dict)."""
    classes = classes if classes is not None else reg.axis_classes(repo)
    writers = writers if writers is not None else [repo.function(MOD, "axis_to_dict"),
                                                   repo.method(MOD, reg.BASE, "to_dict")]
    writers = reg.resolve_delegates(repo, writers)
    for w in writers:
        _all_fields_written(ctx, w)
    for w in writers:
        recv = (w.positional_params[0] if w.positional_params else "", "self", "axis")
        calls = [c for c in walk_no_nested(w.node) if isinstance(c, ast.Call) and last_attr(c) == "asdict"]
        arg_ok = len(calls) == 1 and len(calls[0].args) == 1 and dotted(calls[0].args[0]) in recv
        how = "dict form = dataclasses.asdict(axis)"
        why = "the writer no longer takes the fields from dataclasses.asdict(axis)"
        if not calls:
            # equivalent spelling: {f.name: getattr(axis, f.name) for f in dataclasses.fields(axis)} — all fields, no filter
            for dc in (n for n in walk_no_nested(w.node) if isinstance(n, ast.DictComp)):
                g = dc.generators[0]
                if len(dc.generators) == 1 and isinstance(g.iter, ast.Call) and last_attr(g.iter) == "fields" \
                        and len(g.iter.args) == 1 and dotted(g.iter.args[0]) in recv and isinstance(g.target, ast.Name):
                    f_ = g.target.id
                    key_ok = dotted(dc.key) == f"{f_}.name"
                    val_ok = isinstance(dc.value, ast.Call) and call_name(dc.value) == "getattr" and \
                        len(dc.value.args) == 2 and dotted(dc.value.args[0]) in recv and \
                        dotted(dc.value.args[1]) == f"{f_}.name"
                    if g.ifs:
                        why = (f"the writer collects the fields of the axis with the filter `{norm_text(g.ifs[0])}`: "
                               "fields that fail it are not written and come back as class defaults")
                    elif key_ok and val_ok:
                        arg_ok, how = True, "dict form = {f.name: getattr(axis, f.name) for f in fields(axis)}"
        ctx.check(arg_ok, "R-DATACLASS", f"{w.qualname}:asdict", w.where, how, why, key_detail="asdict")

    for c in classes:
        own_new = [name for name, owner in reg.dataclass_fields(c).items() if owner is c]
        deco = [d for d in c.node.decorator_list
                if (dotted(d.func if isinstance(d, ast.Call) else d) or "").split(".")[-1] == "dataclass"]
        problems = []
        if own_new and not deco:
            problems.append(f"introduces field(s) {own_new} but is not decorated with @dataclass: they are missing "
                            "from asdict() and are lost when the axis is written and read back")
        for d in deco:
            if isinstance(d, ast.Call):
                for k in d.keywords:
                    if k.arg == "init" and isinstance(k.value, ast.Constant) and k.value.value is False:
                        problems.append("dataclass(init=False): cls(**fields) cannot set the fields")
        for name, val in c.class_attrs.items():
            if isinstance(val, ast.Call) and last_attr(val) == "field":
                for k in val.keywords:
                    if k.arg == "init" and isinstance(k.value, ast.Constant) and k.value.value is False:
                        problems.append(f"field `{name}` is init=False: asdict() writes it but cls(**fields) rejects it")
        if c.own_method("__init__") is not None:
            raise AnalysisError(f"{c.qualname} defines its own __init__; the reconstruction contract cls(**asdict) "
                                "cannot be decided")
        ctx.check(not problems, "R-DATACLASS", c.qualname, c.where,
                  f"{'dataclass' if deco else 'inherits the dataclass of its base'}; new fields {own_new or '—'}",
                  "; ".join(problems), key_detail="dataclass")



def run(ctx) -> None:
    repo = ctx.repo
    ctx.rule("R-REGISTRY", reg.__doc__.split("(registry)")[1].split("(type key)")[0])
    ctx.rule("R-TYPEKEY", "the key under which to_dict/axis_to_dict store the class name is the key "
             "from_dict/axis_from_dict look up and strip, and is not a field of any axis class")
    ctx.rule("R-DATACLASS", DATACLASS_RULE)
    ctx.rule("R-ORDINAL", "OrdinalAxis.__getitem__ and concatenate rebuild type(self)(**asdict(self)) and change only "
             "the 'values' entry: __getitem__ stores values indexed by exactly the given item, concatenate stores "
             "self.values followed by other.values (in this order)")
    ctx.rule("R-LINEAR", "LinearAxis.coordinates(n) is offset + i·sampling for i = 0..n−1: linspace(offset, offset + "
             "sampling·n, n, endpoint=False) or an equivalent form")
    ctx.rule("R-AXISCONV", "LinearAxis.convert_units scales sampling and offset by one and the same conversion "
             "factor, obtained for the receiver's current units")
    ctx.undecided("that safe_equality / __post_init__ treat the reconstructed field values as equal (tuples vs lists "
                  "after JSON), and field *values* that are not JSON/dict friendly")
    ctx.undecided("numpy object-array indexing semantics for index arrays in OrdinalAxis.__getitem__")

    base = repo.cls(MOD, reg.BASE)
    classes = reg.axis_classes(repo)

    # ---------------- R-REGISTRY / R-TYPEKEY
    readers = [reg.analyse_reader(repo, repo.function(MOD, "axis_from_dict")),
               reg.analyse_reader(repo, repo.method(MOD, reg.BASE, "from_dict"))]
    writers = [repo.function(MOD, "axis_to_dict"), repo.method(MOD, reg.BASE, "to_dict")]
    n = reg.check_registry(ctx, readers)
    ctx.require(n >= 2 * 10, f"R-REGISTRY examined only {n} (class, reader) pairs")
    reg.check_type_key(ctx, writers, readers)
    dataclass_rules(ctx, repo, classes, writers)

    # ---------------- R-ORDINAL
    getitem = repo.method(MOD, "OrdinalAxis", "__getitem__")
    ctx.require(len(getitem.positional_params) == 2, f"{getitem.qualname}: expected (self, item)")
    item = getitem.positional_params[1]
    # the scalar arm must take every integer scalar: np.int64 (an argmin result) is not an `int`
    INTEGRAL_OK = {"Number", "numbers.Number", "Integral", "numbers.Integral", "Real", "numbers.Real", "SupportsIndex"}
    tests = [c for c in walk_no_nested(getitem.node) if isinstance(c, ast.Call) and call_name(c) == "isinstance"
             and len(c.args) == 2 and dotted(c.args[0]) == item]
    for t_ in tests:
        ty = t_.args[1]
        names = {dotted(e) or norm_text(e) for e in (ty.elts if isinstance(ty, (ast.Tuple, ast.List)) else [ty])}
        covers = bool(names & INTEGRAL_OK) or ({"int"} <= names and bool(names & {"np.integer", "numpy.integer",
                                                                                   "np.generic", "np.number"}))
        if names & {"int", "float", "np.integer"} or names & INTEGRAL_OK:
            ctx.check(covers, "R-ORDINAL", f"{getitem.qualname}:scalar test", getitem.loc(t_),
                      f"`{norm_text(t_)}` accepts Python and NumPy integer scalars",
                      f"`{norm_text(t_)}` does not accept every integer scalar: a NumPy integer (np.int64 from argmin, "
                      "an element of an index array) falls into the index-array arm, which flattens tuple-valued axes "
                      "and raises for scalar-valued ones", key_detail="scalar-test")
    kw, df, ret = _rebuild(ctx, getitem, "R-ORDINAL")
    stores = _field_stores(getitem, kw)
    ctx.require(len(stores) >= 1, f"{getitem.qualname}: the 'values' entry is never replaced")
    other = [(st, k) for st, k in stores if k != "values"]
    ctx.check(not other, "R-ORDINAL", f"{getitem.qualname}:only-values", getitem.where,
              f"{len(stores)} store(s) into the keyword dict, all at 'values'",
              "fields other than 'values' are modified: " + "; ".join(norm_text(st)[:60] for st, _ in other),
              key_detail="only-values")
    for st, k in stores:
        if k != "values" or not isinstance(st, ast.Assign):
            continue
        node = df.cfg.node_of(st).idx
        subs = _item_subscripts(df, node, st.value, item, set())
        detail = norm_text(st.value)[:70]
        ok = len(subs) == 1
        src_ok = False
        if ok:
            sub, at = subs[0]
            sl = df.backward_slice(at, sub.value)
            src_ok = (kw in sl.visited or "self" in sl.params) and item not in sl.params and \
                sl.params <= {"self"}
            # an array filled by `array[:] = kw["values"]`: the fill must be the values
            src_ok = src_ok and _derives_from_values(df, at, sub.value, kw)
        ctx.check(ok and src_ok, "R-ORDINAL", f"{getitem.qualname}:values[{item}] {detail}", getitem.loc(st),
                  f"new values = the receiver's values indexed by `{item}`",
                  f"`{detail}` is not the receiver's values indexed once by `{item}` "
                  f"({len(subs)} subscripts by `{item}` found)", key_detail="indexed")
    # wrappers around the subscript must not reorder: only tuple()/list()/1-tuples
    conc = repo.method(MOD, "OrdinalAxis", "concatenate")
    ctx.require(len(conc.positional_params) == 2, f"{conc.qualname}: expected (self, other)")
    oth = conc.positional_params[1]
    kw2, df2, _ = _rebuild(ctx, conc, "R-ORDINAL")
    stores2 = _field_stores(conc, kw2)
    ctx.require(len(stores2) >= 1, f"{conc.qualname}: the 'values' entry is never replaced")
    other2 = [(st, k) for st, k in stores2 if k != "values"]
    ctx.check(not other2, "R-ORDINAL", f"{conc.qualname}:only-values", conc.where,
              f"{len(stores2)} store(s) into the keyword dict, all at 'values'",
              "fields other than 'values' are modified: " + "; ".join(norm_text(st)[:60] for st, _ in other2),
              key_detail="only-values")
    vstores = [st for st, k in stores2 if k == "values"]
    ctx.require(len(vstores) == 1, f"{conc.qualname}: expected one store of 'values'")
    st = vstores[0]
    if isinstance(st, ast.AugAssign):
        left, right, is_add = st.target, st.value, isinstance(st.op, ast.Add)
    else:
        v = st.value
        node = df2.cfg.node_of(st).idx
        while isinstance(v, ast.Name):
            d = df2.single_def(node, v.id)
            if d is None or d.value is None:
                break
            v, node = d.value, d.node
        while isinstance(v, ast.Call) and dotted(v.func) == "tuple" and len(v.args) == 1:
            v = v.args[0]
        ctx.require(isinstance(v, ast.BinOp), f"{conc.qualname}: new values `{norm_text(v)[:60]}` are not a sum")
        left, right, is_add = v.left, v.right, isinstance(v.op, ast.Add)
    good = is_add and _is_values_of(left, kw2, "self") and _is_values_of(right, None, oth)
    ctx.check(good, "R-ORDINAL", f"{conc.qualname}:order", conc.loc(st),
              f"new values = self.values + {oth}.values",
              f"new values are `{norm_text(st)[:80]}`, not the receiver's values followed by {oth}.values",
              key_detail="order")

    # ---------------- R-LINEAR
    coords = repo.method(MOD, "LinearAxis", "coordinates")
    ctx.require(len(coords.positional_params) == 2, f"{coords.qualname}: expected (self, n)")
    npar = coords.positional_params[1]
    dfc = DataFlow(coords.node)
    rc = _single_return(coords)
    at = dfc.cfg.node_of(rc).idx
    e = rc.value
    for _ in range(6):
        if isinstance(e, ast.Call) and dotted(e.func) in ("tuple", "list", "np.asarray", "np.array") and len(e.args) == 1:
            e = e.args[0]
        elif isinstance(e, ast.Name):
            d = dfc.single_def(at, e.id)
            if d is None or d.value is None:
                break
            e, at = d.value, d.node
        else:
            break
    nz = FlowNormalizer(dfc, at, call_hook=_arange_hook)
    o, s, nn = Poly.atom("self.offset"), Poly.atom("self.sampling"), Poly.atom(npar)
    if isinstance(e, ast.Call) and last_attr(e) == "linspace":
        b = {}
        for p, a in zip(["start", "stop", "num", "endpoint"], e.args):
            b[p] = a
        for k in e.keywords:
            ctx.require(k.arg is not None, f"{coords.qualname}: linspace(**kwargs)")
            b[k.arg] = k.value
        for p in ("start", "stop", "num"):
            ctx.require(p in b, f"{coords.qualname}: linspace without `{p}`")
        ep = b.get("endpoint")
        ctx.require(ep is None or (isinstance(ep, ast.Constant) and isinstance(ep.value, bool)),
                    f"{coords.qualname}: non-literal endpoint")
        endpoint = True if ep is None else ep.value
        start, stop, num = nz.norm(b["start"]), nz.norm(b["stop"]), nz.norm(b["num"])
        span = s * nn if not endpoint else s * (nn - Poly.const(1))
        ctx.check(start == o, "R-LINEAR", f"{coords.qualname}:start", coords.loc(rc), "first coordinate = offset",
                  f"first coordinate is {start.key()}, not self.offset", key_detail="start")
        ctx.check(num == nn, "R-LINEAR", f"{coords.qualname}:count", coords.loc(rc), f"{npar} coordinates",
                  f"number of coordinates is {num.key()}, not {npar}", key_detail="count")
        ctx.check(stop - start == span, "R-LINEAR", f"{coords.qualname}:step", coords.loc(rc),
                  f"step = (stop − start)/{'n' if not endpoint else '(n−1)'} = sampling "
                  f"(endpoint={endpoint})",
                  f"linspace spans {(stop - start).key()} with endpoint={endpoint}; a step of self.sampling needs "
                  f"{span.key()}", key_detail="step")
    else:
        got = nz.norm(e)
        want = o + s * Poly.atom(f"arange({nn.key()})")
        if "arange(" not in got.key():
            raise AnalysisError(f"{coords.qualname}: `{norm_text(e)[:60]}` is neither linspace nor offset + "
                                "sampling*arange(n)")
        ctx.check(got == want, "R-LINEAR", f"{coords.qualname}:affine", coords.loc(rc),
                  "coordinates = offset + sampling·arange(n)",
                  f"coordinates are {got.key()}, not offset + sampling·arange(n)", key_detail="affine")

    # ---------------- R-AXISCONV
    cu = repo.method(MOD, "LinearAxis", "convert_units")
    dfa = DataFlow(cu.node)
    scaled = {}
    for st in walk_no_nested(cu.node):
        if isinstance(st, (ast.Assign, ast.AugAssign)):
            tgt = st.targets[0] if isinstance(st, ast.Assign) else st.target
            d = dotted(tgt)
            if d and d.split(".")[-1] in ("sampling", "offset") and "." in d:
                nz2 = FlowNormalizer(dfa, dfa.cfg.node_of(st).idx)
                if isinstance(st, ast.AugAssign):
                    if not isinstance(st.op, (ast.Mult, ast.Div)):
                        raise AnalysisError(f"{cu.qualname}: unexpected augmented assignment")
                    val = ast.fix_missing_locations(ast.BinOp(left=tgt, op=st.op, right=st.value))
                    poly = nz2.norm(val)
                else:
                    poly = nz2.norm(st.value)
                attr = d.split(".")[-1]
                scaled[attr] = (poly * Poly.atom(d).inverse(), st)
    ctx.require(set(scaled) == {"sampling", "offset"}, f"{cu.qualname}: sampling and offset are not both rescaled")
    same = scaled["sampling"][0] == scaled["offset"][0]
    fac = scaled["sampling"][0]
    uses = any("get_conversion_factor" in a for a in fac.atoms())
    ctx.check(same and uses, "R-AXISCONV", f"{cu.qualname}:same-factor", cu.loc(scaled["offset"][1]),
              f"sampling and offset both scaled by {fac.key()[:90]}",
              f"sampling is scaled by {fac.key()[:90]} but offset by {scaled['offset'][0].key()[:90]}",
              key_detail="same-factor")
    calls = [c for c in walk_no_nested(cu.node) if isinstance(c, ast.Call) and last_attr(c) == "get_conversion_factor"]
    ctx.require(len(calls) == 1, f"{cu.qualname}: expected one get_conversion_factor call")
    gcf = repo.function("abtem.core.units", "get_conversion_factor")
    from ..model import bind_args

    bb = bind_args(calls[0], gcf)
    ctx.check(dotted(bb.get("old_units")) == "self.units" and dotted(bb.get("units")) == cu.positional_params[1],
              "R-AXISCONV", f"{cu.qualname}:factor-call", cu.loc(calls[0]),
              "factor requested from the receiver's units to the requested units",
              f"`{norm_text(calls[0])}` does not convert from self.units to the requested units", key_detail="call")


def _arange_hook(nz, call: ast.Call):
    if last_attr(call) == "arange" and len(call.args) == 1 and not call.keywords:
        return Poly.atom(f"arange({nz.norm(call.args[0]).key()})")
    return None


def _item_subscripts(df: DataFlow, at: int, e: ast.AST, item: str, seen: set) -> list[tuple[ast.Subscript, int]]:
    """Subscripts whose index is exactly the parameter `item`, following local names."""
    out: list[tuple[ast.Subscript, int]] = []
    for n in ast.walk(e):
        if isinstance(n, ast.Subscript) and isinstance(n.slice, ast.Name) and n.slice.id == item and \
                all(d.kind == "param" for d in df.reaching(at, item)):
            out.append((n, at))
    for n in ast.walk(e):
        if isinstance(n, ast.Name) and isinstance(n.ctx, ast.Load) and n.id != item and (at, n.id) not in seen:
            seen.add((at, n.id))
            for d in df.reaching(at, n.id):
                if d.kind == "assign" and d.value is not None:
                    out += _item_subscripts(df, d.node, d.value, item, seen)
    return out


def _derives_from_values(df: DataFlow, at: int, base: ast.AST, kw: str) -> bool:
    """`base` is kw['values'] / self.values, or a local array every element store of which is kw['values']."""
    if _is_values_of(base, kw, "self"):
        return True
    if isinstance(base, ast.Name):
        fills = []
        for d in df.reaching(at, base.id):
            if d.kind == "store":
                st = df.cfg.nodes[d.node].ast
                fills.append(st)
            elif d.kind == "assign" and d.value is not None and _is_values_of(d.value, kw, "self"):
                return True
        return bool(fills) and all(isinstance(st, ast.Assign) and _is_values_of(st.value, kw, "self")
                                   and isinstance(st.targets[0], ast.Subscript)
                                   and isinstance(st.targets[0].slice, ast.Slice)
                                   and st.targets[0].slice.lower is None and st.targets[0].slice.upper is None
                                   for st in fills)
    return False


# ======================================================================================================================
# Mutation-sweep round
# ======================================================================================================================
_inner_run_c35_sweep = run


def run(ctx) -> None:  # noqa: F811
    from ..rules import isinst

    ctx.rule("R-ISINSTANCE", isinst.__doc__.split("—", 1)[1])
    mod = ctx.repo.module(MOD)
    funcs = [f for c in mod.classes.values() for defs in c.methods.values() for f in defs]
    funcs += [f for defs in mod.functions.values() for f in (defs if isinstance(defs, list) else [defs])]
    n_is = isinst.check(ctx, ctx.repo, funcs)
    ctx.require(n_is >= 8, f"R-ISINSTANCE examined only {n_is} isinstance tests")
    _inner_run_c35_sweep(ctx)


# ---- slicing a linear axis keeps `coordinates = offset + i x sampling` for the selected items (rule shared with C29)
_inner_run_c35_r7 = run


def run(ctx) -> None:  # noqa: F811
    from . import c29

    ctx.rule("R-LINEARITEM", "(shared with C29; the rule lives in c29) for a slice, LinearAxis.__getitem__ returns offset' = "
             "offset + start x sampling and sampling' = sampling x step (term normal forms with the slice's own start / "
             "step, None read as 0 / 1): item k of the selection then has coordinate offset' + k x sampling' = offset + "
             "(start + k x step) x sampling, the coordinate the original axis gives that item")
    pending = None
    try:
        c29._linear_axis_items(ctx)
    except AnalysisError as e:
        pending = e
    _inner_run_c35_r7(ctx)
    if pending is not None:
        raise pending


# ---- value-returning methods of axis metadata do not modify the receiver (mutation sweep: `self.copy()` dropped)
_inner_run_c35_r7b = run


def _pure_axis_methods(ctx) -> int:
    from ..cfg import DataFlow

    mod = ctx.repo.module(MOD)
    n = 0
    for c in mod.classes.values():
        for defs in c.methods.values():
            for f in defs:
                if f.name in ("__init__", "__post_init__", "__setattr__", "__setstate__") or getattr(f, "is_setter", False):
                    continue
                if not f.positional_params or f.positional_params[0] != "self":
                    continue
                returns_value = any(isinstance(r, ast.Return) and r.value is not None and not (
                    isinstance(r.value, ast.Constant) and r.value.value is None) for r in walk_no_nested(f.node))
                stores = [st for st in walk_no_nested(f.node) if isinstance(st, (ast.Assign, ast.AugAssign, ast.AnnAssign))
                          and any(isinstance(t, ast.Attribute) for t in (st.targets if isinstance(st, ast.Assign) else [st.target]))]
                if not returns_value or not stores:
                    continue
                df = DataFlow(f.node)

                def is_self(e, at, depth=0):
                    if isinstance(e, ast.Name) and e.id == "self":
                        return True
                    if isinstance(e, ast.Name) and depth < 6:
                        rd = df.reaching(at, e.id)
                        return bool(rd) and any(d.kind == "assign" and d.value is not None and is_self(d.value, d.node, depth + 1)
                                                for d in rd)
                    return False

                for st in stores:
                    at = df.cfg.node_of(st).idx
                    for t in (st.targets if isinstance(st, ast.Assign) else [st.target]):
                        if not isinstance(t, ast.Attribute):
                            continue
                        n += 1
                        ctx.check(not is_self(t.value, at), "R-PUREAXIS", f"{f.qualname}:{t.attr}", f.loc(st),
                                  f"`{norm_text(t)}` is written on a new object",
                                  f"`{norm_text(st)[:70]}` writes the receiver itself (`{norm_text(t.value)}` can be self): "
                                  f"{f.short} returns an axis and at the same time changes the axis it was called on, so "
                                  "the original object no longer describes its own values", key_detail="self-store")
    return n


def run(ctx) -> None:  # noqa: F811
    ctx.rule("R-PUREAXIS", "a method of an axis-metadata class that returns a value (slicing, unit conversion, "
             "concatenation, conversion to another axis kind) writes attributes only on a new object: the target of every "
             "attribute store in such a method does not alias `self` (reaching definitions).  Otherwise taking a slice or "
             "converting units changes the axis it was taken from")
    n = _pure_axis_methods(ctx)
    ctx.require(n >= 3, f"R-PUREAXIS examined only {n} attribute stores")
    _inner_run_c35_r7b(ctx)
