"""C33 — unit conversions compose and invert (abtem/core/units.py, LinearAxis.convert_units)."""
from __future__ import annotations

import ast

from ..cfg import DataFlow
from ..model import AnalysisError, call_name, dotted, module_constants, norm_text, walk_no_nested
from ..terms import FlowNormalizer, Poly

MOD = "abtem.core.units"


def _category_test(test: ast.expr):
    """`units_type[X] == "cat"` -> (X name, cat) else None."""
    if isinstance(test, ast.Compare) and len(test.ops) == 1 and isinstance(test.ops[0], ast.Eq):
        a, b = test.left, test.comparators[0]
        for x, y in ((a, b), (b, a)):
            if isinstance(x, ast.Subscript) and dotted(x.value) == "units_type" and isinstance(y, ast.Constant) \
                    and isinstance(y.value, str) and isinstance(x.slice, ast.Name):
                return x.slice.id, y.value
    return None


def _categories_in_test(test: ast.expr) -> set[str]:
    out = set()
    for n in ast.walk(test):
        r = _category_test(n) if isinstance(n, ast.Compare) else None
        if r:
            out.add(r[1])
    return out


def run(ctx) -> None:
    repo = ctx.repo
    ctx.rule("R-INFLUENCE", "every same-category result of get_conversion_factor is data-dependent on both the "
             "target units and old_units (a factor that ignores the source unit cannot compose or invert)")
    ctx.rule("R-RATIO", "when the result is built from lookups in one factor table it is a ratio "
             "table[canon(a)] / table[canon(b)] with {a, b} = {units, old_units} — the only shape for which "
             "a->b->c == a->c and a->b->a == 1 hold identically")
    ctx.rule("R-KEYS", "every unit of a convertible category is, after validate_units' alias canonicalisation, a key "
             "of the factor table; alias comparisons inside a category arm compare against a unit of that category "
             "and canonicalise to a unit of that category")
    ctx.rule("R-AXISCONV", "LinearAxis.convert_units asks for the factor from the receiver's current units to the "
             "requested units and scales sampling and offset by that same factor")
    ctx.undecided("floating-point exactness of the factors; cross-category conversions (1/Å -> mrad)")

    mod = repo.module(MOD)
    consts = module_constants(mod)
    for name in ("_unit_categories", "_conversion_factors"):
        ctx.require(name in consts, f"{MOD}.{name} is no longer a foldable literal table")
    cats: dict[str, tuple] = {k: tuple(v) for k, v in consts["_unit_categories"].items()}
    factors: dict = consts["_conversion_factors"]
    convertible = [c for c, us in cats.items() if any(u in factors for u in us)]
    ctx.require(len(convertible) >= 3, "fewer than three convertible unit categories")

    gcf = repo.function(MOD, "get_conversion_factor")
    vu = repo.function(MOD, "validate_units")

    # ---------------- R-INFLUENCE / R-RATIO
    df = DataFlow(gcf.node)
    parents: dict[int, list[ast.If]] = {}

    def index(body, stack):
        for st in body:
            parents[id(st)] = list(stack)
            if isinstance(st, ast.If):
                index(st.body, stack + [st])
                index(st.orelse, stack)  # else-arm: not "inside the test's true arm"
            elif isinstance(st, (ast.For, ast.While, ast.With, ast.Try)):
                for fld in ("body", "orelse", "finalbody"):
                    index(getattr(st, fld, []), stack)
                for h in getattr(st, "handlers", []):
                    index(h.body, stack)

    index(gcf.node.body, [])
    n_same = 0
    for st in walk_no_nested(gcf.node):
        if not isinstance(st, ast.Return) or st.value is None:
            continue
        if isinstance(st.value, ast.Constant):
            continue  # `units is None` -> 1.0
        enclosing = parents.get(id(st), [])
        cross = any(len(_categories_in_test(i.test)) >= 2 for i in enclosing)
        if cross:
            ctx.info("R-INFLUENCE", f"{gcf.qualname}:cross-category return", gcf.loc(st),
                     "cross-category branch (reciprocal -> angular) is outside C33's quantifier")
            continue
        n_same += 1
        node = df.cfg.node_of(st)
        sl = df.backward_slice(node.idx, st.value)
        dep_new, dep_old = sl.depends_on("units"), sl.depends_on("old_units")
        # dependence through validate_units(units, old_units) counts only for the first argument:
        # validate_units returns the canonical form of its first non-None argument.
        dep_old_real = _depends_really(df, node.idx, st.value, "old_units")
        dep_new_real = _depends_really(df, node.idx, st.value, "units")
        ctx.check(dep_new_real and dep_old_real, "R-INFLUENCE", f"{gcf.qualname}:return {norm_text(st.value)}",
                  gcf.loc(st), "result depends on units and old_units",
                  f"the conversion factor {norm_text(st.value)} does not depend on "
                  f"{'old_units' if not dep_old_real else 'units'}: converting a->b->c cannot equal a->c and a->b->a "
                  "is not the identity", key_detail="same-category-return")
        # R-RATIO
        nz = _UnitNorm(df, node.idx, call_hook=_canon_hook)
        polys = [nz.norm(st.value)]
        if isinstance(st.value, ast.Name):
            rds = [d for d in df.reaching(node.idx, st.value.id) if d.kind == "assign" and d.value is not None]
            if len(rds) > 1:  # a conditionally updated result: every value it can hold is judged
                polys = [_UnitNorm(df, d.node, call_hook=_canon_hook).norm(d.value) for d in rds]
        for poly in polys:
          lookups = [(a, e) for m in poly.terms for a, e in m if a.startswith("_conversion_factors[")]
          other = [(a, e) for m in poly.terms for a, e in m if not a.startswith("_conversion_factors[")]
          if len(poly.terms) == 1 and lookups and not other:
              keys = sorted((a, e) for a, e in lookups)
              shape_ok = (len(keys) == 2 and {e for _, e in keys} == {1, -1}
                          and {a for a, _ in keys} == {"_conversion_factors[canon(units)]",
                                                       "_conversion_factors[canon(old_units)]"})
              ctx.check(shape_ok, "R-RATIO", f"{gcf.qualname}:return {norm_text(st.value)}", gcf.loc(st),
                        f"normal form {poly.key()}",
                        f"the factor normalises to {poly.key()}, not to a ratio table[canon(units)]/table[canon(old_units)]",
                        key_detail="ratio")
          else:
              ctx.info("R-RATIO", f"{gcf.qualname}:return", gcf.loc(st),
                       f"result is not a pure product of factor-table lookups ({poly.key()[:80]}); only R-INFLUENCE applies")
    ctx.require(n_same >= 1, "get_conversion_factor has no same-category return")

    # ---------------- R-KEYS
    arms: dict[str, list[ast.stmt]] = {}
    for st in vu.node.body:
        cur = st
        while isinstance(cur, ast.If):
            r = _category_test(cur.test)
            if r:
                arms[r[1]] = cur.body
            if len(cur.orelse) == 1 and isinstance(cur.orelse[0], ast.If):
                cur = cur.orelse[0]
            else:
                break
    ctx.require(len(arms) >= 2, "validate_units: category dispatch not found")
    aliases: dict[str, dict[str, str]] = {}
    for cat, body in arms.items():
        aliases[cat] = {}
        for st in body:
            for n in ast.walk(st):
                if isinstance(n, ast.If) and isinstance(n.test, ast.Compare) and len(n.test.ops) == 1 and isinstance(
                        n.test.ops[0], ast.Eq) and isinstance(n.test.left, ast.Name) and isinstance(
                        n.test.comparators[0], ast.Constant):
                    lit = n.test.comparators[0].value
                    tgt = None
                    for s2 in n.body:
                        if isinstance(s2, ast.Assign) and isinstance(s2.value, ast.Constant) and isinstance(
                                s2.targets[0], ast.Name) and s2.targets[0].id == n.test.left.id:
                            tgt = s2.value.value
                    if tgt is None:
                        continue
                    in_cat = lit in cats.get(cat, ())
                    ctx.check(in_cat, "R-KEYS", f"{vu.qualname}:alias {cat} {lit!r}->{tgt!r}", vu.loc(n),
                              "alias literal belongs to the arm's category",
                              f"inside the {cat!r} arm the comparison `{norm_text(n.test)}` can never be true: "
                              f"{lit!r} is not a {cat} unit, so the alias is never canonicalised",
                              key_detail=f"alias-{cat}-{lit}")
                    ctx.check(tgt in cats.get(cat, ()) and tgt in factors, "R-KEYS",
                              f"{vu.qualname}:alias-target {cat} {tgt!r}", vu.loc(n),
                              "alias target is a unit of the category with a conversion factor",
                              f"alias target {tgt!r} is not a {cat} unit with a conversion factor",
                              key_detail=f"aliastgt-{cat}-{tgt}")
                    if in_cat:
                        aliases[cat][lit] = tgt
    for cat in convertible:
        ctx.require(cat in arms, f"validate_units has no arm for convertible category {cat}")
        for u in cats[cat]:
            cu = aliases[cat].get(u, u)
            ctx.check(cu in factors, "R-KEYS", f"{MOD}:unit {cat} {u!r}", mod.relpath,
                      f"canonical form {cu!r} has a conversion factor",
                      f"unit {u!r} of category {cat} canonicalises to {cu!r}, which has no entry in "
                      "_conversion_factors (KeyError on conversion)", key_detail=f"unit-{u}")
    # the returned value of each arm is the (canonicalised) units variable
    for cat, body in arms.items():
        rets = [n for st in body for n in ast.walk(st) if isinstance(n, ast.Return)]
        ctx.check(bool(rets) and all(isinstance(r.value, ast.Name) and r.value.id == "units" for r in rets),
                  "R-KEYS", f"{vu.qualname}:arm-return {cat}", vu.loc(body[0]),
                  "arm returns the canonicalised units", f"the {cat} arm does not return the canonicalised units",
                  key_detail=f"armret-{cat}")
    # category mismatch must raise
    guards = [n for n in ast.walk(vu.node) if isinstance(n, ast.If) and isinstance(n.test, ast.Compare)
              and isinstance(n.test.ops[0], ast.NotEq) and "units_type" in ast.unparse(n.test)
              and any(isinstance(s, ast.Raise) for s in n.body)]
    ctx.check(bool(guards), "R-KEYS", f"{vu.qualname}:category-guard", vu.where,
              "conversion across categories raises", "validate_units no longer rejects conversions across categories",
              key_detail="guard")

    # ---------------- R-AXISCONV
    cu = repo.method("abtem.core.axes", "LinearAxis", "convert_units")
    calls = [c for c in walk_no_nested(cu.node) if isinstance(c, ast.Call) and call_name(c) == "get_conversion_factor"]
    ctx.require(len(calls) == 1, "LinearAxis.convert_units: expected one get_conversion_factor call")
    c = calls[0]
    b = {}
    for p, a in zip(gcf.positional_params, c.args):
        b[p] = a
    for k in c.keywords:
        if k.arg:
            b[k.arg] = k.value
    uparam = cu.positional_params[1]
    good = dotted(b.get("units")) == uparam and dotted(b.get("old_units")) == "self.units"
    ctx.check(good, "R-AXISCONV", f"{cu.qualname}:factor-call", cu.loc(c),
              "factor requested from self.units to the requested units",
              f"{norm_text(c)} does not convert from the receiver's current units to the requested units",
              key_detail="call")
    dfa = DataFlow(cu.node)
    scaled: dict[str, list] = {}
    for st in walk_no_nested(cu.node):
        if isinstance(st, (ast.Assign, ast.AugAssign)):
            tgt = st.targets[0] if isinstance(st, ast.Assign) else st.target
            d = dotted(tgt)
            if d and d.split(".")[-1] in ("sampling", "offset") and not d.startswith("self."):
                nz = FlowNormalizer(dfa, dfa.cfg.node_of(st).idx)
                if isinstance(st, ast.AugAssign):
                    if not isinstance(st.op, (ast.Mult, ast.Div)):
                        raise AnalysisError("convert_units: unexpected augmented assignment")
                    val = ast.BinOp(left=tgt, op=st.op, right=st.value)
                    ast.fix_missing_locations(val)
                    poly = nz.norm(val)
                else:
                    poly = nz.norm(st.value)
                attr = d.split(".")[-1]
                obj = d.rsplit(".", 1)[0]
                # divide out the attribute itself (of the copy or of the receiver): remaining factor
                rest = poly * Poly.atom(f"{obj}.{attr}").inverse()
                if f"{obj}.{attr}" in rest.atoms() or f"self.{attr}" in poly.atoms():
                    rest2 = poly * Poly.atom(f"self.{attr}").inverse()
                    if f"self.{attr}" not in rest2.atoms():
                        rest = rest2
                scaled.setdefault(attr, []).append((rest, st))
    ctx.require(set(scaled) == {"sampling", "offset"}, "convert_units no longer rescales sampling and offset")
    factors_seen = {r.key() for rs in scaled.values() for r, _ in rs}
    ref = scaled["sampling"][0][0]
    uses_factor = any("get_conversion_factor" in a for a in ref.atoms())
    for attr, rs in scaled.items():
        for rest, st in rs:
            ctx.check(rest == ref and uses_factor, "R-AXISCONV", f"{cu.qualname}:same-factor {attr}", cu.loc(st),
                      f"{attr} scaled by {ref.key()[:80]}",
                      f"`{norm_text(st)[:80]}`: {attr} is scaled by {rest.key()[:90]} while sampling is scaled by "
                      f"{ref.key()[:80]} — offset and sampling must be converted by the same factor on every path",
                      key_detail=f"same-factor-{attr}")
    # informational: angular factors vs the length convention
    if factors.get("rad", 0) > factors.get("mrad", 1):
        ctx.info("R-KEYS", f"{MOD}:_conversion_factors", mod.relpath,
                 "'rad'/'deg' factors are inverted relative to the length convention (value-in-unit per base unit); "
                 "outside C33's compose/invert statement")


def _canon_hook(nz, call: ast.Call):
    """validate_units(a, b) returns the canonical form of `a` (of `b` when a is None): model as canon(a)."""
    if call_name(call) == "validate_units" and call.args:
        a = call.args[0]
        k = nz.norm(a).key()
        k = k[2:] if k.startswith("1*") else k
        return Poly.atom(f"canon({k})")
    return None


class _UnitNorm(FlowNormalizer):
    """`_conversion_factors[k]` becomes the atom table[canon(k)] (validate_units modelled as canon)."""

    def norm(self, n):
        if isinstance(n, ast.Subscript) and dotted(n.value) == "_conversion_factors":
            k = super().norm(n.slice).key()
            k = k[2:] if k.startswith("1*") else k
            if k in ("units", "old_units"):
                k = f"canon({k})"
            return Poly.atom(f"_conversion_factors[{k}]")
        return super().norm(n)


def _depends_really(df: DataFlow, node_idx: int, expr: ast.AST, param: str) -> bool:
    """Data dependence on `param`, where validate_units(a, b) only transmits its first argument
    (the second one is used for a category check that raises, i.e. control dependence only)."""
    seen: set[tuple[int, str]] = set()

    def expr_dep(e: ast.AST, at: int) -> bool:
        if isinstance(e, ast.Call) and call_name(e) == "validate_units" and e.args:
            return expr_dep(e.args[0], at)
        if isinstance(e, ast.Name):
            return var_dep(e.id, at)
        return any(expr_dep(c, at) for c in ast.iter_child_nodes(e) if isinstance(c, (ast.expr, ast.keyword)))

    def var_dep(v: str, at: int) -> bool:
        if (at, v) in seen:
            return False
        seen.add((at, v))
        for d in df.reaching(at, v):
            if d.kind == "param":
                if v == param:
                    return True
                continue
            if d.value is not None and expr_dep(d.value, d.node):
                return True
        return False

    return expr_dep(expr, node_idx)
