"""E0 — source model of the abTEM package built from the working tree with `ast` only.

Nothing here imports or executes abTEM.  `Repo.load()` parses every module under
``$VERIF_REPO/abtem`` (default ``/repo``) on every invocation.
"""
from __future__ import annotations

import ast
import hashlib
import os
from dataclasses import dataclass, field
from pathlib import Path
from typing import Iterable, Iterator, Optional


class AnalysisError(Exception):
    """An anchor vanished / a construct is outside the analyser's reach (exit 2, never a VIOLATION)."""


def repo_root() -> Path:
    return Path(os.environ.get("VERIF_REPO", "/repo"))


def unparse(node: ast.AST) -> str:
    return ast.unparse(node)


def norm_text(node: ast.AST) -> str:
    """Normalised statement text used in finding keys (never line numbers)."""
    return " ".join(ast.unparse(node).split())


def dotted(node: ast.AST) -> Optional[str]:
    """`a.b.c` -> 'a.b.c' for Name/Attribute chains, else None."""
    parts = []
    while isinstance(node, ast.Attribute):
        parts.append(node.attr)
        node = node.value
    if isinstance(node, ast.Name):
        parts.append(node.id)
        return ".".join(reversed(parts))
    return None


def call_name(node: ast.AST) -> Optional[str]:
    """Dotted name of the callee of a Call node."""
    if isinstance(node, ast.Call):
        return dotted(node.func)
    return None


def last_attr(node: ast.AST) -> Optional[str]:
    """Final identifier of a callee: `xp.fft.fftshift` -> 'fftshift'."""
    if isinstance(node, ast.Call):
        node = node.func
    if isinstance(node, ast.Attribute):
        return node.attr
    if isinstance(node, ast.Name):
        return node.id
    return None


def strip_docstring(body: list[ast.stmt]) -> list[ast.stmt]:
    if body and isinstance(body[0], ast.Expr) and isinstance(body[0].value, ast.Constant) and isinstance(
        body[0].value.value, str
    ):
        return body[1:]
    return body


@dataclass
class FuncInfo:
    module: "ModuleInfo"
    node: ast.FunctionDef
    cls: Optional["ClassInfo"] = None

    @property
    def name(self) -> str:
        return self.node.name

    @property
    def qualname(self) -> str:
        if self.cls is not None:
            return f"{self.module.name}.{self.cls.name}.{self.node.name}"
        return f"{self.module.name}.{self.node.name}"

    @property
    def short(self) -> str:
        if self.cls is not None:
            return f"{self.cls.name}.{self.node.name}"
        return self.node.name

    @property
    def where(self) -> str:
        return f"{self.module.relpath}:{self.node.lineno}"

    def loc(self, node: ast.AST) -> str:
        return f"{self.module.relpath}:{getattr(node, 'lineno', self.node.lineno)}"

    @property
    def params(self) -> list[str]:
        a = self.node.args
        names = [x.arg for x in a.posonlyargs + a.args]
        names += [x.arg for x in a.kwonlyargs]
        return names

    @property
    def positional_params(self) -> list[str]:
        a = self.node.args
        return [x.arg for x in a.posonlyargs + a.args]

    @property
    def has_varkw(self) -> bool:
        return self.node.args.kwarg is not None

    @property
    def has_vararg(self) -> bool:
        return self.node.args.vararg is not None

    @property
    def decorators(self) -> list[str]:
        out = []
        for d in self.node.decorator_list:
            t = d.func if isinstance(d, ast.Call) else d
            out.append(dotted(t) or ast.unparse(t))
        return out

    @property
    def is_property(self) -> bool:
        return any(d == "property" or d.endswith(".getter") or d == "cached_property" for d in self.decorators)

    @property
    def is_setter(self) -> bool:
        return any(d.endswith(".setter") for d in self.decorators)

    @property
    def is_abstract(self) -> bool:
        return any(d.endswith("abstractmethod") for d in self.decorators)

    @property
    def body(self) -> list[ast.stmt]:
        return strip_docstring(self.node.body)

    def defaults(self) -> dict[str, ast.expr]:
        a = self.node.args
        pos = a.posonlyargs + a.args
        out = {}
        for arg, d in zip(pos[len(pos) - len(a.defaults):], a.defaults):
            out[arg.arg] = d
        for arg, d in zip(a.kwonlyargs, a.kw_defaults):
            if d is not None:
                out[arg.arg] = d
        return out


@dataclass
class ClassInfo:
    module: "ModuleInfo"
    node: ast.ClassDef
    base_exprs: list[str] = field(default_factory=list)
    bases: list["ClassInfo"] = field(default_factory=list)  # resolved in-package bases
    external_bases: list[str] = field(default_factory=list)
    methods: dict[str, list[FuncInfo]] = field(default_factory=dict)  # name -> defs (getter/setter ...)
    class_attrs: dict[str, ast.expr] = field(default_factory=dict)
    annotations: dict[str, ast.expr] = field(default_factory=dict)
    _mro: Optional[list["ClassInfo"]] = None

    @property
    def name(self) -> str:
        return self.node.name

    @property
    def qualname(self) -> str:
        return f"{self.module.name}.{self.node.name}"

    @property
    def where(self) -> str:
        return f"{self.module.relpath}:{self.node.lineno}"

    @property
    def decorators(self) -> list[str]:
        out = []
        for d in self.node.decorator_list:
            t = d.func if isinstance(d, ast.Call) else d
            out.append(dotted(t) or ast.unparse(t))
        return out

    def mro(self) -> list["ClassInfo"]:
        if self._mro is None:
            self._mro = _c3(self)
        return self._mro

    def is_subclass_of(self, name: str) -> bool:
        return any(c.name == name for c in self.mro())

    def own_method(self, name: str, kind: str = "any") -> Optional[FuncInfo]:
        for f in self.methods.get(name, []):
            if kind == "any":
                return f
            if kind == "getter" and not f.is_setter:
                return f
            if kind == "setter" and f.is_setter:
                return f
        return None

    def find_method(self, name: str, kind: str = "getter") -> Optional[FuncInfo]:
        for c in self.mro():
            f = c.own_method(name, kind)
            if f is not None:
                return f
        return None

    def find_class_attr(self, name: str) -> Optional[tuple["ClassInfo", ast.expr]]:
        for c in self.mro():
            if name in c.class_attrs:
                return c, c.class_attrs[name]
        return None

    def is_abstract(self) -> bool:
        """A class is abstract if some abstractmethod in its MRO is not overridden by a concrete def."""
        seen: set[str] = set()
        for c in self.mro():
            for name, defs in c.methods.items():
                if name in seen:
                    continue
                seen.add(name)
                if any(d.is_abstract for d in defs):
                    return True
            for name in c.class_attrs:
                seen.add(name)
        return False


def _c3(cls: ClassInfo) -> list[ClassInfo]:
    def merge(seqs: list[list[ClassInfo]]) -> list[ClassInfo]:
        res: list[ClassInfo] = []
        seqs = [list(s) for s in seqs if s]
        while seqs:
            for s in seqs:
                cand = s[0]
                if not any(cand in t[1:] for t in seqs):
                    break
            else:
                # inconsistent hierarchy: fall back to depth-first order without duplicates
                flat: list[ClassInfo] = []
                for s in seqs:
                    for c in s:
                        if c not in flat and c not in res:
                            flat.append(c)
                return res + flat
            res.append(cand)
            seqs = [[c for c in s if c is not cand] for s in seqs]
            seqs = [s for s in seqs if s]
        return res

    return [cls] + merge([b.mro() for b in cls.bases] + [list(cls.bases)])


@dataclass
class ModuleInfo:
    name: str  # abtem.core.grid
    path: Path
    relpath: str
    tree: ast.Module
    source: str
    functions: dict[str, FuncInfo] = field(default_factory=dict)
    classes: dict[str, ClassInfo] = field(default_factory=dict)
    imports: dict[str, str] = field(default_factory=dict)  # local name -> qualified target
    assigns: dict[str, ast.expr] = field(default_factory=dict)  # module-level NAME = expr (last one wins)

    @property
    def is_package(self) -> bool:
        return self.path.name == "__init__.py"


_NEG_OP = {ast.Eq: ast.NotEq, ast.NotEq: ast.Eq, ast.Is: ast.IsNot, ast.IsNot: ast.Is, ast.In: ast.NotIn,
           ast.NotIn: ast.In}


class _CanonRet(ast.NodeTransformer):
    """Semantics-preserving canonical form for returned temporaries:

        t = <expr>          ->   return <expr>
        return t

    when the two statements are adjacent in one block, `t` is a plain local name (the function has no global /
    nonlocal declaration for it) and the assignment has that single target.  Rules that read what a function
    returns then see one spelling.  The returned expression keeps its own position."""

    def _fold(self, stmts: list, declared: set) -> list:
        out: list = []
        for st in stmts:
            prev = out[-1] if out else None
            if (isinstance(st, ast.Return) and isinstance(st.value, ast.Name) and isinstance(prev, ast.Assign)
                    and len(prev.targets) == 1 and isinstance(prev.targets[0], ast.Name)
                    and prev.targets[0].id == st.value.id and st.value.id not in declared):
                out[-1] = ast.copy_location(ast.Return(value=prev.value), prev)
            else:
                out.append(st)
        return out

    def _blocks(self, node: ast.AST, declared: set) -> None:
        for fld in ("body", "orelse", "finalbody"):
            blk = getattr(node, fld, None)
            if isinstance(blk, list) and blk and isinstance(blk[0], ast.stmt):
                for st in blk:
                    if not isinstance(st, (ast.FunctionDef, ast.AsyncFunctionDef, ast.ClassDef)):
                        self._blocks(st, declared)
                setattr(node, fld, self._fold(blk, declared))
        for h in getattr(node, "handlers", []) or []:
            self._blocks(h, declared)

    def visit_FunctionDef(self, node: ast.FunctionDef):
        self.generic_visit(node)  # nested functions first
        declared = set()
        for n in ast.walk(node):
            if isinstance(n, (ast.Global, ast.Nonlocal)):
                declared |= set(n.names)
        self._blocks(node, declared)
        return node

    visit_AsyncFunctionDef = visit_FunctionDef


class _CanonPos(ast.NodeTransformer):
    """Semantics-preserving canonical form for calls of undecorated module-level functions of the same module
    (no *args, no positional-only parameters, name never rebound in the module): keyword arguments that continue the
    positional prefix in declaration order are written positionally, `f(a, y=b)` -> `f(a, b)`.  Keywords after a gap
    stay keywords."""

    def __init__(self, tree: ast.Module):
        self.sigs: dict[str, list[str]] = {}
        for st in tree.body:
            if isinstance(st, ast.FunctionDef) and not st.decorator_list and not st.args.posonlyargs \
                    and not st.args.vararg:
                self.sigs[st.name] = [a.arg for a in st.args.args]
        for n in ast.walk(tree):
            if isinstance(n, ast.Name) and isinstance(n.ctx, ast.Store):
                self.sigs.pop(n.id, None)
            if isinstance(n, ast.arg):
                self.sigs.pop(n.arg, None)

    def visit_Call(self, node: ast.Call):
        self.generic_visit(node)
        if isinstance(node.func, ast.Name) and node.func.id in self.sigs and node.keywords and not any(
                isinstance(a, ast.Starred) for a in node.args) and not any(k.arg is None for k in node.keywords):
            params = self.sigs[node.func.id]
            kws = {k.arg: k for k in node.keywords}
            i = len(node.args)
            while i < len(params) and params[i] in kws:
                k = kws.pop(params[i])
                node.args.append(k.value)
                node.keywords.remove(k)
                i += 1
        return node


class _CanonCmp(ast.NodeTransformer):
    """Canonical orientation of single comparisons: `a > b` -> `b < a`, `a >= b` -> `b <= a`; for == / != a constant
    operand goes to the right, otherwise the operands are ordered by their text."""

    def visit_Compare(self, node: ast.Compare):
        self.generic_visit(node)
        if len(node.ops) != 1:
            return node
        op, a, b = node.ops[0], node.left, node.comparators[0]
        swap = None
        if isinstance(op, ast.Gt):
            swap = ast.Lt()
        elif isinstance(op, ast.GtE):
            swap = ast.LtE()
        elif isinstance(op, (ast.Eq, ast.NotEq)):
            ca, cb = isinstance(a, ast.Constant), isinstance(b, ast.Constant)
            if (ca and not cb) or (ca == cb and ast.dump(a) > ast.dump(b)):
                swap = type(op)()
        if swap is None:
            return node
        return ast.copy_location(ast.Compare(left=b, ops=[swap], comparators=[a]), node)


class _CanonNeg(ast.NodeTransformer):
    """Semantics-preserving canonical form for negated tests, applied to every module before analysis, so that the
    rules need to know one spelling only:

        if not X: A else: B       ->  if X: B else: A        (only with a real else arm, not an elif chain)
        a if not X else b         ->  b if X else a
        not (x == y) / not (x is y) / not (x in y)  ->  x != y / x is not y / x not in y   (single comparison)

    Positions are kept (copy_location), so reports still point at the original line."""

    def visit_UnaryOp(self, node: ast.UnaryOp):
        self.generic_visit(node)
        if isinstance(node.op, ast.Not):
            t = node.operand
            if isinstance(t, ast.Compare) and len(t.ops) == 1 and type(t.ops[0]) in _NEG_OP:
                return ast.copy_location(ast.Compare(left=t.left, ops=[_NEG_OP[type(t.ops[0])]()],
                                                     comparators=t.comparators), node)
            if isinstance(t, ast.UnaryOp) and isinstance(t.op, ast.Not) and False:
                return t.operand
        return node

    def visit_If(self, node: ast.If):
        elif_chain = len(node.orelse) == 1 and isinstance(node.orelse[0], ast.If)
        if isinstance(node.test, ast.UnaryOp) and isinstance(node.test.op, ast.Not) and node.orelse \
                and not elif_chain:
            node = ast.copy_location(ast.If(test=node.test.operand, body=node.orelse, orelse=node.body), node)
        self.generic_visit(node)
        return node

    def visit_IfExp(self, node: ast.IfExp):
        if isinstance(node.test, ast.UnaryOp) and isinstance(node.test.op, ast.Not):
            node = ast.copy_location(ast.IfExp(test=node.test.operand, body=node.orelse, orelse=node.body), node)
        self.generic_visit(node)
        return node


class Repo:
    def __init__(self, root: Path):
        self.root = root
        self.modules: dict[str, ModuleInfo] = {}
        self._parents: dict[int, dict[int, ast.AST]] = {}

    # ------------------------------------------------------------------ loading
    @classmethod
    def load(cls, root: Optional[Path] = None) -> "Repo":
        root = root or repo_root()
        repo = cls(root)
        pkg = root / "abtem"
        if not pkg.is_dir():
            raise AnalysisError(f"package directory {pkg} not found")
        for path in sorted(pkg.rglob("*.py")):
            rel = path.relative_to(root)
            parts = list(rel.with_suffix("").parts)
            if parts[-1] == "__init__":
                parts = parts[:-1]
            name = ".".join(parts)
            src = path.read_text(encoding="utf-8")
            try:
                tree = ast.parse(src, filename=str(path))
            except SyntaxError as e:  # a tree that does not parse is not analysable
                raise AnalysisError(f"cannot parse {rel}: {e}")
            if os.environ.get("VERIF_NO_CANON") != "1":
                tree = ast.fix_missing_locations(_CanonNeg().visit(tree))
                tree = ast.fix_missing_locations(_CanonCmp().visit(tree))
                tree = ast.fix_missing_locations(_CanonPos(tree).visit(tree))
                tree = ast.fix_missing_locations(_CanonRet().visit(tree))
            mod = ModuleInfo(name=name, path=path, relpath=str(rel), tree=tree, source=src)
            repo.modules[name] = mod
        for mod in repo.modules.values():
            repo._index_module(mod)
        for mod in repo.modules.values():
            for c in mod.classes.values():
                repo._resolve_bases(c)
        return repo

    def digest(self) -> str:
        h = hashlib.sha256()
        for name in sorted(self.modules):
            h.update(name.encode())
            h.update(self.modules[name].source.encode())
        return h.hexdigest()[:16]

    def _index_module(self, mod: ModuleInfo) -> None:
        def visit(body: Iterable[ast.stmt]) -> None:
            for st in body:
                if isinstance(st, (ast.FunctionDef, ast.AsyncFunctionDef)):
                    mod.functions[st.name] = FuncInfo(mod, st)  # type: ignore[arg-type]
                elif isinstance(st, ast.ClassDef):
                    ci = ClassInfo(mod, st)
                    ci.base_exprs = []
                    for b in st.bases:
                        if isinstance(b, ast.Subscript):  # Generic[T] / Base[T]
                            b = b.value
                        ci.base_exprs.append(dotted(b) or ast.unparse(b))
                    for s2 in st.body:
                        if isinstance(s2, (ast.FunctionDef, ast.AsyncFunctionDef)):
                            ci.methods.setdefault(s2.name, []).append(FuncInfo(mod, s2, ci))  # type: ignore[arg-type]
                        elif isinstance(s2, ast.Assign):
                            for t in s2.targets:
                                if isinstance(t, ast.Name):
                                    ci.class_attrs[t.id] = s2.value
                        elif isinstance(s2, ast.AnnAssign) and isinstance(s2.target, ast.Name):
                            ci.annotations[s2.target.id] = s2.annotation
                            if s2.value is not None:
                                ci.class_attrs[s2.target.id] = s2.value
                    mod.classes[st.name] = ci
                elif isinstance(st, ast.Import):
                    for a in st.names:
                        mod.imports[(a.asname or a.name.split(".")[0])] = a.name if a.asname else a.name.split(".")[0]
                elif isinstance(st, ast.ImportFrom):
                    base = st.module or ""
                    if st.level:
                        pkg_parts = mod.name.split(".")
                        if not mod.is_package:
                            pkg_parts = pkg_parts[:-1]
                        pkg_parts = pkg_parts[: len(pkg_parts) - (st.level - 1)]
                        base = ".".join(pkg_parts + ([st.module] if st.module else []))
                    for a in st.names:
                        mod.imports[a.asname or a.name] = f"{base}.{a.name}"
                elif isinstance(st, ast.Assign):
                    for t in st.targets:
                        if isinstance(t, ast.Name):
                            mod.assigns[t.id] = st.value
                elif isinstance(st, ast.AnnAssign) and isinstance(st.target, ast.Name) and st.value is not None:
                    mod.assigns[st.target.id] = st.value
                elif isinstance(st, ast.If):
                    visit(st.body)
                    visit(st.orelse)
                elif isinstance(st, ast.Try):
                    visit(st.body)
                    for h in st.handlers:
                        visit(h.body)
                    visit(st.orelse)
                    visit(st.finalbody)

        visit(mod.tree.body)

    # ------------------------------------------------------------------ resolution
    def resolve_name(self, mod: ModuleInfo, name: str, _depth: int = 0):
        """Resolve a (possibly dotted) name used in `mod` to a ClassInfo / FuncInfo / ModuleInfo / None."""
        if _depth > 8:
            return None
        head, _, rest = name.partition(".")
        target = None
        if head in mod.classes:
            target = mod.classes[head]
        elif head in mod.functions:
            target = mod.functions[head]
        elif head in mod.imports:
            target = self._resolve_qualified(mod.imports[head], _depth + 1)
        if target is None:
            return None
        while rest:
            head, _, rest = rest.partition(".")
            if isinstance(target, ModuleInfo):
                target = self.resolve_name(target, head, _depth + 1)
            elif isinstance(target, ClassInfo):
                target = target.find_method(head)
            else:
                return None
            if target is None:
                return None
        return target

    def _resolve_qualified(self, q: str, _depth: int = 0):
        if q in self.modules:
            return self.modules[q]
        modname, _, attr = q.rpartition(".")
        if modname in self.modules:
            return self.resolve_name(self.modules[modname], attr, _depth + 1)
        return None

    def _resolve_bases(self, c: ClassInfo) -> None:
        for b in c.base_exprs:
            t = self.resolve_name(c.module, b)
            if isinstance(t, ClassInfo):
                c.bases.append(t)
            else:
                c.external_bases.append(b)

    # ------------------------------------------------------------------ lookup with hard failure
    def module(self, name: str) -> ModuleInfo:
        if name not in self.modules:
            raise AnalysisError(f"anchor module {name} not found")
        return self.modules[name]

    def function(self, modname: str, fname: str) -> FuncInfo:
        m = self.module(modname)
        if fname not in m.functions:
            raise AnalysisError(f"anchor function {modname}.{fname} not found")
        return m.functions[fname]

    def cls(self, modname: str, cname: str) -> ClassInfo:
        m = self.module(modname)
        if cname not in m.classes:
            raise AnalysisError(f"anchor class {modname}.{cname} not found")
        return m.classes[cname]

    def method(self, modname: str, cname: str, mname: str, kind: str = "getter", inherited: bool = False) -> FuncInfo:
        c = self.cls(modname, cname)
        f = c.find_method(mname, kind) if inherited else c.own_method(mname, kind)
        if f is None:
            raise AnalysisError(f"anchor method {modname}.{cname}.{mname} ({kind}) not found")
        return f

    def find_class(self, cname: str) -> ClassInfo:
        hits = [m.classes[cname] for m in self.modules.values() if cname in m.classes]
        if len(hits) != 1:
            raise AnalysisError(f"class {cname}: {len(hits)} definitions found")
        return hits[0]

    def all_classes(self) -> Iterator[ClassInfo]:
        for m in self.modules.values():
            yield from m.classes.values()

    def all_functions(self) -> Iterator[FuncInfo]:
        for m in self.modules.values():
            yield from m.functions.values()
            for c in m.classes.values():
                for defs in c.methods.values():
                    yield from defs

    def subclasses(self, base: ClassInfo, strict: bool = True) -> list[ClassInfo]:
        out = []
        for c in self.all_classes():
            if base in c.mro() and (c is not base or not strict):
                out.append(c)
        return out

    def count_functions(self) -> int:
        return sum(1 for _ in self.all_functions())

    # ------------------------------------------------------------------ class-level queries
    def init_chain(self, c: ClassInfo) -> list[FuncInfo]:
        """`__init__` bodies actually executed when constructing `c`:

        start at the first `__init__` in the MRO; follow `super().__init__(...)` (next in the MRO of `c`)
        and explicit `Base.__init__(self, ...)` calls.  A base `__init__` that is never reached this way
        does not contribute instance attributes."""
        mro = c.mro()
        chain: list[FuncInfo] = []
        seen: set[int] = set()

        def next_init(after: ClassInfo) -> Optional[FuncInfo]:
            idx = mro.index(after)
            for k in mro[idx + 1:]:
                f = k.own_method("__init__")
                if f is not None:
                    return f
            return None

        def walk(f: Optional[FuncInfo]) -> None:
            if f is None or id(f) in seen:
                return
            seen.add(id(f))
            chain.append(f)
            for n in ast.walk(f.node):
                if isinstance(n, ast.Call) and isinstance(n.func, ast.Attribute) and n.func.attr == "__init__":
                    recv = n.func.value
                    if isinstance(recv, ast.Call) and dotted(recv.func) == "super":
                        assert f.cls is not None
                        walk(next_init(f.cls))
                    else:
                        nm = dotted(recv)
                        if nm:
                            t = self.resolve_name(f.module, nm)
                            if isinstance(t, ClassInfo):
                                g = t.find_method("__init__")
                                walk(g)

        first = c.find_method("__init__")
        walk(first)
        return chain

    def instance_attrs(self, c: ClassInfo) -> set[str]:
        """Names X with a `self.X = ...` (or annotated/augmented) store in the executed init chain."""
        names: set[str] = set()
        for f in self.init_chain(c):
            selfname = f.positional_params[0] if f.positional_params else "self"
            for n in ast.walk(f.node):
                targets: list[ast.expr] = []
                if isinstance(n, ast.Assign):
                    targets = list(n.targets)
                elif isinstance(n, (ast.AnnAssign, ast.AugAssign)):
                    targets = [n.target]
                for t in targets:
                    for e in ast.walk(t):
                        if (
                            isinstance(e, ast.Attribute)
                            and isinstance(e.value, ast.Name)
                            and e.value.id == selfname
                            and isinstance(e.ctx, ast.Store)
                        ):
                            names.add(e.attr)
        return names

    def getattr_resolvable(self, c: ClassInfo) -> set[str]:
        names = set(self.instance_attrs(c))
        for k in c.mro():
            names.update(k.methods)
            names.update(k.class_attrs)
        return names

    def has_dynamic_getattr(self, c: ClassInfo) -> Optional[FuncInfo]:
        return c.find_method("__getattr__")


# ---------------------------------------------------------------------- literal folding
_SAFE_FUNCS = {"tuple": tuple, "list": list, "dict": dict, "set": set, "frozenset": frozenset, "len": len,
               "range": range, "sorted": sorted, "zip": zip, "enumerate": enumerate, "str": str, "int": int,
               "float": float, "abs": abs, "min": min, "max": max, "sum": sum}


class NotConstant(Exception):
    pass


def fold_constant(node: ast.expr, env: Optional[dict] = None):
    """Whitelist interpreter for literal displays (dict/list/tuple/set, comprehensions over literals,
    +,-,*,/,** on numbers, string formatting of literals, `np.pi`).  Raises NotConstant otherwise."""
    import math

    env = dict(env or {})

    def ev(n: ast.expr, scope: dict):
        if isinstance(n, ast.Constant):
            return n.value
        if isinstance(n, ast.Name):
            if n.id in scope:
                return scope[n.id]
            if n.id in ("True", "False", "None"):
                return {"True": True, "False": False, "None": None}[n.id]
            raise NotConstant(n.id)
        if isinstance(n, ast.Attribute):
            d = dotted(n)
            if d in ("np.pi", "numpy.pi", "math.pi"):
                return math.pi
            raise NotConstant(d or "attr")
        if isinstance(n, ast.Tuple):
            return tuple(_els(n.elts, scope))
        if isinstance(n, ast.List):
            return list(_els(n.elts, scope))
        if isinstance(n, ast.Set):
            return set(_els(n.elts, scope))
        if isinstance(n, ast.Dict):
            out = {}
            for k, v in zip(n.keys, n.values):
                if k is None:
                    out.update(ev(v, scope))
                else:
                    out[ev(k, scope)] = ev(v, scope)
            return out
        if isinstance(n, ast.UnaryOp):
            v = ev(n.operand, scope)
            if isinstance(n.op, ast.USub):
                return -v
            if isinstance(n.op, ast.UAdd):
                return +v
            if isinstance(n.op, ast.Not):
                return not v
            raise NotConstant("unary")
        if isinstance(n, ast.BinOp):
            a, b = ev(n.left, scope), ev(n.right, scope)
            ops = {ast.Add: lambda: a + b, ast.Sub: lambda: a - b, ast.Mult: lambda: a * b,
                   ast.Div: lambda: a / b, ast.Pow: lambda: a ** b, ast.Mod: lambda: a % b,
                   ast.FloorDiv: lambda: a // b, ast.BitOr: lambda: a | b}
            for k, f in ops.items():
                if isinstance(n.op, k):
                    return f()
            raise NotConstant("binop")
        if isinstance(n, ast.Subscript):
            v = ev(n.value, scope)
            if isinstance(n.slice, ast.Slice):
                lo = ev(n.slice.lower, scope) if n.slice.lower else None
                hi = ev(n.slice.upper, scope) if n.slice.upper else None
                st = ev(n.slice.step, scope) if n.slice.step else None
                return v[lo:hi:st]
            return v[ev(n.slice, scope)]
        if isinstance(n, ast.JoinedStr):
            s = ""
            for p in n.values:
                if isinstance(p, ast.Constant):
                    s += str(p.value)
                elif isinstance(p, ast.FormattedValue):
                    s += format(ev(p.value, scope))
            return s
        if isinstance(n, ast.Call):
            fn = dotted(n.func)
            if fn in _SAFE_FUNCS and not n.keywords:
                return _SAFE_FUNCS[fn](*[ev(a, scope) for a in n.args])
            if isinstance(n.func, ast.Attribute) and n.func.attr in ("keys", "values", "items", "split", "lower",
                                                                       "upper", "format", "join") and not n.keywords:
                recv = ev(n.func.value, scope)
                return getattr(recv, n.func.attr)(*[ev(a, scope) for a in n.args])
            raise NotConstant(fn or "call")
        if isinstance(n, (ast.ListComp, ast.SetComp, ast.GeneratorExp, ast.DictComp)):
            results = []

            def rec(gens, sc):
                if not gens:
                    if isinstance(n, ast.DictComp):
                        results.append((ev(n.key, sc), ev(n.value, sc)))
                    else:
                        results.append(ev(n.elt, sc))
                    return
                g = gens[0]
                for item in ev(g.iter, sc):
                    sc2 = dict(sc)
                    _bind(g.target, item, sc2)
                    if all(ev(c, sc2) for c in g.ifs):
                        rec(gens[1:], sc2)

            rec(n.generators, scope)
            if isinstance(n, ast.DictComp):
                return dict(results)
            if isinstance(n, ast.SetComp):
                return set(results)
            return list(results)
        if isinstance(n, ast.Compare) and len(n.ops) == 1:
            a, b = ev(n.left, scope), ev(n.comparators[0], scope)
            op = n.ops[0]
            if isinstance(op, ast.Eq):
                return a == b
            if isinstance(op, ast.NotEq):
                return a != b
            if isinstance(op, ast.In):
                return a in b
            if isinstance(op, ast.NotIn):
                return a not in b
            if isinstance(op, ast.Lt):
                return a < b
            if isinstance(op, ast.Gt):
                return a > b
            raise NotConstant("compare")
        if isinstance(n, ast.IfExp):
            return ev(n.body, scope) if ev(n.test, scope) else ev(n.orelse, scope)
        if isinstance(n, ast.Starred):
            raise NotConstant("starred")
        raise NotConstant(type(n).__name__)

    def _els(elts, scope):
        out = []
        for e in elts:
            if isinstance(e, ast.Starred):
                out.extend(ev(e.value, scope))
            else:
                out.append(ev(e, scope))
        return out

    def _bind(target, value, scope):
        if isinstance(target, ast.Name):
            scope[target.id] = value
        elif isinstance(target, (ast.Tuple, ast.List)):
            vals = list(value)
            if len(vals) != len(target.elts):
                raise NotConstant("unpack")
            for t, v in zip(target.elts, vals):
                _bind(t, v, scope)
        else:
            raise NotConstant("bind")

    return ev(node, env)


def module_constants(mod: ModuleInfo) -> dict:
    """Fold module-level assignments in order; names that do not fold are skipped."""
    env: dict = {}
    for st in mod.tree.body:
        tgt = None
        val = None
        if isinstance(st, ast.Assign) and len(st.targets) == 1 and isinstance(st.targets[0], ast.Name):
            tgt, val = st.targets[0].id, st.value
        elif isinstance(st, ast.AnnAssign) and isinstance(st.target, ast.Name) and st.value is not None:
            tgt, val = st.target.id, st.value
        if tgt is None:
            continue
        try:
            env[tgt] = fold_constant(val, env)
        except (NotConstant, Exception):
            pass
    return env


# ---------------------------------------------------------------------- small AST helpers
def walk_no_nested(node: ast.AST) -> Iterator[ast.AST]:
    """ast.walk that does not descend into nested function/class/lambda definitions."""
    stack = [node]
    first = True
    while stack:
        n = stack.pop()
        if not first and isinstance(n, (ast.FunctionDef, ast.AsyncFunctionDef, ast.ClassDef, ast.Lambda)):
            continue
        first = False
        yield n
        stack.extend(reversed(list(ast.iter_child_nodes(n))))


def names_in(node: ast.AST) -> set[str]:
    return {n.id for n in ast.walk(node) if isinstance(n, ast.Name)}


def calls_in(node: ast.AST) -> list[ast.Call]:
    return [n for n in ast.walk(node) if isinstance(n, ast.Call)]


def kw(call: ast.Call, name: str) -> Optional[ast.expr]:
    for k in call.keywords:
        if k.arg == name:
            return k.value
    return None


def ordered_compare(c: ast.AST):
    """(lo, strict, hi) for a single comparison `lo < hi` / `lo <= hi` written in either orientation; None otherwise"""
    if isinstance(c, ast.Compare) and len(c.ops) == 1:
        op, a, b = c.ops[0], c.left, c.comparators[0]
        if isinstance(op, (ast.Lt, ast.LtE)):
            return a, isinstance(op, ast.Lt), b
        if isinstance(op, (ast.Gt, ast.GtE)):
            return b, isinstance(op, ast.Gt), a
    return None


def bind_args(call: ast.Call, f: FuncInfo, skip_self: bool = False) -> dict[str, ast.expr]:
    """Bind a call's positional and keyword arguments to the callee's parameter names."""
    params = f.positional_params
    if skip_self and params:
        params = params[1:]
    out: dict[str, ast.expr] = {}
    for p, a in zip(params, call.args):
        if isinstance(a, ast.Starred):
            break
        out[p] = a
    for k in call.keywords:
        if k.arg is not None:
            out[k.arg] = k.value
    return out
