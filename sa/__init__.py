"""Static analysis machinery for the abTEM properties (stdlib `ast` only; never imports abTEM)."""
