"""Reporting contract shared by all checks: instances, violations, known findings, evidence, exit codes."""
from __future__ import annotations

import hashlib
import json
import os
import re
import sys
import time
from dataclasses import dataclass, field
from pathlib import Path
from typing import Optional

from .model import AnalysisError, Repo

VERIF = Path(__file__).resolve().parent.parent
EVIDENCE_DIR = Path(os.environ.get("VERIF_EVIDENCE_DIR", VERIF / "evidence"))
KNOWN = VERIF / "known_findings.json"
EXPECTED = Path(__file__).resolve().parent / "expected_instances.json"


@dataclass
class Instance:
    rule: str
    construct: str  # qualified construct (module.Class.func[:detail]) — never a line number
    where: str  # file:line, for diagnosis only
    verdict: str  # ok | violation | info | known
    detail: str = ""
    nontrivial: bool = True
    key: str = ""


class Ctx:
    def __init__(self, prop: str, tier: str = "quick", repo: Optional[Repo] = None):
        self.prop = prop
        self.tier = tier
        self.t0 = time.time()
        self.repo = repo if repo is not None else Repo.load()
        self.instances: list[Instance] = []
        self.rules: dict[str, str] = {}
        self.assumptions: list[str] = []
        self.not_decided: list[str] = []
        self.extra: dict = {}
        self.quiet = False

    # ------------------------------------------------------------------ recording
    def rule(self, name: str, text: str) -> None:
        self.rules[name] = " ".join(text.split())

    def assume(self, text: str) -> None:
        self.assumptions.append(" ".join(text.split()))

    def undecided(self, text: str) -> None:
        self.not_decided.append(" ".join(text.split()))

    def ok(self, rule: str, construct: str, where: str, detail: str = "", nontrivial: bool = True) -> None:
        self.instances.append(Instance(rule, construct, where, "ok", detail, nontrivial))

    def info(self, rule: str, construct: str, where: str, detail: str = "") -> None:
        self.instances.append(Instance(rule, construct, where, "info", detail, False))

    def violation(self, rule: str, construct: str, where: str, detail: str, key_detail: str = "") -> None:
        key = f"{self.prop}:{rule}:{construct}" + (f":{key_detail}" if key_detail else "")
        self.instances.append(Instance(rule, construct, where, "violation", detail, True, key))

    def check(self, cond: bool, rule: str, construct: str, where: str, ok_detail: str = "", bad_detail: str = "",
              key_detail: str = "") -> bool:
        if cond:
            self.ok(rule, construct, where, ok_detail)
        else:
            self.violation(rule, construct, where, bad_detail or ok_detail, key_detail)
        return cond

    def require(self, cond: bool, what: str) -> None:
        """Anchor requirement: failing it means the analyser lost its footing, not that the property broke."""
        if not cond:
            raise AnalysisError(what)

    # ------------------------------------------------------------------ finishing
    def finish(self) -> int:
        known = load_known()
        floors = json.loads(EXPECTED.read_text()) if EXPECTED.exists() else {}
        floor = floors.get(self.prop, {})
        counts: dict[str, int] = {}
        for i in self.instances:
            if i.verdict != "info":
                counts[i.rule] = counts.get(i.rule, 0) + 1
        # floors guard against vacuous passes; a run that already found violations is not a pass
        any_violation = any(i.verdict == "violation" for i in self.instances)
        for rule, minimum in floor.items():
            if not any_violation and counts.get(rule, 0) < minimum:
                raise AnalysisError(
                    f"rule {rule} matched {counts.get(rule, 0)} instances, below the hand-confirmed floor {minimum}"
                )
        nviol = 0
        out = []
        n_rules = len(self.rules)
        checked = [i for i in self.instances if i.verdict != "info"]
        out.append(
            f"ANALYSED {len(self.repo.modules)} modules, {self.repo.count_functions()} functions, "
            f"{len(checked)} rule instances ({n_rules} rules) property={self.prop} tier={self.tier} "
            f"tree={self.repo.digest()}"
        )
        replay_dir = EVIDENCE_DIR / "replay"
        for i in self.instances:
            line = f"  [{i.verdict.upper():9}] {i.rule:18} {i.construct}  @{i.where}  {i.detail}"
            if i.verdict == "violation":
                k = known.get(i.key)
                if k is not None and k.get("status") == "known":
                    i.verdict = "known"
                    out.append(f"KNOWN-FINDING: property={self.prop} {i.key} — {k.get('what', i.detail)}")
                    continue
                nviol += 1
                replay_dir.mkdir(parents=True, exist_ok=True)
                rp = replay_dir / (re.sub(r"[^A-Za-z0-9_.-]+", "_", i.key)[:150] + "-" +
                                   hashlib.sha1(i.key.encode()).hexdigest()[:8] + ".json")
                rp.write_text(json.dumps({"property": self.prop, "rule": i.rule, "rule_text": self.rules.get(i.rule, ""),
                                          "construct": i.construct, "where": i.where, "detail": i.detail,
                                          "key": i.key, "tree": self.repo.digest(),
                                          "replay": f"python3 -m sa.check {self.prop}"}, indent=1))
                out.append(line)
                out.append(f"VIOLATION property={self.prop} replay={rp}")
            elif not self.quiet or i.verdict != "ok":
                out.append(line)
        self._write_evidence(nviol)
        print("\n".join(out))
        print(f"RESULT property={self.prop} instances={len(checked)} violations={nviol} "
              f"known={sum(1 for i in self.instances if i.verdict == 'known')} wall={time.time() - self.t0:.2f}s")
        return 1 if nviol else 0

    def _write_evidence(self, nviol: int) -> None:
        checked = [i for i in self.instances if i.verdict != "info"]
        distinct = {(i.rule, i.construct, i.detail) for i in checked if i.nontrivial}
        samples = [
            {"rule": i.rule, "construct": i.construct, "where": i.where, "verdict": i.verdict, "detail": i.detail}
            for i in self.instances
        ]
        ev = {
            "property_id": self.prop,
            "tier": self.tier,
            "seed": int(os.environ.get("VERIF_SEED", "0") or 0),
            "level": "other",
            "coverage": {
                "explanation": "Static analysis of /repo's working tree (ast only, abTEM is never imported or run). "
                               "Rules applied: " + " | ".join(f"{k}: {v}" for k, v in self.rules.items()),
                "evaluations": max(len(checked), 1),
                "distinct_nontrivial": len(distinct),
                "rule": "every construct of the current tree matched by a rule's precondition is one instance; "
                        "an instance is non-trivial when the precondition genuinely matched code (not a vacuous pass); "
                        "distinct = different (rule, construct, detail)",
                "samples": samples[:400],
                "exhaustive": True,
                "modules_parsed": len(self.repo.modules),
                "functions_parsed": self.repo.count_functions(),
                "tree_digest": self.repo.digest(),
                "rules": self.rules,
                "instances_per_rule": _count([i.rule for i in checked]),
                "informational": [f"{i.rule} {i.construct}: {i.detail}" for i in self.instances if i.verdict == "info"],
                "not_decided": self.not_decided,
                **self.extra,
            },
            "assumptions": self.assumptions + [f"NOT DECIDED: {t}" for t in self.not_decided],
            "wall_s": round(time.time() - self.t0, 3),
            "violations": nviol,
        }
        EVIDENCE_DIR.mkdir(parents=True, exist_ok=True)
        (EVIDENCE_DIR / f"{self.prop}.json").write_text(json.dumps(ev, indent=1, default=str))


def _count(xs):
    d: dict[str, int] = {}
    for x in xs:
        d[x] = d.get(x, 0) + 1
    return d


def load_known() -> dict[str, dict]:
    if not KNOWN.exists():
        return {}
    data = json.loads(KNOWN.read_text())
    return {e["key"]: e for e in data.get("findings", []) if "key" in e}


class OnlyConstructs:
    """Proxy of a check context that keeps only the rule instances whose construct starts with one of the given
    prefixes (used to run a package-wide rule of one property inside the check of another property, restricted to the
    modules the second property is anchored in).  Rule texts, requirements and everything else pass through;
    `undecided` notes of the borrowed rule are dropped."""

    def __init__(self, ctx, prefixes):
        self._ctx, self._p = ctx, tuple(prefixes)

    def __getattr__(self, name):
        return getattr(self._ctx, name)

    def _keep(self, construct: str) -> bool:
        return any(construct.startswith(p) for p in self._p)

    def undecided(self, text):
        return None

    def check(self, cond, rule, construct, *a, **k):
        return self._ctx.check(cond, rule, construct, *a, **k) if self._keep(construct) else cond

    def violation(self, rule, construct, *a, **k):
        if self._keep(construct):
            self._ctx.violation(rule, construct, *a, **k)

    def ok(self, rule, construct, *a, **k):
        if self._keep(construct):
            self._ctx.ok(rule, construct, *a, **k)

    def info(self, rule, construct, *a, **k):
        if self._keep(construct):
            self._ctx.info(rule, construct, *a, **k)

