"""Self-test of the checkers: every rule must fire on a broken variant and stay silent on a
behaviour-preserving refactoring.

Variants are textual edits of one or more files applied to a scratch copy of ``abtem/`` under
$TMPDIR (outside /repo and /verif), analysed in-process, and deleted immediately.

  python3 -m sa.selftest [PROP ...] [-j N]     exit 0 iff every expectation is met

Variant tables live in sa/mutants/<prop>.py as  MUTANTS = [ (name, expect, [(relpath, old, new), ...]) ]
with expect in {"fire", "silent"}.  A variant whose `old` text is not found in the current tree is
reported as SKIPPED (the tree moved on), never as a failure.
"""
from __future__ import annotations

import argparse
import contextlib
import importlib
import io
import os
import shutil
import sys
import tempfile
import traceback
from concurrent.futures import ProcessPoolExecutor
from pathlib import Path

from .model import AnalysisError, Repo, repo_root


def load_mutants(prop: str):
    out = []
    try:
        m = importlib.import_module(f"sa.mutants.{prop.lower()}")
        out = list(m.MUTANTS)
    except ModuleNotFoundError:
        pass
    try:
        from .mutants._reverts import REVERTS

        for diff, props, name in REVERTS:
            if prop.upper() in props:
                out.append((f"revert-fix {diff} ({name})", "fire", [("@revert", diff, "")]))
    except ModuleNotFoundError:
        pass
    # seeded changes from independent sub-agents: every check that caught one must keep catching it
    import json as _json

    seeded = Path(__file__).resolve().parent.parent / "seeded"
    if seeded.is_dir():
        for meta in sorted(seeded.glob("*/meta.json")):
            try:
                d = _json.loads(meta.read_text())
            except Exception:
                continue
            if prop.upper() in d.get("caught_by", []):
                out.append((f"seeded {meta.parent.name}", "fire", [("@patch", str(meta.parent / "patch.diff"), "")]))
    return out


def _analyse(prop: str, root: Path, evdir: Path):
    """Run one check in-process on `root`; returns (rc, set of violation keys, output)."""
    from . import report

    os.environ["VERIF_EVIDENCE_DIR"] = str(evdir)
    report.EVIDENCE_DIR = evdir
    buf = io.StringIO()
    rc = 2
    keys: set[str] = set()
    with contextlib.redirect_stdout(buf):
        try:
            repo = Repo.load(root)
            ctx = report.Ctx(prop, "quick", repo)
            ctx.quiet = True
            mod = importlib.import_module(f"sa.checks.{prop.lower()}")
            try:
                mod.run(ctx)
            except AnalysisError:
                if not any(i.verdict == "violation" for i in ctx.instances):
                    raise
            keys = {i.key for i in ctx.instances if i.verdict == "violation"}
            rc = ctx.finish()
        except AnalysisError as e:
            print(f"ANALYSIS-ERROR {e}")
            rc = 2
        except Exception:
            print("ANALYSIS-ERROR internal\n" + traceback.format_exc())
            rc = 2
    return rc, keys, buf.getvalue()


_BASE: dict[str, tuple] = {}


def baseline(prop: str, src_root: str):
    """Violation keys of the unmodified tree (pending known defects): variants are judged on the
    keys they ADD, so a defect that is still open does not mask or fake a variant's verdict."""
    if prop not in _BASE:
        tmp = Path(tempfile.mkdtemp(prefix=f"sa-base-{prop}-"))
        try:
            _BASE[prop] = _analyse(prop, Path(src_root), tmp / "evidence")
        finally:
            shutil.rmtree(tmp, ignore_errors=True)
    return _BASE[prop]


def _run_variant(args):
    prop, name, expect, edits, src_root = args
    base_rc, base_keys, _ = baseline(prop, src_root)
    tmp = Path(tempfile.mkdtemp(prefix=f"sa-{prop}-"))
    try:
        shutil.copytree(Path(src_root) / "abtem", tmp / "abtem", ignore=shutil.ignore_patterns("__pycache__", "*.pyc"))
        for rel, old, new in edits:
            if rel == "@patch":
                import subprocess

                r = subprocess.run(["patch", "-p1", "--batch", "--silent", "-i", old], cwd=tmp,
                                   capture_output=True, text=True)
                if r.returncode != 0:
                    return (prop, name, expect, "SKIPPED", f"seeded patch does not apply: {r.stdout[:100]}")
                continue
            if rel == "@revert":
                import subprocess

                diff = Path(__file__).parent / "mutants" / "reverts" / f"{old}.diff"
                r = subprocess.run(["patch", "-R", "-p1", "--batch", "--silent", "-i", str(diff)], cwd=tmp,
                                   capture_output=True, text=True)
                if r.returncode != 0:
                    return (prop, name, expect, "SKIPPED", f"reverse patch does not apply: {r.stdout[:100]}")
                continue
            p = tmp / rel
            if not p.exists():
                return (prop, name, expect, "SKIPPED", f"{rel} missing")
            s = p.read_text()
            if s.count(old) < 1:
                return (prop, name, expect, "SKIPPED", f"pattern not found in {rel}")
            if s.count(old) > 1 and not name.endswith("*"):
                return (prop, name, expect, "SKIPPED", f"pattern ambiguous in {rel} ({s.count(old)}x)")
            p.write_text(s.replace(old, new))
        try:
            import ast as _ast

            for rel, _, _ in edits:
                if rel not in ("@revert", "@patch"):
                    _ast.parse((tmp / rel).read_text())
        except SyntaxError as e:
            return (prop, name, expect, "BROKEN-VARIANT", str(e))
        rc, keys, out = _analyse(prop, tmp, tmp / "evidence")
        new = sorted(keys - base_keys)
        if rc == 2:
            verdict = "FAIL"
            detail = ([l for l in out.splitlines() if "ANALYSIS-ERROR" in l] or [""])[0][:300]
        elif expect == "fire":
            verdict = "PASS" if new else "FAIL"
            viol = [l for l in out.splitlines() if "[VIOLATION" in l and any(k.split(":")[2] in l for k in new)]
            detail = (viol[0].strip()[:200] if viol else (new[0] if new else "no new violation"))
            detail = detail.replace("[VIOLATION]", "fired:")
        else:
            verdict = "PASS" if not new else "FAIL"
            detail = "; ".join(new)[:300]
        return (prop, name, expect, verdict, f"rc={rc} {detail}")
    finally:
        shutil.rmtree(tmp, ignore_errors=True)


def run(props, jobs: int = 8, verbose: bool = True):
    src_root = str(repo_root())
    tasks = []
    for p in props:
        for name, expect, edits in load_mutants(p):
            tasks.append((p, name, expect, edits, src_root))
    results = []
    if not tasks:
        return results
    if jobs <= 1:
        results = [_run_variant(t) for t in tasks]
    else:
        with ProcessPoolExecutor(max_workers=jobs) as ex:
            results = list(ex.map(_run_variant, tasks))
    if verbose:
        for r in results:
            print(f"SELFTEST {r[0]} {r[3]:8} expect={r[2]:6} {r[1]} :: {r[4]}")
    return results


def run_for(prop: str) -> int:
    """Thorough tier: run this property's variants; results are informational (evidence), the exit
    status of the check stays that of the analysis of /repo itself."""
    import json

    from . import report

    ev_dir = report.EVIDENCE_DIR
    res = run([prop], jobs=min(16, os.cpu_count() or 4))
    report.EVIDENCE_DIR = ev_dir
    os.environ.pop("VERIF_EVIDENCE_DIR", None)
    path = ev_dir / f"{prop}.json"
    try:
        ev = json.loads(path.read_text())
        ev["tier"] = "thorough"
        ev["coverage"]["selftest"] = {
            "variants": len(res),
            "fire_expected_and_fired": sum(1 for r in res if r[2] == "fire" and r[3] == "PASS"),
            "silent_expected_and_silent": sum(1 for r in res if r[2] == "silent" and r[3] == "PASS"),
            "skipped": sum(1 for r in res if r[3] == "SKIPPED"),
            "failed": [f"{r[1]}: {r[4]}" for r in res if r[3] in ("FAIL", "BROKEN-VARIANT")],
            "cases": [{"name": r[1], "expect": r[2], "result": r[3], "detail": r[4]} for r in res],
        }
        path.write_text(json.dumps(ev, indent=1))
    except Exception as e:  # evidence stays the quick one
        print(f"SELFTEST could not extend evidence: {e}")
    weak = [r for r in res if r[3] in ("FAIL", "BROKEN-VARIANT")]
    for r in weak:
        print(f"SELFTEST-WEAK {prop} {r[1]}: {r[4]}")
    return 0


def main(argv=None) -> int:
    ap = argparse.ArgumentParser()
    ap.add_argument("props", nargs="*")
    ap.add_argument("-j", type=int, default=min(16, os.cpu_count() or 4))
    a = ap.parse_args(argv)
    props = [p.upper() for p in a.props]
    if not props:
        props = sorted(p.stem.upper() for p in (Path(__file__).parent / "mutants").glob("c*.py"))
    res = run(props, a.j)
    bad = [r for r in res if r[3] in ("FAIL", "BROKEN-VARIANT")]
    print(f"SELFTEST total={len(res)} pass={sum(1 for r in res if r[3] == 'PASS')} "
          f"skipped={sum(1 for r in res if r[3] == 'SKIPPED')} failed={len(bad)}")
    return 1 if bad else 0


if __name__ == "__main__":
    sys.exit(main())
