"""Symbolic whole-pixel translation of the atomic coordinates.

The covariance "translate every atom by N pixels  =>  the potential is translated by N pixels" is decided on terms:
an expression E of a projection kernel is fully inlined (single reaching definitions), the coordinate source is
replaced by its translated value

    pixel coordinates   P[.., k] -> P[.., k] + N_k                 P -> P + N
    Å coordinates       P[.., k] -> P[.., k] + N_k * sampling[k]   P[.., :2] -> P[.., :2] + N * sampling

and both E and its translate E' are brought to the commutative-ring normal form of sa/terms.py, extended by

    floor / round / rint / ceil / int    f(q + r) = f(q) + r  for the part r that is an integer combination of the N_k
    subscripts                           distributed over sums and products (element-wise arithmetic); N[.., k] = N_k
    reshaping subscripts ([None], [:, None]) dropped

A pixel index is *equivariant* iff E' == E + N_k, a deposited value is *invariant* iff E' == E.  Nothing is executed.
"""
from __future__ import annotations

import ast
import copy
from fractions import Fraction
from typing import Optional

from ..cfg import DataFlow
from ..model import AnalysisError, FuncInfo, call_name, dotted, last_attr, norm_text
from ..terms import Normalizer, Poly, is_array_module

NV = "𝐍"
FLOORS = {"floor", "round", "rint", "around", "ceil", "round_"}
META_ATTRS = {"shape", "size", "ndim", "dtype"}
CASTS = {"array", "asarray", "asanyarray", "ascontiguousarray", "astype", "copy"}
AXIS_VECTORS = {"sampling", "gpts", "shape", "extent"}


def n_atom(k: int) -> Poly:
    return Poly.atom(f"{NV}{k}")


# ------------------------------------------------------------------------------------------------ inlining
def inline(df: DataFlow, at: int, e: ast.AST, depth: int = 0) -> ast.AST:
    """Copy of `e` with every name that has one strong plain definition replaced by that definition."""
    if depth > 40:
        raise AnalysisError("definition chain too deep to inline")

    class T(ast.NodeTransformer):
        def visit_Name(self, n: ast.Name):
            if not isinstance(n.ctx, ast.Load):
                return n
            d = df.single_def(at, n.id)
            if d is None or d.kind != "assign" or d.value is None:
                return n
            if isinstance(d.value, ast.Call) and (call_name(d.value) or "").endswith("get_array_module"):
                return ast.Name(id="xp", ctx=ast.Load())  # canonical spelling of the array-module local
            st = df.cfg.nodes[d.node].ast
            if isinstance(st, ast.Assign):
                t0 = st.targets[0]
                if isinstance(t0, (ast.Tuple, ast.List)) and not isinstance(st.value, (ast.Tuple, ast.List)):
                    return n  # unpacking of a non-literal: opaque
            elif not isinstance(st, ast.AnnAssign):
                return n
            return inline(df, d.node, d.value, depth + 1)

        def visit_Lambda(self, n):
            return n

    return T().visit(copy.deepcopy(e))


# ------------------------------------------------------------------------------------------------ translation
class Translate:
    def __init__(self, roots_names: set[str], roots_attrs: set[str], unit: Optional[str]):
        """roots_names: parameter names holding the coordinates; roots_attrs: dotted attributes (atoms.positions);
        unit: name of the per-axis sampling vector for Å coordinates, None for pixel coordinates."""
        self.names, self.attrs, self.unit = roots_names, roots_attrs, unit
        self.hits = 0

    def is_root(self, e: ast.AST) -> bool:
        if isinstance(e, ast.Name):
            return e.id in self.names
        if isinstance(e, ast.Attribute):
            return dotted(e) in self.attrs
        return False

    def rooted(self, e: ast.AST) -> bool:
        if self.is_root(e):
            return True
        if isinstance(e, ast.Subscript) and not isinstance(e.slice, ast.Tuple):
            return self.rooted(e.value)  # row selection: mask, index, slice of the atom axis
        if isinstance(e, ast.Call) and last_attr(e) in CASTS:
            if isinstance(e.func, ast.Attribute) and isinstance(e.func.value, ast.Name) and \
                    is_array_module(e.func.value.id) and e.args:
                return self.rooted(e.args[0])
            if isinstance(e.func, ast.Attribute):
                return self.rooted(e.func.value)
        return False

    def _term(self, k: Optional[int]) -> ast.AST:
        """N_k * unit_k  (k None: the whole per-axis vector)"""
        n = ast.Name(id=NV if k is None else f"{NV}{k}", ctx=ast.Load())
        if self.unit is None:
            return n
        u: ast.AST = ast.Name(id=self.unit, ctx=ast.Load())
        if k is not None:
            u = ast.Subscript(value=u, slice=ast.Constant(value=k), ctx=ast.Load())
        return ast.BinOp(left=n, op=ast.Mult(), right=u)

    def apply(self, e: ast.AST) -> ast.AST:
        outer = self

        class T(ast.NodeTransformer):
            def visit_Subscript(self, n: ast.Subscript):
                if isinstance(n.slice, ast.Tuple) and len(n.slice.elts) >= 2 and outer.rooted(n.value):
                    last = n.slice.elts[-1]
                    if isinstance(last, ast.Constant) and isinstance(last.value, int):
                        if last.value in (0, 1):
                            outer.hits += 1
                            return ast.BinOp(left=n, op=ast.Add(), right=outer._term(last.value))
                        return n  # the z column is not translated
                    if isinstance(last, ast.Slice) and last.lower is None and last.step is None and \
                            isinstance(last.upper, ast.Constant) and last.upper.value == 2:
                        outer.hits += 1
                        return ast.BinOp(left=n, op=ast.Add(), right=outer._term(None))
                    raise AnalysisError(f"coordinate columns selected by `{norm_text(n)[:50]}` are not modelled")
                return self.generic_visit(n)

            def visit_Attribute(self, n: ast.Attribute):
                if n.attr in META_ATTRS and outer.rooted(n.value):
                    return n
                if outer.rooted(n):
                    return self._bare(n)
                return self.generic_visit(n)

            def visit_Name(self, n: ast.Name):
                if outer.rooted(n):
                    return self._bare(n)
                return n

            def visit_Call(self, n: ast.Call):
                if call_name(n) == "len" and n.args and outer.rooted(n.args[0]):
                    return n
                if outer.rooted(n):
                    return self._bare(n)
                return self.generic_visit(n)

            def _bare(self, n: ast.AST):
                if outer.unit is not None:
                    raise AnalysisError(f"whole-array use `{norm_text(n)[:40]}` of Å coordinates is not modelled")
                outer.hits += 1
                return ast.BinOp(left=n, op=ast.Add(), right=outer._term(None))

        return T().visit(copy.deepcopy(e))


# ------------------------------------------------------------------------------------------------ normal form
def _is_n(a: str) -> bool:
    return a.startswith(NV)


def _integral(p: Poly) -> bool:
    for mono, c in p.terms.items():
        if c.denominator != 1:
            return False
        for a, e in mono:
            if not (a.startswith("⌊") or _is_n(a)) or e.denominator != 1 or e < 0:
                return False
    return True


def _reshaping(s: ast.AST) -> bool:
    parts = s.elts if isinstance(s, ast.Tuple) else [s]
    return all((isinstance(p, ast.Constant) and (p.value is None or p.value is Ellipsis))
               or (isinstance(p, ast.Slice) and p.lower is None and p.upper is None and p.step is None)
               or dotted(p) in ("np.newaxis", "xp.newaxis") for p in parts)


class EqNorm(Normalizer):
    def __init__(self):
        super().__init__(identity_calls={"int"})

    def norm(self, n: ast.AST) -> Poly:
        if isinstance(n, ast.Subscript):
            return self._subscript(n)
        if isinstance(n, ast.BinOp) and isinstance(n.op, ast.Mod):
            return Poly.atom(f"mod({self.norm(n.left).key()},{self.norm(n.right).key()})")
        return super().norm(n)

    def _subscript(self, n: ast.Subscript) -> Poly:
        p = self.norm(n.value)
        if _reshaping(n.slice):
            return p
        parts = n.slice.elts if isinstance(n.slice, ast.Tuple) else [n.slice]
        last = parts[-1]
        k = last.value if isinstance(last, ast.Constant) and isinstance(last.value, int) and \
            not isinstance(last.value, bool) else None
        block = isinstance(last, ast.Slice) and last.lower is None and last.step is None and \
            isinstance(last.upper, ast.Constant) and last.upper.value == 2 and len(parts) >= 2
        sk = self._slice_key(n.slice)
        out = Poly()
        for mono, c in p.terms.items():
            t = Poly.const(c)
            for a, e in mono:
                if a == NV and k is not None:
                    b = f"{NV}{k}"
                elif a == NV and block:
                    b = NV
                elif a in AXIS_VECTORS and k is not None:
                    b = f"{a}[{k}]"
                elif a in AXIS_VECTORS and block:
                    b = a
                else:
                    b = f"{a}[{sk}]"
                t = t * Poly.atom(b).power(e)
            out = out + t
        return out

    def _call(self, n: ast.Call) -> Poly:
        short = last_attr(n) or call_name(n)
        if short in FLOORS and len(n.args) == 1 and not n.keywords:
            is_module = isinstance(n.func, ast.Name) or (isinstance(n.func, ast.Attribute) and
                                                         isinstance(n.func.value, ast.Name))
            if is_module:
                p = self.norm(n.args[0])
                r = Poly({m: c for m, c in p.terms.items()
                          if len(m) == 1 and _is_n(m[0][0]) and m[0][1] == 1 and c.denominator == 1})
                q = p - r
                if _integral(q):
                    return p
                return Poly.atom(f"⌊{q.key()}⌋") + r
        return super()._call(n)


def translated_pair(df: DataFlow, at: int, e: ast.AST, tr: Translate) -> tuple[Poly, Poly, int]:
    """(normal form of e, normal form of e after the translation, number of coordinate reads translated)."""
    flat = inline(df, at, e)
    before = tr.hits
    moved = tr.apply(flat)
    return EqNorm().norm(flat), EqNorm().norm(moved), tr.hits - before


def show(p: Poly) -> str:
    k = p.key()
    return k if len(k) <= 90 else k[:87] + "..."
