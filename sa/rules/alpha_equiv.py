"""R-MIRROR — alpha-equivalence of guarded effects under a renaming.

A function (or a pair of arms) is described by its multiset of *guarded effects*

    (path condition, target, slice, value)

one per store `x[...] = v` / assignment `x = v`, where the path condition is the conjunction of the
branch decisions leading to the statement.  Conditions are kept in a small normal form so that
equivalent spellings coincide:

    a == b, a != b        ->  EQ0 / NE0 of the sign-normalised polynomial a - b
    a > b, b < a, ...     ->  SGN(a - b)      (strictness is dropped: the tie is decided separately)
    x % 2 == 0 / == 1 / != ..  ->  PAR(x, parity)
    not c, else-arms      ->  the negated literal (EQ0<->NE0, SGN(d)->SGN(-d), PAR(x,p)->PAR(x,1-p))
    anything else         ->  OPAQUE(text, polarity)

`mirror_check(func, renaming)` decides whether the effect multiset is invariant under the renaming.
Independent statements may be reordered and if/else arms swapped without changing the multiset.
"""
from __future__ import annotations

import ast
import copy
from collections import Counter
from fractions import Fraction
from typing import Optional

from ..model import AnalysisError, norm_text, strip_docstring
from ..terms import Normalizer, Poly


class _Rename(ast.NodeTransformer):
    def __init__(self, mapping: dict[str, str]):
        self.mapping = mapping

    def visit_Name(self, node: ast.Name):
        if node.id in self.mapping:
            return ast.copy_location(ast.Name(id=self.mapping[node.id], ctx=node.ctx), node)
        return node


def rename(node: ast.AST, mapping: dict[str, str]) -> ast.AST:
    return ast.fix_missing_locations(_Rename(mapping).visit(copy.deepcopy(node)))


def _sign_norm(p: Poly) -> tuple[Poly, bool]:
    """-> (p or -p with positive leading coefficient, flipped?)"""
    if p.is_zero():
        return p, False
    lead = sorted(p.terms, key=lambda m: [(a, float(e)) for a, e in m])[0]
    if p.terms[lead] < 0:
        return -p, True
    return p, False


def literal(test: ast.expr, pol: bool, nz: Normalizer) -> tuple:
    """Canonical literal for `test` taken with polarity `pol`."""
    if isinstance(test, ast.UnaryOp) and isinstance(test.op, ast.Not):
        return literal(test.operand, not pol, nz)
    if isinstance(test, ast.Compare) and len(test.ops) == 1:
        op = test.ops[0]
        a, b = test.left, test.comparators[0]
        # parity
        for x, y in ((a, b), (b, a)):
            if isinstance(x, ast.BinOp) and isinstance(x.op, ast.Mod) and isinstance(x.right, ast.Constant) \
                    and x.right.value == 2 and isinstance(y, ast.Constant) and y.value in (0, 1) \
                    and isinstance(op, (ast.Eq, ast.NotEq)):
                par = int(y.value)
                if isinstance(op, ast.NotEq):
                    par = 1 - par
                if not pol:
                    par = 1 - par
                return ("PAR", nz.norm(x.left).key(), par)
        d = nz.norm(a) - nz.norm(b)
        if isinstance(op, (ast.Eq, ast.NotEq)):
            eq = isinstance(op, ast.Eq) == pol
            dn, _ = _sign_norm(d)
            return ("EQ0" if eq else "NE0", dn.key())
        if isinstance(op, (ast.Gt, ast.GtE)):
            return ("SGN", (d if pol else -d).key())
        if isinstance(op, (ast.Lt, ast.LtE)):
            return ("SGN", (-d if pol else d).key())
    return ("OPAQUE", norm_text(test), pol)


def effects(body: list[ast.stmt], nz: Optional[Normalizer] = None, cond: tuple = ()) -> list[tuple]:
    nz = nz or Normalizer()
    out: list[tuple] = []
    for st in strip_docstring(list(body)):
        if isinstance(st, ast.If):
            out += effects(st.body, nz, cond + (literal(st.test, True, nz),))
            out += effects(st.orelse, nz, cond + (literal(st.test, False, nz),))
        elif isinstance(st, ast.Assign):
            for t in st.targets:
                if isinstance(t, ast.Subscript) and isinstance(t.value, ast.Name):
                    out.append((frozenset(cond), t.value.id, nz._slice_key(t.slice), nz.norm(st.value).key()))
                elif isinstance(t, ast.Name):
                    out.append((frozenset(cond), t.id, "", nz.norm(st.value).key()))
                else:
                    raise AnalysisError(f"mirror: unsupported assignment target `{norm_text(t)}`")
        elif isinstance(st, (ast.Pass, ast.Return)):
            continue
        elif isinstance(st, ast.Expr) and isinstance(st.value, ast.Constant):
            continue
        else:
            raise AnalysisError(f"mirror: unsupported statement `{norm_text(st)[:60]}`")
    return out


def _fmt(e: tuple) -> str:
    cond, tgt, sl, val = e
    c = " and ".join(sorted(_lit_text(l) for l in cond)) or "always"
    val = val[2:] if val.startswith("1*") else val
    return f"{tgt}[{sl}] = {val} when {c}" if sl else f"{tgt} = {val} when {c}"


def _lit_text(l: tuple) -> str:
    if l[0] == "PAR":
        return f"{l[1][2:] if l[1].startswith('1*') else l[1]} {'odd' if l[2] else 'even'}"
    if l[0] == "SGN":
        return f"({l[1]}) > 0"
    if l[0] in ("EQ0", "NE0"):
        return f"({l[1]}) {'==' if l[0] == 'EQ0' else '!='} 0"
    return f"{'' if l[2] else 'not '}{l[1]}"


def mirror_check(func: ast.FunctionDef, mapping: dict[str, str]):
    """-> (ok, n_effects, message).  Raises AnalysisError when the difference involves opaque conditions."""
    body = func.body
    e_plain = Counter(effects(body))
    e_ren = Counter(effects([rename(s, mapping) for s in strip_docstring(list(body))]))
    n = sum(e_plain.values())
    if e_plain == e_ren:
        return True, n, ""
    only_plain = list((e_plain - e_ren).elements())
    only_ren = list((e_ren - e_plain).elements())
    opaque = any(l[0] == "OPAQUE" for e in only_plain + only_ren for l in e[0])
    stores_plain = Counter((t, s, v) for _, t, s, v in only_plain)
    stores_ren = Counter((t, s, v) for _, t, s, v in only_ren)
    if opaque and stores_plain == stores_ren:
        raise AnalysisError("mirror: the arms differ only in conditions outside the literal normal form")
    msg = ("; ".join(_fmt(e) for e in only_plain[:2]) + "  has no mirror image; the mirror of the other arm is  "
           + "; ".join(_fmt(e) for e in only_ren[:2]))
    return False, n, msg
