"""Blocks of a seeded ensemble are rebuilt from the block's own seeds, unchanged.

`_partition_args` cuts the seed sequence into blocks (R-SAMESLICE decides the cut); the counterpart
`_from_partitioned_args_func` receives one block and calls the constructor.  The constructors hand (seed, count) to
`validate_seeds`, which passes a *sequence* of seeds through but treats a scalar as a master seed and draws new seeds
from it.  The members of a block therefore equal the members they were cut from only if, on every path to the
constructor call,

  * the seed argument is the component of the block argument itself — reached through plain assignments, tuple
    unpacking and value-preserving sequence conversions (tuple/list/asarray ...) only: an element (`seed[0]`), a
    scalar conversion (`int(...)`), a sub-slice or anything computed is a different seed set;
  * the count argument is `len(<that same sequence>)` (or None exactly where the seeds are None).

This is decided on reaching definitions, not on the text of the call.
"""
from __future__ import annotations

import ast
from typing import Optional

from ..cfg import DataFlow
from ..model import AnalysisError, FuncInfo, call_name, dotted, last_attr, norm_text, walk_no_nested

SEQ_IDENTITY = {"tuple", "list", "asarray", "array", "asnumpy", "copy", "ascontiguousarray"}
UNPACKERS = {"unpack_blockwise_args"}


def _stmt_of(func: ast.AST, node: ast.AST) -> ast.stmt:
    for st in ast.walk(func):
        if isinstance(st, ast.stmt) and not isinstance(st, (ast.FunctionDef, ast.If, ast.For, ast.While, ast.With, ast.Try)):
            if any(n is node for n in ast.walk(st)):
                return st
    raise AnalysisError("statement of a call not found")


class _Origins:
    """origin of a value: ('block', path) — the block argument, path = tuple of constant subscripts / unpack positions
    applied to it; ('none',); ('other', text)"""

    def __init__(self, f: FuncInfo, df: DataFlow):
        self.f, self.df = f, df
        a = f.node.args
        self.block_params = {x.arg for x in a.posonlyargs + a.args if x.arg not in ("cls", "self")}
        if a.vararg:
            self.block_params.add(a.vararg.arg)

    def of(self, e: ast.AST, at: int, depth: int = 0) -> set:
        if depth > 20:
            raise AnalysisError(f"{self.f.qualname}: definitions of the constructor arguments are too deep")
        if isinstance(e, ast.Constant) and e.value is None:
            return {("none",)}
        if isinstance(e, ast.Name):
            out = set()
            rd = self.df.reaching(at, e.id)
            if not rd:
                return {("other", e.id)}
            for d in rd:
                if d.kind == "param":
                    out.add(("block", ()) if e.id in self.block_params else ("other", e.id))
                elif d.kind == "assign" and d.value is not None:
                    st = self.df.cfg.nodes[d.node].ast
                    pos = self._unpack_position(st, e.id)
                    for o in self.of(d.value, d.node, depth + 1):
                        if pos is not None and o[0] == "block":
                            out.add(("block", o[1] + (pos,)))
                        elif pos is not None and o[0] == "none":
                            out.add(("other", f"component of None"))
                        else:
                            out.add(o)
                else:
                    out.add(("other", f"{e.id} ({d.kind})"))
            return out
        if isinstance(e, ast.Subscript):
            idx = e.slice
            if isinstance(idx, ast.Constant) and isinstance(idx.value, int):
                return {("block", o[1] + (idx.value,)) if o[0] == "block" else ("other", norm_text(e)) for o in
                        self.of(e.value, at, depth + 1)}
            return {("other", norm_text(e))}
        if isinstance(e, ast.Call):
            name = last_attr(e) or (call_name(e) or "")
            if name in UNPACKERS and len(e.args) == 1:
                return self.of(e.args[0], at, depth + 1)
            if name in SEQ_IDENTITY:
                src = e.args[0] if e.args else (e.func.value if isinstance(e.func, ast.Attribute) else None)
                if src is not None and len(e.args) <= 1:
                    return self.of(src, at, depth + 1)
            if name == "item" and isinstance(e.func, ast.Attribute) and not e.args:
                return self.of(e.func.value, at, depth + 1)
            return {("other", norm_text(e))}
        if isinstance(e, ast.IfExp):
            return self.of(e.body, at, depth + 1) | self.of(e.orelse, at, depth + 1)
        return {("other", norm_text(e))}

    @staticmethod
    def _unpack_position(st: ast.AST, name: str) -> Optional[int]:
        if isinstance(st, ast.Assign):
            for t in st.targets:
                if isinstance(t, (ast.Tuple, ast.List)):
                    for i, el in enumerate(t.elts):
                        if isinstance(el, ast.Starred):
                            raise AnalysisError("starred unpacking of the block argument")
                        if isinstance(el, ast.Name) and el.id == name:
                            return i
        return None


def _under_none_arm(fpa: FuncInfo, df: DataFlow, org: "_Origins", node: int, path: tuple) -> bool:
    """is CFG node `node` inside the arm of an `if <seeds> is None` / `is not None` on which the seeds are None?"""
    target = df.cfg.nodes[node].ast
    for st in ast.walk(fpa.node):
        if not isinstance(st, ast.If):
            continue
        t = st.test
        if not (isinstance(t, ast.Compare) and len(t.ops) == 1 and isinstance(t.ops[0], (ast.Is, ast.IsNot))
                and isinstance(t.comparators[0], ast.Constant) and t.comparators[0].value is None):
            continue
        try:
            o = org.of(t.left, df.cfg.node_of(st).idx)
        except (AnalysisError, KeyError, LookupError):
            continue
        if o != {("block", path)}:
            continue
        arm = st.body if isinstance(t.ops[0], ast.Is) else st.orelse
        if any(n is target for a in arm for n in ast.walk(a)):
            return True
        # `count = None` before the test, overwritten on the arm where the seeds exist: the None survives only where
        # the seeds are None
        other = st.orelse if isinstance(t.ops[0], ast.Is) else st.body
        names = {tg.id for tg in getattr(target, "targets", []) if isinstance(tg, ast.Name)}
        overwritten = any(isinstance(a, ast.Assign) and any(isinstance(tg, ast.Name) and tg.id in names for tg in a.targets)
                          for a in other)
        if names and overwritten:
            for parent in ast.walk(fpa.node):
                for fld in ("body", "orelse", "finalbody"):
                    blk = getattr(parent, fld, None)
                    if isinstance(blk, list) and target in blk and st in blk and blk.index(target) < blk.index(st):
                        return True
    return False


def check(ctx, fpa: FuncInfo, ctor_names: tuple, seed_kw: str, count_kw: str, rule: str = "R-SEEDREBUILD") -> int:
    ctors = [c for c in walk_no_nested(fpa.node) if isinstance(c, ast.Call) and dotted(c.func) in ctor_names]
    ctx.require(len(ctors) == 1, f"{fpa.qualname}: constructor call not found")
    call = ctors[0]
    kws = {k.arg: k.value for k in call.keywords if k.arg}
    ctx.require(seed_kw in kws and count_kw in kws,
                f"{fpa.qualname}: the constructor call does not pass {seed_kw}= and {count_kw}= by keyword")
    df = DataFlow(fpa.node)
    at = df.cfg.node_of(_stmt_of(fpa.node, call)).idx
    org = _Origins(fpa, df)
    seeds = org.of(kws[seed_kw], at)
    blocks = {o for o in seeds if o[0] == "block"}
    others = sorted(o[1] for o in seeds if o[0] == "other")
    ok = bool(blocks) and not others and len({o[1] for o in blocks}) == 1
    ctx.check(ok, rule, f"{fpa.qualname}:rebuild", fpa.loc(call),
              f"{seed_kw}= is the seed component of the block argument on every path "
              f"({sorted(blocks)[0][1] if blocks else '-'}), unchanged",
              f"{seed_kw}= of the rebuilt block can be {', '.join('`' + t[:60] + '`' for t in others) or 'several different components'}"
              ": not the block's own seed sequence (a scalar is treated as a master seed and re-drawn; an element or a "
              "sub-slice is a different set of members)", key_detail="rebuild")
    n = 1
    if not ok:
        return n
    path = next(iter(blocks))[1]
    # the count: len(<the same sequence>) on every definition, None only where the seeds can be None
    vals = []
    cv = kws[count_kw]
    if isinstance(cv, ast.Name):
        for d in df.reaching(at, cv.id):
            if d.kind != "assign" or d.value is None:
                raise AnalysisError(f"{fpa.qualname}: {count_kw} is defined by a {d.kind}")
            vals.append((d.value, d.node))
    else:
        vals.append((cv, at))
    bad = []
    for v, node in vals:
        if isinstance(v, ast.Constant) and v.value is None:
            if ("none",) not in seeds and not _under_none_arm(fpa, df, org, node, path):
                bad.append("None where the seeds are not known to be None")
            continue
        if isinstance(v, ast.Call) and call_name(v) == "len" and len(v.args) == 1:
            o = org.of(v.args[0], node)
            if o - {("none",)} == {("block", path)}:
                continue
        bad.append(norm_text(v)[:60])
    ctx.check(not bad, rule, f"{fpa.qualname}:count", fpa.loc(call),
              f"{count_kw}= is len(<the block's seeds>) on every path",
              f"{count_kw}= of the rebuilt block can be `{'`, `'.join(bad)}`: not the number of seeds of the block",
              key_detail="count")
    return n + 1
