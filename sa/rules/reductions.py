"""Registered reductions for the term normaliser.

`SumNorm` is a FlowNormalizer in which
  (a) a name with several reaching definitions becomes a *versioned* atom `name@{def nodes}` (so that "the array
      after the if/else" is one identifiable value), and
  (b) `X.sum(axes, keepdims=..)` / `xp.sum(X, axis=.., keepdims=..)` becomes a registered atom whose operand term,
      axes and keepdims can be inspected (`.sums[atom]`).
"""
from __future__ import annotations

import ast
from typing import Optional

from ..model import AnalysisError, NotConstant, dotted, fold_constant, kw, last_attr
from ..terms import FlowNormalizer, Poly

ARRAY_MODULES = {"xp", "np", "cp", "numpy", "cupy", "da"}


def _fold(e: Optional[ast.expr]):
    if e is None:
        return None
    try:
        return fold_constant(e)
    except (NotConstant, Exception):
        return "?"


class SumNorm(FlowNormalizer):
    """FlowNormalizer with (a) names that have several reaching definitions turned into *versioned* atoms
    `name@{def nodes}` and (b) `.sum(axes, keepdims=..)` reductions turned into registered atoms."""

    def __init__(self, df, node_idx, **kw_):
        super().__init__(df, node_idx, **kw_)
        self.sums: dict[str, dict] = {}
        self.versions: dict[str, tuple[str, tuple[int, ...]]] = {}

    def _name(self, name: str) -> Poly:
        rd = self.df.reaching(self._at[-1], name)
        if len(rd) > 1:
            ver = tuple(sorted(d.node for d in rd))
            a = f"{name}@{','.join(map(str, ver))}"
            self.versions[a] = (name, ver)
            return Poly.atom(a)
        return super()._name(name)

    def _call(self, n: ast.Call) -> Poly:
        if last_attr(n) == "sum" and isinstance(n.func, ast.Attribute):
            recv = dotted(n.func.value)
            args = list(n.args)
            if recv in ARRAY_MODULES:
                if not args:
                    raise AnalysisError("sum() without operand")
                operand, args = args[0], args[1:]
            else:
                operand = n.func.value
            axis = kw(n, "axis") or (args[0] if args else None)
            keep = kw(n, "keepdims")
            ax = _fold(axis)
            if isinstance(ax, int):
                ax = (ax,)
            axk = tuple(sorted(ax)) if isinstance(ax, (tuple, list)) and all(isinstance(i, int) for i in ax) else ax
            kd = _fold(keep) if keep is not None else False
            op = self.norm(operand)
            a = f"Σ[{axk};{kd}]({op.key()})"
            self.sums[a] = {"operand": op, "axes": axk, "keepdims": kd, "node": n}
            return Poly.atom(a)
        return super()._call(n)


