"""Where can a value come from, if only value-preserving steps are allowed?

`origins(f, df, expr, at)` follows an expression back through reaching definitions of plain assignments, tuple-to-tuple
assignments, conditional expressions and value-preserving scalar conversions (int(), float() of the same quantity) and
returns the set of its sources:

    ("param", name)      a parameter of the function, untouched
    ("attr", dotted)     an attribute chain (self._x, algorithm.derivative_accuracy) read as it is
    ("const", value)     a literal
    ("computed", text)   anything else: arithmetic, min/max/clip, a lookup, a loop variable ...

A quantity that must reach a consumer *as requested* (an accuracy order, an interpolation factor, a seed) has no
"computed" and no "const" source on any path.
"""
from __future__ import annotations

import ast

from ..model import AnalysisError, call_name, dotted, norm_text

SCALAR_IDENTITY = {"int", "float"}


def origins(f, df, e: ast.AST, at: int, depth: int = 0) -> set:
    if depth > 20:
        raise AnalysisError(f"{f.qualname}: definition chain too deep")
    if isinstance(e, ast.Constant):
        return {("const", e.value)}
    if isinstance(e, ast.Name):
        rd = df.reaching(at, e.id)
        if not rd:
            return {("computed", f"global {e.id}")}
        out = set()
        for d in rd:
            if d.kind == "param":
                out.add(("param", e.id))
            elif d.kind == "assign" and d.value is not None:
                st = df.cfg.nodes[d.node].ast
                unpack = isinstance(st, ast.Assign) and any(
                    isinstance(t, (ast.Tuple, ast.List)) and not isinstance(st.value, (ast.Tuple, ast.List))
                    for t in st.targets)
                if unpack:
                    out.add(("computed", f"component of {norm_text(d.value)[:40]}"))
                else:
                    out |= origins(f, df, d.value, d.node, depth + 1)
            else:
                out.add(("computed", f"{e.id} ({d.kind})"))
        return out
    if isinstance(e, ast.Attribute):
        d = dotted(e)
        if d is not None:
            if d.startswith("self.") and d.count(".") == 1:
                rd = df.reaching(at, d)
                local = [x for x in rd if x.kind == "assign" and x.value is not None]
                if local and len(local) == len(rd):
                    out = set()
                    for x in local:
                        out |= origins(f, df, x.value, x.node, depth + 1)
                    return out
            return {("attr", d)}
        return {("computed", norm_text(e)[:50])}
    if isinstance(e, ast.IfExp):
        return origins(f, df, e.body, at, depth + 1) | origins(f, df, e.orelse, at, depth + 1)
    if isinstance(e, ast.Call) and call_name(e) in SCALAR_IDENTITY and len(e.args) == 1 and not e.keywords:
        return origins(f, df, e.args[0], at, depth + 1)
    return {("computed", norm_text(e)[:50])}


def describe(o: tuple) -> str:
    return {"param": "parameter `%s`", "attr": "`%s`", "const": "the constant %r", "computed": "the computed `%s`"}[o[0]] % (o[1],)
