"""Per-element delegation: a function that accepts one value or a collection of values for a parameter p and serves
the collection by calling ITSELF (or a sibling function of the same class / module) once per element.

    def f(self, p, a, b=1, c="x"):
        if <p is a collection>:
            return join([self.f(e, a=a, b=b, c=c) for e in p])      # the delegation
        ... the per-element arm: reads a, b, c ...

f(p=[e1, e2], a, b, c) must be join(f(e1, a, b, c), f(e2, a, b, c)).  The per-element call runs the body of f again
with the scalar element, i.e. it runs a path that never reaches the delegation.  Every parameter q (other than p) that
is read on such a path decides what the per-element result is, so the delegation has to hand it over unchanged: the
argument bound to q in the delegating call has the single origin ("param", q) (sa/rules/asgiven.origins: temporaries,
conditional expressions and int()/float() of the same quantity are followed).  Decided per parameter:

    forwarded          origin of the bound argument is the parameter itself (by keyword, by position, through a
                       readable **{...} / **dict(...) mapping or a readable *(...) tuple, with temporaries)
    dropped            q is not bound by the call: the element is computed with the default of q
    replaced           the bound argument is a literal, an attribute, another parameter, a computation that does not
                       depend on q
    undecidable        a computation that depends on q (min(q, ..), q or default ..); a `**mapping` / `*sequence` that
                       is not a literal built in this function; a reference to the function that is not a direct call
                       (functools.partial, map(self.f, p)); a dispatch the analyser cannot separate from the
                       per-element arm   -> AnalysisError

For a *sibling* callee g (per-element call of another function of the same class / module) the body that is run per
element is g: every parameter q of f that g also has under the same name and that g reads must reach g unchanged;
and when f also calls g once with p itself (the scalar arm), both calls bind every other parameter of g to the
same origins.
"""
from __future__ import annotations

import ast
from dataclasses import dataclass, field
from typing import Optional

from ..cfg import DataFlow
from ..model import AnalysisError, FuncInfo, call_name, dotted, names_in, norm_text
from .asgiven import describe, origins

COMPS = (ast.ListComp, ast.SetComp, ast.GeneratorExp, ast.DictComp)


@dataclass
class Site:
    """One call of the function itself / of a sibling, with the iteration contexts it is evaluated in."""
    call: ast.Call
    callee: FuncInfo
    skip_first: bool  # the callee's first parameter is the receiver (self.f(...), cls.f(...))
    stmt: ast.AST  # statement whose CFG node evaluates the call
    iters: list = field(default_factory=list)  # [(set of target names, iterated expression)], outermost first


@dataclass
class Verdict:
    param: str
    status: str  # forwarded | dropped | replaced | disagree | unread
    detail: str = ""


@dataclass
class Delegation:
    f: FuncInfo
    site: Site
    elem_params: list  # parameters of the callee that receive the element
    source_params: list  # parameters of f that are iterated
    verdicts: list  # [Verdict]
    kind: str  # self | sibling


# ---------------------------------------------------------------------------------------------- finding the call sites
def _receiver(f: FuncInfo) -> Optional[str]:
    if f.cls is None or "staticmethod" in f.decorators:
        return None
    pos = f.positional_params
    return pos[0] if pos else None


def _resolve_callee(repo, f: FuncInfo, func: ast.AST, rebound: set):
    """(callee FuncInfo, skip_first) for `self.g`, `cls.g`, `type(self).g`, `Class.g`, module-level `g`; else None."""
    recv = _receiver(f)
    if isinstance(func, ast.Attribute):
        v = func.value
        if f.cls is not None:
            if isinstance(v, ast.Name) and recv is not None and v.id == recv and recv not in rebound:
                g = f.cls.find_method(func.attr, "any") if func.attr != f.name else f
                if g is not None and not g.is_property:
                    return g, "staticmethod" not in g.decorators
                return None
            explicit = (isinstance(v, ast.Name) and v.id == f.cls.name) or (
                isinstance(v, ast.Call) and call_name(v) == "type" and len(v.args) == 1 and recv is not None
                and isinstance(v.args[0], ast.Name) and v.args[0].id == recv) or (
                recv is not None and dotted(v) == f"{recv}.__class__")
            if explicit:
                g = f.cls.find_method(func.attr, "any") if func.attr != f.name else f
                if g is not None and not g.is_property:
                    bound_cls = "classmethod" in g.decorators
                    return g, bound_cls
                return None
        return None
    if isinstance(func, ast.Name) and func.id not in rebound:
        if f.cls is None and func.id == f.name and f.module.functions.get(f.name) is f:
            return f, False
        g = repo.resolve_name(f.module, func.id)
        if isinstance(g, FuncInfo) and g.cls is None and g.module is f.module:
            return g, False
    return None


def _is_ref_to(f: FuncInfo, e: ast.AST) -> bool:
    recv = _receiver(f)
    if isinstance(e, ast.Attribute) and e.attr == f.name and f.cls is not None:
        v = e.value
        return (isinstance(v, ast.Name) and v.id in (recv, f.cls.name)) or (
            isinstance(v, ast.Call) and call_name(v) == "type") or (recv is not None and dotted(v) == f"{recv}.__class__")
    if isinstance(e, ast.Name) and f.cls is None and e.id == f.name and isinstance(e.ctx, ast.Load):
        return True
    return False


def _targets(t: ast.AST) -> set:
    return {m.id for m in ast.walk(t) if isinstance(m, ast.Name)}


def call_sites(repo, f: FuncInfo) -> list:
    """Every direct call in `f` (not in nested definitions) of f itself or of a function of the same class / module,
    with its iteration contexts.  A reference to f itself that is not the callee of a direct call, or a call of f
    inside a nested definition that is not a `map(lambda ...)` body, cannot be read -> AnalysisError."""
    rebound = {m.id for m in ast.walk(f.node) if isinstance(m, ast.Name) and isinstance(m.ctx, ast.Store)}
    rebound |= {a.arg for a in f.node.args.posonlyargs + f.node.args.args + f.node.args.kwonlyargs}
    recv = _receiver(f)
    rebound_names = set(rebound)
    if recv is not None:
        stores = {m.id for m in ast.walk(f.node) if isinstance(m, ast.Name) and isinstance(m.ctx, ast.Store)}
        rebound_names = (rebound - {recv}) | ({recv} & stores)
    sites: list = []

    def opaque(e: ast.AST, what: str) -> None:
        for m in ast.walk(e):
            if _is_ref_to(f, m):
                raise AnalysisError(f"{f.qualname}: refers to itself inside {what}; the per-element call cannot be read")

    def expr(e: ast.AST, stmt: ast.AST, iters: list) -> None:
        if isinstance(e, COMPS):
            cur = list(iters)
            for i, g in enumerate(e.generators):
                expr(g.iter, stmt, cur)
                cur = cur + [(_targets(g.target), g.iter)]
                for c in g.ifs:
                    expr(c, stmt, cur)
            if isinstance(e, ast.DictComp):
                expr(e.key, stmt, cur)
                expr(e.value, stmt, cur)
            else:
                expr(e.elt, stmt, cur)
            return
        if isinstance(e, ast.Lambda):
            opaque(e, "a lambda")
            return
        if isinstance(e, ast.Call):
            cn = call_name(e)
            if cn == "map" and len(e.args) >= 2 and isinstance(e.args[0], ast.Lambda) and not e.keywords:
                lam = e.args[0]
                names = {a.arg for a in lam.args.args}
                src = e.args[1] if len(e.args) == 2 else ast.Tuple(elts=list(e.args[1:]), ctx=ast.Load())
                for a in e.args[1:]:
                    expr(a, stmt, iters)
                expr(lam.body, stmt, iters + [(names, src)])
                return
            r = _resolve_callee(repo, f, e.func, rebound_names)
            if r is not None:
                sites.append(Site(e, r[0], r[1], stmt, list(iters)))
                for a in e.args:
                    expr(a, stmt, iters)
                for k in e.keywords:
                    expr(k.value, stmt, iters)
                if isinstance(e.func, ast.Attribute):
                    expr(e.func.value, stmt, iters)
                return
        if _is_ref_to(f, e):
            raise AnalysisError(f"{f.qualname}: refers to itself without calling it directly (passed on as a value); "
                                "the arguments of the per-element call cannot be read")
        for c in ast.iter_child_nodes(e):
            expr(c, stmt, iters)

    def block(stmts: list, loops: list) -> None:
        for st in stmts:
            if isinstance(st, (ast.FunctionDef, ast.AsyncFunctionDef, ast.ClassDef)):
                opaque(st, "a nested definition")
                continue
            if isinstance(st, ast.For):
                expr(st.iter, st, loops)
                inner = loops + [(_targets(st.target), st.iter)]
                block(st.body, inner)
                block(st.orelse, loops)
                continue
            if isinstance(st, ast.While):
                expr(st.test, st, loops)
                block(st.body, loops)
                block(st.orelse, loops)
                continue
            if isinstance(st, ast.If):
                expr(st.test, st, loops)
                block(st.body, loops)
                block(st.orelse, loops)
                continue
            if isinstance(st, ast.With):
                for it in st.items:
                    expr(it.context_expr, st, loops)
                block(st.body, loops)
                continue
            if isinstance(st, ast.Try):
                block(st.body, loops)
                for h in st.handlers:
                    block(h.body, loops)
                block(st.orelse, loops)
                block(st.finalbody, loops)
                continue
            for c in ast.iter_child_nodes(st):
                if isinstance(c, ast.expr):
                    expr(c, st, loops)

    block(f.body, [])
    return sites


# ------------------------------------------------------------------------------------------------- binding arguments
def _literal_mapping(df: DataFlow, e: ast.AST, at: int, what: str, depth: int = 0):
    """{key: (value expression, node it is evaluated at)} of a mapping built in this function, else AnalysisError."""
    if depth > 6:
        raise AnalysisError(f"{what}: mapping chain too deep")
    if isinstance(e, ast.Dict):
        out = {}
        for k, v in zip(e.keys, e.values):
            if k is None:
                out.update(_literal_mapping(df, v, at, what, depth + 1))
            elif isinstance(k, ast.Constant) and isinstance(k.value, str):
                out[k.value] = (v, at)
            else:
                raise AnalysisError(f"{what}: mapping with a computed key")
        return out
    if isinstance(e, ast.Call) and call_name(e) == "dict" and not e.args:
        out = {}
        for k in e.keywords:
            if k.arg is None:
                out.update(_literal_mapping(df, k.value, at, what, depth + 1))
            else:
                out[k.arg] = (k.value, at)
        return out
    if isinstance(e, ast.Name):
        rd = df.reaching(at, e.id)
        if len(rd) == 1 and rd[0].kind == "assign" and rd[0].strong and rd[0].value is not None:
            st = df.cfg.nodes[rd[0].node].ast
            if isinstance(st, (ast.Assign, ast.AnnAssign)) and not (
                    isinstance(st, ast.Assign) and any(isinstance(t, (ast.Tuple, ast.List)) for t in st.targets)):
                return _literal_mapping(df, rd[0].value, rd[0].node, what, depth + 1)
    raise AnalysisError(f"{what}: arguments forwarded through `**{norm_text(e)[:40]}`, a mapping that is not a literal "
                        "built (and left unchanged) in this function; what it forwards cannot be read")


def _literal_sequence(df: DataFlow, e: ast.AST, at: int, what: str, depth: int = 0):
    if depth > 6:
        raise AnalysisError(f"{what}: sequence chain too deep")
    if isinstance(e, (ast.Tuple, ast.List)):
        out = []
        for x in e.elts:
            if isinstance(x, ast.Starred):
                out += _literal_sequence(df, x.value, at, what, depth + 1)
            else:
                out.append((x, at))
        return out
    if isinstance(e, ast.Name):
        rd = df.reaching(at, e.id)
        if len(rd) == 1 and rd[0].kind == "assign" and rd[0].strong and rd[0].value is not None:
            st = df.cfg.nodes[rd[0].node].ast
            if isinstance(st, ast.Assign) and not any(isinstance(t, (ast.Tuple, ast.List)) for t in st.targets):
                return _literal_sequence(df, rd[0].value, rd[0].node, what, depth + 1)
    raise AnalysisError(f"{what}: arguments forwarded through `*{norm_text(e)[:40]}`, a sequence that is not a literal "
                        "built in this function; what it forwards cannot be read")


def bind(f: FuncInfo, df: DataFlow, site: Site, at: int) -> dict:
    """{callee parameter: (expression, node at which it is evaluated)}; `*`/`**` of the enclosing function's own
    variadic parameters bind the callee's variadic parameters (they cannot carry a named parameter of f)."""
    g = site.callee
    what = f"{f.qualname} -> {g.short}"
    params = g.positional_params[1:] if site.skip_first else g.positional_params
    own_var = f.node.args.vararg.arg if f.node.args.vararg else None
    own_kw = f.node.args.kwarg.arg if f.node.args.kwarg else None
    same = g is f
    out: dict = {}
    pos: list = []
    for a in site.call.args:
        if isinstance(a, ast.Starred):
            if same and isinstance(a.value, ast.Name) and a.value.id == own_var and \
                    all(d.kind == "param" for d in df.reaching(at, own_var)) and len(pos) >= len(params):
                out["*" + own_var] = (a.value, at)
                continue
            pos += _literal_sequence(df, a.value, at, what)
        else:
            pos.append((a, at))
    if len(pos) > len(params) and not g.has_vararg:
        raise AnalysisError(f"{what}: more positional arguments than parameters")
    for p, a in zip(params, pos):
        out[p] = a
    for k in site.call.keywords:
        if k.arg is not None:
            out[k.arg] = (k.value, at)
            continue
        if same and isinstance(k.value, ast.Name) and k.value.id == own_kw and \
                all(d.kind == "param" for d in df.reaching(at, own_kw)):
            out["**" + own_kw] = (k.value, at)
            continue
        for key, v in _literal_mapping(df, k.value, at, what).items():
            out[key] = v
    return out


# ---------------------------------------------------------------------------------------------------------- analysis
def _reach(cfg, starts, blocked=frozenset(), forward=True) -> set:
    seen, stack = set(), [s for s in starts]
    while stack:
        n = stack.pop()
        if n in seen or n in blocked:
            continue
        seen.add(n)
        stack += cfg.nodes[n].succ if forward else cfg.nodes[n].pred
    return seen


def _node_params(df: DataFlow, idx: int, skip: Optional[ast.AST] = None) -> set:
    """Parameters the values read at a CFG node derive from."""
    uses = df.node_uses.get(idx, set())
    if not uses:
        return set()
    probe = ast.Tuple(elts=[ast.Name(id=u, ctx=ast.Load()) for u in sorted(uses)], ctx=ast.Load())
    return set(df.backward_slice(idx, probe).params)


def _stmt_nodes(cfg, stmts: list) -> set:
    out = set()
    for st in stmts:
        for m in ast.walk(st):
            i = cfg.stmt_node.get(id(m))
            if i is not None:
                out.add(i)
    return out


def _parents(root: ast.AST) -> dict:
    par = {}
    for n in ast.walk(root):
        for c in ast.iter_child_nodes(n):
            par[id(c)] = n
    return par


def _classify(f: FuncInfo, df: DataFlow, q: str, bound: dict) -> Verdict:
    if q not in bound:
        d = f.defaults().get(q)
        return Verdict(q, "dropped", f"`{q}` is not passed on: every element is computed with "
                       + (f"the default {norm_text(d)[:40]}" if d is not None else "no value for it")
                       + " whatever the caller asked for")
    e, at = bound[q]
    o = origins(f, df, e, at)
    if o == {("param", q)}:
        return Verdict(q, "forwarded")
    other = sorted(x for x in o if x != ("param", q))
    if ("param", q) in o or any(x[0] == "computed" for x in other) and q in df.backward_slice(at, e).params:
        raise AnalysisError(f"{f.qualname}: `{q}` reaches the per-element call as `{norm_text(e)[:50]}`, a computation "
                            "on / a conditional replacement of the parameter; whether it preserves the value is not "
                            "decided")
    return Verdict(q, "replaced", f"`{q}` of the per-element call is {describe(other[0])}, not the parameter `{q}` the "
                   "caller passed")


def analyse(repo, f: FuncInfo) -> tuple:
    """(delegations, notes) of one function.  `notes` are texts about calls of f itself that are not per element."""
    sites = call_sites(repo, f)
    if not sites:
        return [], []
    df = DataFlow(f.node)
    cfg = df.cfg
    own = [p for p in f.params if p != _receiver(f)]
    variadic = [x.arg for x in (f.node.args.vararg, f.node.args.kwarg) if x is not None]
    par = None
    out, notes = [], []
    # ---- which sites are per-element delegations
    per_elem = []
    for s in sites:
        if not s.iters:
            if s.callee is f:
                notes.append(f"calls itself outside an iteration (`{norm_text(s.call)[:60]}`): not a per-element "
                             "delegation, not decided here")
            continue
        at = cfg.stmt_node.get(id(s.stmt))
        if at is None:
            raise AnalysisError(f"{f.qualname}: statement of the per-element call has no CFG node")
        b = bind(f, df, s, at)
        loopvars = set().union(*[t for t, _ in s.iters])
        elem = sorted(p for p, (e, _) in b.items() if names_in(e) & loopvars and not p.startswith("*"))
        srcs = set()
        for t, it in s.iters:
            srcs |= set(df.backward_slice(at, it).params) & set(own)
            srcs |= {n for n in names_in(it) if n in own and all(d.kind == "param" for d in df.reaching(at, n))}
        if not elem or not srcs:
            if s.callee is f:
                notes.append(f"calls itself in an iteration that does not run over one of its own parameters "
                             f"(`{norm_text(s.call)[:60]}`): not decided here")
            continue
        if s.callee is f and not (set(elem) & srcs):
            raise AnalysisError(f"{f.qualname}: the per-element call binds the element to {elem} but iterates over "
                                f"{sorted(srcs)}")
        per_elem.append((s, at, b, elem, sorted(srcs)))
    if not per_elem:
        return [], notes
    dnodes = {at for _, at, _, _, _ in per_elem}
    for s, at, b, elem, srcs in per_elem:
        if s.callee is f:
            # ---- the per-element arm: paths that avoid the collection arm of the dispatch
            if par is None:
                par = _parents(f.node)
            arm, cur = None, s.stmt
            while id(cur) in par:
                up = par[id(cur)]
                if isinstance(up, ast.If) and (cur in up.body or cur in up.orelse):
                    t = cfg.stmt_node.get(id(up))
                    if t is not None and (set(df.backward_slice(t, up.test).params) | names_in(up.test)) & set(srcs):
                        arm = up.body if cur in up.body else up.orelse
                        break
                cur = up
                if cur is f.node:
                    break
            if arm is None:
                raise AnalysisError(f"{f.qualname}: the per-element call is not in an arm of a test on the iterated "
                                    f"parameter {srcs}; the per-element arm cannot be separated from the collection arm")
            blocked = _stmt_nodes(cfg, arm)
            elem_path = _reach(cfg, [cfg.entry], blocked)
            after = _reach(cfg, list(dnodes)) - dnodes
            strong, weak = set(), set()
            for n in elem_path:
                ps = _node_params(df, n)
                (weak if n in after else strong).update(ps)
            verdicts = []
            for q in own + variadic:
                if q in elem and q in srcs:
                    continue
                key = q if q in own else ("*" + q if f.node.args.vararg is not None and q == f.node.args.vararg.arg
                                          else "**" + q)
                if q in strong:
                    verdicts.append(_classify(f, df, q, {q: b[key]} if key in b else {}))
                elif q in weak:
                    v = _classify(f, df, q, {q: b[key]} if key in b else {})
                    if v.status != "forwarded":
                        raise AnalysisError(f"{f.qualname}: `{q}` is read only after the per-element results are "
                                            "joined and is not passed to the per-element call; not decided")
                    verdicts.append(v)
                else:
                    verdicts.append(Verdict(q, "unread", "not read on a path that serves one element"))
            out.append(Delegation(f, s, elem, srcs, verdicts, "self"))
        else:
            g = s.callee
            gdf = DataFlow(g.node)
            gread = set()
            for n in _reach(gdf.cfg, [gdf.cfg.entry]):
                gread |= _node_params(gdf, n)
            gparams = set(g.params)
            verdicts = []
            for q in own:
                if q in srcs:
                    continue
                if q not in gparams:
                    continue
                if q not in gread:
                    verdicts.append(Verdict(q, "unread", f"not read by {g.short}"))
                    continue
                verdicts.append(_classify(f, df, q, b))
            # ---- agreement with the scalar call of the same callee
            for s2 in sites:
                if s2.callee is not g or s2.iters:
                    continue
                at2 = cfg.stmt_node.get(id(s2.stmt))
                if at2 is None:
                    continue
                b2 = bind(f, df, s2, at2)
                for r in sorted((set(b) | set(b2)) - set(elem)):
                    o1 = origins(f, df, *b[r]) if r in b else None
                    o2 = origins(f, df, *b2[r]) if r in b2 else None
                    mine = {x for x in (o1 or set()) | (o2 or set()) if x[0] == "param"}
                    if not mine or o1 == o2 or any(v.param == r and v.status != "forwarded" for v in verdicts):
                        continue
                    verdicts.append(Verdict(r, "disagree",
                                            f"`{r}` of {g.short} is " + (
                                                "left to its default" if o1 is None else
                                                " / ".join(describe(x) for x in sorted(o1))) +
                                            " in the per-element call but " + (
                                                "left to its default" if o2 is None else
                                                " / ".join(describe(x) for x in sorted(o2))) +
                                            " in the call that serves a single value"))
            if verdicts:
                out.append(Delegation(f, s, elem, srcs, verdicts, "sibling"))
    return out, notes
