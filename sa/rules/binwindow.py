"""Exact evaluation of a method that sums a window of bins out of the two trailing axes of `self.array`.

The method (PolarMeasurements.integrate) is *interpreted over an abstract domain*, never run: nothing of abTEM or numpy
is imported.  The interpreter walks the `ast` of the method for one concrete sample of the quantities the index
arithmetic depends on —

  * the numbers of bins (n_-2, n_-1) of the two base axes: small concrete integers,
  * the plain attributes of `self` (offsets, samplings, ...): distinct non-integral rationals, so that two different
    attributes never agree by accident (property getters are read through),
  * the limits: rationals put exactly on bin edges of the axes as the class publishes them,

in *exact* arithmetic (ints and Fractions; `int`, `floor`, `round`, `//`, `%`, `divmod` with Python semantics on the
exact value: this is the real-arithmetic reading of the index computation, what float rounding does to it is not
modelled here).  `self.array` is an abstract array whose leading (ensemble) axes are not represented and whose elements
are formal linear combinations of the cells (i, j) of the two base axes; slicing selects, `.sum(axis=...)` over
trailing axes adds the combinations, `+` of two arrays adds element-wise.  The value the method returns is therefore a
formal sum  sum_ij w_ij * cell(i, j)  that can be compared exactly with the window the limits ask for: every w_ij is 1
inside and 0 outside.  A piece selected twice shows as w = 2, a gap as w = 0, an index reduced modulo the number of bins
as a slice that ends at 0.

Everything the interpreter cannot read (loops with break, comprehensions, unknown calls whose result is used in the
index arithmetic, irrational constants, mutation of containers, ...) raises AnalysisError.
"""
from __future__ import annotations

import ast
import math
from fractions import Fraction
from typing import Optional

from ..model import AnalysisError, ClassInfo, FuncInfo, dotted, norm_text

# distinct, non-integral, positive sample values for the plain attributes of `self`
_GENERIC = [Fraction(a, b) for a, b in ((3, 7), (5, 11), (13, 17), (19, 23), (29, 31), (37, 41), (43, 47), (53, 59),
                                        (61, 67), (71, 73), (79, 83), (89, 97), (101, 103), (107, 109), (113, 127))]


class Sample(Fraction):
    """The sample value of a plain attribute.  Arithmetic on it gives ordinary Fractions; the value itself must not
    decide a branch (its truth value says nothing about the object)."""


class _Return(Exception):
    def __init__(self, value):
        self.value = value


class Raised(Exception):
    """The interpreted code raises an exception."""

    def __init__(self, name: str):
        super().__init__(name)
        self.name = name


class _Self:
    def __repr__(self):
        return "self"


SELF = _Self()


class Opaque:
    """A value the interpreter does not model (result of an unknown call, a module, ...).  It may be passed around and
    returned; using it in arithmetic, as an index or as a truth value is an AnalysisError."""

    def __init__(self, what: str, parts=()):
        self.what = what
        self.parts = tuple(parts)

    def __repr__(self):
        return f"<{self.what}>"


class Shape:
    """Shape of an array with unrepresented leading axes: only the trailing entries are known."""

    def __init__(self, trailing: tuple):
        self.trailing = tuple(trailing)


class BoundMethod:
    def __init__(self, func: FuncInfo):
        self.func = func


class Arr:
    """Abstract array over the trailing base axes: shape (0..2 entries), elems: index tuple -> {cell: weight}."""

    def __init__(self, shape: tuple, elems: dict):
        self.shape = tuple(shape)
        self.elems = elems

    @staticmethod
    def full(nr: int, na: int) -> "Arr":
        return Arr((nr, na), {(i, j): {(i, j): Fraction(1)} for i in range(nr) for j in range(na)})

    def weights(self) -> Optional[dict]:
        """cell -> weight of a fully reduced array (None if base axes are left)."""
        if self.shape != ():
            return None
        return {c: w for c, w in self.elems.get((), {}).items() if w != 0}


def _is_num(v) -> bool:
    return isinstance(v, (int, Fraction)) and not isinstance(v, bool) or isinstance(v, bool)


def _comb_add(a: dict, b: dict, sb=Fraction(1)) -> dict:
    out = dict(a)
    for c, w in b.items():
        out[c] = out.get(c, Fraction(0)) + sb * w
    return out


class Interp:
    def __init__(self, repo, cls: ClassInfo, nbins: tuple, attr_table: Optional[dict] = None, max_steps: int = 20000):
        self.repo = repo
        self.cls = cls
        self.nbins = tuple(nbins)
        self.attrs = attr_table if attr_table is not None else {}
        self.steps = 0
        self.max_steps = max_steps
        self.depth = 0
        self._fn: list[FuncInfo] = []

    # ------------------------------------------------------------------ helpers
    def _err(self, node, msg: str):
        f = self._fn[-1] if self._fn else None
        where = f"{f.qualname}: " if f is not None else ""
        txt = norm_text(node)[:60] if isinstance(node, ast.AST) else str(node)
        return AnalysisError(f"{where}exact evaluation: {msg} (`{txt}`)")

    def _tick(self, node):
        self.steps += 1
        if self.steps > self.max_steps:
            raise self._err(node, "evaluation budget exhausted")

    def generic(self, name: str) -> Fraction:
        if name not in self.attrs:
            if len(self.attrs) >= len(_GENERIC):
                raise AnalysisError(f"exact evaluation: more than {len(_GENERIC)} plain attributes of self are read")
            self.attrs[name] = Sample(_GENERIC[len(self.attrs)])
        return self.attrs[name]

    # ------------------------------------------------------------------ calls
    def call_function(self, f: FuncInfo, args: list, kwargs: dict, self_val=None):
        self.depth += 1
        if self.depth > 6:
            self.depth -= 1
            raise AnalysisError(f"{f.qualname}: exact evaluation: calls nested too deep")
        try:
            a = f.node.args
            if a.vararg is not None or a.kwarg is not None:
                raise AnalysisError(f"{f.qualname}: exact evaluation: *args/**kwargs")
            pos = [x.arg for x in a.posonlyargs + a.args]
            env: dict = {}
            decos = f.decorators
            if "classmethod" in decos:
                raise AnalysisError(f"{f.qualname}: exact evaluation: classmethod")
            if f.cls is not None and "staticmethod" not in decos:
                if self_val is None:
                    raise AnalysisError(f"{f.qualname}: exact evaluation: method called without a receiver")
                env[pos[0]] = self_val
                pos = pos[1:]
            if len(args) > len(pos):
                raise AnalysisError(f"{f.qualname}: exact evaluation: too many positional arguments")
            for p, v in zip(pos, args):
                env[p] = v
            names = set(pos) | {x.arg for x in a.kwonlyargs}
            for k, v in kwargs.items():
                if k not in names or k in env:
                    raise AnalysisError(f"{f.qualname}: exact evaluation: cannot bind argument `{k}`")
                env[k] = v
            self._fn.append(f)
            try:
                for p, d in f.defaults().items():
                    if p not in env:
                        env[p] = self.eval(d, {})
                for p in names:
                    if p not in env:
                        raise AnalysisError(f"{f.qualname}: exact evaluation: parameter `{p}` not bound")
                try:
                    self.block(f.node.body, env)
                except _Return as r:
                    return r.value
                return None
            finally:
                self._fn.pop()
        finally:
            self.depth -= 1

    # ------------------------------------------------------------------ statements
    def block(self, stmts, env):
        for st in stmts:
            self.stmt(st, env)

    def stmt(self, st, env):
        self._tick(st)
        if isinstance(st, ast.Expr):
            if not (isinstance(st.value, ast.Constant) and isinstance(st.value.value, str)):
                self.eval(st.value, env)
        elif isinstance(st, ast.Assign):
            v = self.eval(st.value, env)
            for t in st.targets:
                self.bind(t, v, env)
        elif isinstance(st, ast.AnnAssign):
            if st.value is not None:
                self.bind(st.target, self.eval(st.value, env), env)
        elif isinstance(st, ast.AugAssign):
            if not isinstance(st.target, ast.Name):
                raise self._err(st, "augmented assignment to a non-local")
            if st.target.id not in env:
                raise self._err(st, "augmented assignment to an unbound name")
            env[st.target.id] = self.binop(st.op, env[st.target.id], self.eval(st.value, env), st)
        elif isinstance(st, ast.If):
            self.block(st.body if self.truth(self.eval(st.test, env), st.test) else st.orelse, env)
        elif isinstance(st, ast.Raise):
            exc = st.exc
            if isinstance(exc, ast.Call):
                exc = exc.func
            raise Raised(dotted(exc) or "exception" if exc is not None else "exception")
        elif isinstance(st, ast.Assert):
            if not self.truth(self.eval(st.test, env), st.test):
                raise Raised("AssertionError")
        elif isinstance(st, ast.Return):
            raise _Return(self.eval(st.value, env) if st.value is not None else None)
        elif isinstance(st, ast.Pass):
            pass
        elif isinstance(st, ast.For):
            if st.orelse or any(isinstance(n, (ast.Break, ast.Continue)) for n in ast.walk(st)):
                raise self._err(st, "loop with break/continue/else")
            it = self.eval(st.iter, env)
            if isinstance(it, range):
                it = list(it)
            if not isinstance(it, (tuple, list)):
                raise self._err(st.iter, "loop over a value that is not a concrete sequence")
            for v in it:
                self.bind(st.target, v, env)
                self.block(st.body, env)
        else:
            raise self._err(st, f"statement {type(st).__name__} is not interpreted")

    def bind(self, target, value, env):
        if isinstance(target, ast.Name):
            env[target.id] = value
        elif isinstance(target, (ast.Tuple, ast.List)):
            if not isinstance(value, (tuple, list)) or len(value) != len(target.elts) or any(
                    isinstance(t, ast.Starred) for t in target.elts):
                raise self._err(target, "cannot unpack")
            for t, v in zip(target.elts, value):
                self.bind(t, v, env)
        else:
            raise self._err(target, "assignment to an attribute or an element")

    # ------------------------------------------------------------------ values
    def truth(self, v, node) -> bool:
        if isinstance(v, Sample):
            raise self._err(node, "an attribute of the object that is not modelled decides a branch")
        if v is None or isinstance(v, (bool, int, Fraction, tuple, list, str, range)):
            return bool(v)
        if isinstance(v, slice):
            return True
        raise self._err(node, f"truth value of {type(v).__name__} is not known")

    def num(self, v, node):
        if isinstance(v, bool):
            return int(v)
        if isinstance(v, (int, Fraction)):
            return v
        raise self._err(node, f"a number is needed, found {type(v).__name__}")

    def binop(self, op, a, b, node):
        if isinstance(a, Arr) or isinstance(b, Arr):
            return self.arr_binop(op, a, b, node)
        if isinstance(op, ast.Add) and isinstance(a, (tuple, list)) and type(a) is type(b):
            return a + b
        if isinstance(op, ast.Mult) and isinstance(a, (tuple, list)) and isinstance(b, int):
            return a * b
        a, b = self.num(a, node), self.num(b, node)
        floaty = isinstance(a, Fraction) or isinstance(b, Fraction)
        try:
            if isinstance(op, ast.Add):
                return a + b
            if isinstance(op, ast.Sub):
                return a - b
            if isinstance(op, ast.Mult):
                return a * b
            if isinstance(op, ast.Div):
                return Fraction(a) / Fraction(b)
            if isinstance(op, ast.FloorDiv):
                q = a // b
                return Fraction(q) if floaty else q
            if isinstance(op, ast.Mod):
                r = a % b
                return Fraction(r) if floaty else r
            if isinstance(op, ast.Pow):
                if isinstance(b, int) or (isinstance(b, Fraction) and b.denominator == 1):
                    r = Fraction(a) ** int(b)
                    return r if floaty or int(b) < 0 else int(r)
                raise self._err(node, "non-integer power")
        except ZeroDivisionError:
            raise Raised("ZeroDivisionError")
        raise self._err(node, f"operator {type(op).__name__} is not interpreted")

    def arr_binop(self, op, a, b, node):
        if isinstance(a, Arr) and isinstance(b, Arr):
            if a.shape != b.shape or not isinstance(op, (ast.Add, ast.Sub)):
                raise self._err(node, "arrays of different shape combined, or combined with an operator other than +/-")
            s = Fraction(1) if isinstance(op, ast.Add) else Fraction(-1)
            keys = set(a.elems) | set(b.elems)
            return Arr(a.shape, {k: _comb_add(a.elems.get(k, {}), b.elems.get(k, {}), s) for k in keys})
        arr, other, left = (a, b, True) if isinstance(a, Arr) else (b, a, False)
        x = self.num(other, node)
        if isinstance(op, (ast.Add, ast.Sub)) and x == 0 and (left or isinstance(op, ast.Add)):
            return arr
        if isinstance(op, ast.Mult) or (isinstance(op, ast.Div) and left):
            if isinstance(op, ast.Div):
                if x == 0:
                    raise Raised("ZeroDivisionError")
                x = 1 / Fraction(x)
            return Arr(arr.shape, {k: {c: w * x for c, w in e.items()} for k, e in arr.elems.items()})
        raise self._err(node, "arithmetic between the array and a number other than scaling / adding 0")

    # ------------------------------------------------------------------ expressions
    def eval(self, e, env):
        self._tick(e)
        if isinstance(e, ast.Constant):
            v = e.value
            if isinstance(v, float):
                return Fraction(str(v))
            if isinstance(v, complex):
                raise self._err(e, "complex constant")
            return v
        if isinstance(e, ast.Name):
            if e.id in env:
                return env[e.id]
            return Opaque(f"name {e.id}")
        if isinstance(e, (ast.Tuple, ast.List)):
            if any(isinstance(x, ast.Starred) for x in e.elts):
                raise self._err(e, "starred element")
            vals = [self.eval(x, env) for x in e.elts]
            return tuple(vals) if isinstance(e, ast.Tuple) else vals
        if isinstance(e, ast.Attribute):
            return self.attribute(self.eval(e.value, env), e.attr, e)
        if isinstance(e, ast.Subscript):
            return self.subscript(self.eval(e.value, env), e.slice, env, e)
        if isinstance(e, ast.Slice):
            parts = [None if p is None else self.eval(p, env) for p in (e.lower, e.upper, e.step)]
            return self.mkslice(parts, e)
        if isinstance(e, ast.BinOp):
            return self.binop(e.op, self.eval(e.left, env), self.eval(e.right, env), e)
        if isinstance(e, ast.UnaryOp):
            v = self.eval(e.operand, env)
            if isinstance(e.op, ast.Not):
                return not self.truth(v, e.operand)
            if isinstance(v, Arr):
                if isinstance(e.op, ast.UAdd):
                    return v
                if isinstance(e.op, ast.USub):
                    return self.arr_binop(ast.Mult(), v, -1, e)
            v = self.num(v, e)
            if isinstance(e.op, ast.USub):
                return -v
            if isinstance(e.op, ast.UAdd):
                return v
            raise self._err(e, "unary operator is not interpreted")
        if isinstance(e, ast.BoolOp):
            v = None
            for x in e.values:
                v = self.eval(x, env)
                t = self.truth(v, x)
                if isinstance(e.op, ast.And) and not t:
                    return v
                if isinstance(e.op, ast.Or) and t:
                    return v
            return v
        if isinstance(e, ast.Compare):
            left = self.eval(e.left, env)
            for op, c in zip(e.ops, e.comparators):
                right = self.eval(c, env)
                if not self.compare(op, left, right, e):
                    return False
                left = right
            return True
        if isinstance(e, ast.IfExp):
            return self.eval(e.body if self.truth(self.eval(e.test, env), e.test) else e.orelse, env)
        if isinstance(e, ast.Call):
            return self.call(e, env)
        if isinstance(e, ast.JoinedStr):
            return "<formatted string>"
        raise self._err(e, f"expression {type(e).__name__} is not interpreted")

    def compare(self, op, a, b, node) -> bool:
        if isinstance(op, (ast.Is, ast.IsNot)):
            if a is None or b is None:
                same = a is None and b is None
            elif isinstance(a, bool) and isinstance(b, bool):
                same = a == b
            else:
                raise self._err(node, "identity comparison between values other than None")
            return same if isinstance(op, ast.Is) else not same
        if isinstance(op, (ast.In, ast.NotIn)):
            if isinstance(b, (tuple, list, range)) and all(x is None or isinstance(x, (int, Fraction, str, bool)) for x in b) \
                    and (a is None or isinstance(a, (int, Fraction, str, bool))):
                return (a in b) if isinstance(op, ast.In) else (a not in b)
            raise self._err(node, "membership test is not interpreted")
        if isinstance(op, (ast.Eq, ast.NotEq)):
            simple = (type(None), bool, int, Fraction, str, tuple, list)
            if isinstance(a, simple) and isinstance(b, simple):
                return (a == b) if isinstance(op, ast.Eq) else (a != b)
            raise self._err(node, "equality between values that are not modelled")
        a, b = self.num(a, node), self.num(b, node)
        if isinstance(op, ast.Lt):
            return a < b
        if isinstance(op, ast.LtE):
            return a <= b
        if isinstance(op, ast.Gt):
            return a > b
        if isinstance(op, ast.GtE):
            return a >= b
        raise self._err(node, "comparison is not interpreted")

    def mkslice(self, parts, node) -> slice:
        out = []
        for p in parts:
            if isinstance(p, bool):
                p = int(p)
            if p is not None and not isinstance(p, int):
                if isinstance(p, Fraction):
                    # numpy refuses non-integer slice indices (TypeError)
                    raise Raised("TypeError: slice indices must be integers")
                raise self._err(node, f"slice bound of type {type(p).__name__}")
            out.append(p)
        return slice(*out)

    def attribute(self, base, attr: str, node):
        if base is SELF:
            if attr == "array":
                return Arr.full(*self.nbins)
            if attr == "shape":
                return Shape(self.nbins)
            f = self.cls.find_method(attr)
            if f is not None and f.is_property:
                steps = self.steps
                try:
                    return self.call_function(f, [], {}, SELF)
                except AnalysisError:
                    # a getter the interpreter cannot read: the attribute is an opaque quantity of the object
                    self.steps = steps
                    return self.generic(attr)
            if f is not None:
                return BoundMethod(f)
            return self.generic(attr)
        if isinstance(base, slice):
            if attr in ("start", "stop", "step"):
                return getattr(base, attr)
        if isinstance(base, Arr):
            if attr == "shape":
                return Shape(base.shape)
            if attr in ("sum", "mean"):
                return Opaque(f"arraymethod {attr}", (base,))
        if isinstance(base, Opaque):
            full = f"{base.what.split(' ', 1)[-1]}.{attr}"
            if attr in ("pi", "e", "inf", "nan") and base.what.startswith("name "):
                raise self._err(node, "irrational / non-finite constant in the index arithmetic")
            return Opaque(f"name {full}", base.parts)
        raise self._err(node, f"attribute `{attr}` of {type(base).__name__} is not modelled")

    def subscript(self, base, sl, env, node):
        if isinstance(base, Arr):
            idx = self.eval(sl, env) if not isinstance(sl, ast.Tuple) else tuple(self.eval(x, env) for x in sl.elts)
            return self.select(base, idx, node)
        idx = self.eval(sl, env)
        if isinstance(base, Shape):
            if isinstance(idx, int) and not isinstance(idx, bool):
                if -len(base.trailing) <= idx < 0:
                    return base.trailing[idx]
                raise self._err(node, "length of an ensemble axis (not represented)")
            return Opaque("shape part")
        if isinstance(base, (tuple, list)):
            if isinstance(idx, (int, slice)) and not isinstance(idx, bool):
                try:
                    return base[idx]
                except IndexError:
                    raise Raised("IndexError")
            raise self._err(node, "sequence index is not an integer")
        raise self._err(node, f"subscript of {type(base).__name__} is not modelled")

    def select(self, arr: Arr, idx, node) -> Arr:
        if not isinstance(idx, tuple):
            idx = (idx,)
        if not idx or idx[0] is not Ellipsis:
            raise self._err(node, "the array is indexed from the front (ensemble axes are not represented)")
        idx = idx[1:]
        if any(i is Ellipsis for i in idx) or len(idx) > len(arr.shape):
            raise self._err(node, "indexers do not fit the base axes")
        first = len(arr.shape) - len(idx)
        choices = [list(range(n)) for n in arr.shape[:first]]
        keep = [True] * first
        for n, i in zip(arr.shape[first:], idx):
            if isinstance(i, slice):
                choices.append(list(range(n))[i])
                keep.append(True)
            elif isinstance(i, int) and not isinstance(i, bool):
                if not -n <= i < n:
                    raise Raised("IndexError")
                choices.append([i % n])
                keep.append(False)
            else:
                raise self._err(node, f"indexer of type {type(i).__name__}")
        new_shape = tuple(len(c) for c, k in zip(choices, keep) if k)
        elems = {}

        def rec(d, src, dst):
            if d == len(choices):
                elems[tuple(dst)] = dict(arr.elems.get(tuple(src), {}))
                return
            for pos, s in enumerate(choices[d]):
                rec(d + 1, src + [s], dst + [pos] if keep[d] else dst)

        rec(0, [], [])
        return Arr(new_shape, elems)

    def reduce(self, arr: Arr, axis, mean: bool, node) -> Arr:
        if axis is None:
            raise self._err(node, "reduction over all axes (ensemble axes included)")
        axes = axis if isinstance(axis, (tuple, list)) else (axis,)
        nd = len(arr.shape)
        norm = set()
        for a in axes:
            if isinstance(a, bool) or not isinstance(a, int) or not -nd <= a < 0:
                raise self._err(node, "reduction axis is not a (negative) base axis")
            if a + nd in norm:
                raise Raised("ValueError: duplicate value in axis")
            norm.add(a + nd)
        new_shape = tuple(n for k, n in enumerate(arr.shape) if k not in norm)
        count = 1
        for k in norm:
            count *= arr.shape[k]
        if mean and count == 0:
            raise self._err(node, "mean over an empty selection")
        elems: dict = {}
        # every element of the result exists even when a reduced axis is empty
        def rec(d, dst):
            if d == len(new_shape):
                elems[tuple(dst)] = {}
                return
            for i in range(new_shape[d]):
                rec(d + 1, dst + [i])

        rec(0, [])
        scale = Fraction(1, count) if mean else Fraction(1)
        for k, e in arr.elems.items():
            dst = tuple(i for d, i in enumerate(k) if d not in norm)
            elems[dst] = _comb_add(elems.get(dst, {}), e, scale)
        return Arr(new_shape, elems)

    # ------------------------------------------------------------------ calls
    def call(self, e: ast.Call, env):
        if any(isinstance(a, ast.Starred) for a in e.args) or any(k.arg is None for k in e.keywords):
            raise self._err(e, "starred call arguments")
        fn = e.func
        name = dotted(fn) or ""
        last = name.split(".")[-1] if name else (fn.attr if isinstance(fn, ast.Attribute) else "")
        # --- methods of values
        if isinstance(fn, ast.Attribute):
            base = self.eval(fn.value, env)
            if isinstance(base, Arr) and fn.attr in ("sum", "mean"):
                return self._reduce_call(base, e, env, fn.attr == "mean", 0)
            if isinstance(base, Arr):
                raise self._err(e, f"array method `{fn.attr}` is not modelled")
            if base is SELF:
                target = self.attribute(SELF, fn.attr, e)
                if isinstance(target, BoundMethod):
                    args = [self.eval(a, env) for a in e.args]
                    kwargs = {k.arg: self.eval(k.value, env) for k in e.keywords}
                    return self.call_function(target.func, args, kwargs, SELF)
                raise self._err(e, "call of a data attribute of self")
            if not isinstance(base, Opaque):
                raise self._err(e, f"method `{fn.attr}` of {type(base).__name__} is not modelled")
            module = base.what.split(" ", 1)[-1]
        else:
            module = None
            if isinstance(fn, ast.Name) and fn.id in env:
                raise self._err(e, "call of a local value")
        args = [self.eval(a, env) for a in e.args]
        kwargs = {k.arg: self.eval(k.value, env) for k in e.keywords}
        r = self.builtin(last, module, args, kwargs, e)
        if r is not NotImplemented:
            return r
        # --- a function / class of the package
        if module is None or True:
            mod = (self._fn[-1].module if self._fn else self.cls.module)
            target = self.repo.resolve_name(mod, name) if name else None
            if isinstance(target, FuncInfo) and target.cls is None:
                steps = self.steps
                try:
                    return self.call_function(target, args, kwargs)
                except AnalysisError:
                    self.steps = steps
        return Opaque(f"call {name or last}", list(args) + list(kwargs.values()))

    def _reduce_call(self, arr, e, env, mean, skip):
        args = [self.eval(a, env) for a in e.args[skip:]]
        kwargs = {k.arg: self.eval(k.value, env) for k in e.keywords}
        if set(kwargs) - {"axis"} or len(args) > 1 or (args and "axis" in kwargs):
            raise self._err(e, "reduction with arguments other than axis")
        axis = args[0] if args else kwargs.get("axis")
        return self.reduce(arr, axis, mean, e)

    def builtin(self, last, module, args, kwargs, e):
        n = len(args)
        if args and isinstance(args[0], Arr):
            if last in ("sum", "mean") and module is not None:
                if set(kwargs) - {"axis"} or n > 2:
                    raise self._err(e, "reduction with arguments other than axis")
                axis = args[1] if n == 2 else kwargs.get("axis")
                return self.reduce(args[0], axis, last == "mean", e)
            if last == "sum" and module is None:
                raise self._err(e, "builtin sum over the array")
            return NotImplemented
        if kwargs and last not in ("slice",):
            return NotImplemented
        if module is None:
            if last == "int" and n == 1:
                v = self.num(args[0], e)
                return math.trunc(v)
            if last == "float" and n == 1:
                return Fraction(self.num(args[0], e))
            if last == "round" and n == 1:
                return round(Fraction(self.num(args[0], e)))
            if last == "abs" and n == 1:
                return abs(self.num(args[0], e))
            if last in ("min", "max") and n >= 1:
                vals = args if n > 1 else args[0]
                if not isinstance(vals, (tuple, list)) or not vals:
                    raise self._err(e, "min/max of a value that is not a concrete sequence")
                vals = [self.num(v, e) for v in vals]
                return min(vals) if last == "min" else max(vals)
            if last == "len" and n == 1:
                if isinstance(args[0], (tuple, list, range)):
                    return len(args[0])
                raise self._err(e, "len of a value that is not a concrete sequence")
            if last == "slice" and 1 <= n <= 3 and not kwargs:
                parts = [None, args[0], None] if n == 1 else list(args) + [None] * (3 - n)
                return self.mkslice(parts, e)
            if last in ("tuple", "list") and n == 1 and isinstance(args[0], (tuple, list, range)):
                return tuple(args[0]) if last == "tuple" else list(args[0])
            if last == "bool" and n == 1:
                return self.truth(args[0], e)
            if last == "range" and 1 <= n <= 3 and all(isinstance(a, int) for a in args):
                return range(*args)
            if last == "divmod" and n == 2:
                return (self.binop(ast.FloorDiv(), args[0], args[1], e), self.binop(ast.Mod(), args[0], args[1], e))
            if last == "sum" and n in (1, 2) and isinstance(args[0], (tuple, list)):
                acc = args[1] if n == 2 else 0
                for v in args[0]:
                    acc = self.binop(ast.Add(), acc, v, e)
                return acc
            return NotImplemented
        # functions of math / numpy-like modules on scalars
        if not all(_is_num(a) for a in args):
            return NotImplemented
        vals = [self.num(a, e) for a in args]
        is_math = module == "math"
        if last in ("floor", "ceil", "trunc", "fix") and n == 1:
            r = {"floor": math.floor, "ceil": math.ceil, "trunc": math.trunc, "fix": math.trunc}[last](vals[0])
            return r if is_math else Fraction(r)
        if last in ("rint", "round", "around", "round_") and n == 1:
            return Fraction(round(Fraction(vals[0])))
        if last in ("abs", "absolute", "fabs") and n == 1:
            return abs(vals[0])
        if last == "floor_divide" and n == 2:
            return self.binop(ast.FloorDiv(), vals[0], vals[1], e)
        if last in ("mod", "remainder") and n == 2:
            return self.binop(ast.Mod(), vals[0], vals[1], e)
        if last == "fmod" and n == 2:
            if vals[1] == 0:
                raise Raised("ZeroDivisionError")
            q = Fraction(vals[0]) / Fraction(vals[1])
            return Fraction(vals[0]) - math.trunc(q) * Fraction(vals[1])
        if last == "divmod" and n == 2:
            return (self.binop(ast.FloorDiv(), vals[0], vals[1], e), self.binop(ast.Mod(), vals[0], vals[1], e))
        if last in ("minimum", "maximum") and n == 2:
            return min(vals) if last == "minimum" else max(vals)
        if last == "isscalar" and n == 1:
            return True
        if last in ("float32", "float64", "float_", "double") and n == 1:
            return Fraction(vals[0])
        if last in ("int32", "int64", "int_", "intp") and n == 1:
            return math.trunc(vals[0])
        return NotImplemented


def arrays_in(v, depth: int = 0) -> list:
    """The abstract arrays contained in a returned value (directly, in containers, or handed to an unknown call)."""
    if depth > 6:
        return []
    if isinstance(v, Arr):
        return [v]
    if isinstance(v, Opaque):
        return [a for p in v.parts for a in arrays_in(p, depth + 1)]
    if isinstance(v, (tuple, list)):
        return [a for p in v for a in arrays_in(p, depth + 1)]
    return []
