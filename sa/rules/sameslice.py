"""R-SAMESLICE — partition loops slice every parallel sequence with the loop's own range.

In a partitioning function a loop of the form
    for ... (a, b) ... in <ranges>:          # chunk_ranges(chunks)[k] | zip(cumsum((0,)+c), cumsum(c))
or  for ... (a, n) ... in zip((0,) + cumchunks, chunks[k]):     # start / size form
cuts the ensemble into blocks.  Every slice `X[lo:hi]` in the loop body whose bounds mention the
range variables must be exactly `X[a:b]` (ranges form) or `X[a:a+n]` (start/size form): a block that
takes values[a:b] but weights[a:b+1], or seeds[a:] instead of seeds[a:b], reassembles to something
other than the original members.  When the function has a lazy and an eager arm, both must iterate the
same ranges.
"""
from __future__ import annotations

import ast
from typing import Optional

from ..model import FuncInfo, call_name, norm_text, walk_no_nested
from ..terms import Normalizer
from .twins import lazy_polarity


def _range_loop(loop: ast.For) -> Optional[tuple[str, str, str]]:
    """-> (a, b, form) for a partition loop, form in {'ranges', 'startsize'}."""
    tgt = loop.target
    it = loop.iter
    if isinstance(it, ast.Call) and call_name(it) == "enumerate" and it.args:
        it = it.args[0]
        if isinstance(tgt, ast.Tuple) and len(tgt.elts) == 2:
            tgt = tgt.elts[1]
    if not (isinstance(tgt, ast.Tuple) and len(tgt.elts) == 2 and all(isinstance(e, ast.Name) for e in tgt.elts)):
        return None
    a, b = tgt.elts[0].id, tgt.elts[1].id
    text = ast.unparse(it)
    if "chunk_ranges(" in text:
        return a, b, "ranges"
    if isinstance(it, ast.Call) and call_name(it) == "zip" and len(it.args) == 2:
        x, y = it.args
        xs, ys = ast.unparse(x), ast.unparse(y)
        if "(0,)" in xs and "cumsum" in xs and "cumsum" in ys:
            return a, b, "ranges"
        if "(0,)" in xs and ("cum" in xs) and "cum" not in ys:
            return a, b, "startsize"
    return None


def check(ctx, f: FuncInfo, rule: str = "R-SAMESLICE") -> int:
    """Every position-dependent slice X[lo:hi] in a partition loop of `f` is X[Σ : Σ + n] (sa/rules/partition.py:
    Σ = number of members in the preceding blocks, n = size of this block), whatever idiom the loop uses to walk
    over the chunk sizes (zip of prefix sums, start/size pairs, chunk_ranges, a running offset)."""
    from .partition import PREFIX, SIZE, find_loops
    from ..terms import Poly

    n = 0
    found = []
    S, N = Poly.atom(PREFIX), Poly.atom(SIZE)
    for pe in find_loops(f):
        slices = pe.position_slices()
        if not slices and pe.form == "sizes":
            continue  # an ordinary loop over some sequence that slices nothing by position
        found.append(pe)
        for s, node_idx, lo, hi in slices:
            ok = lo == S and hi == S + N and s.slice.step is None
            n += 1
            show = lambda p: p.key().replace("1*", "") if p is not None else ""
            ctx.check(ok, rule, f"{f.qualname}:{norm_text(s.value)}", f.loc(s),
                      f"block takes {norm_text(s)} = [Σ : Σ + n] (Σ members in the preceding blocks, n in this one)",
                      f"block takes {norm_text(s)}, i.e. [{show(lo)} : {show(hi)}] with Σ = members in the preceding "
                      "blocks, n = size of this block, k = block number; a block of a partition is [Σ : Σ + n]: members "
                      "are dropped, duplicated or misaligned with the other partitioned sequences when the blocks are "
                      "reassembled", key_detail=norm_text(s.value))
    # lazy / eager arms iterate the same ranges
    nz = Normalizer()
    for node in walk_no_nested(f.node):
        if isinstance(node, ast.If) and node.orelse and lazy_polarity(node.test) is not None:
            arms = []
            for arm in (node.body, node.orelse):
                its = []
                for st in arm:
                    for l in ast.walk(st):
                        if isinstance(l, ast.For) and _range_loop(l) is not None:
                            its.append(l)
                arms.append(its)
            if arms[0] and arms[1]:
                k0 = sorted(nz.norm(l.iter).key() for l in arms[0])
                k1 = sorted(nz.norm(l.iter).key() for l in arms[1])
                n += 1
                ctx.check(k0 == k1, rule, f"{f.qualname}:lazy-vs-eager ranges", f.loc(node),
                          f"both arms iterate {norm_text(arms[0][0].iter)}",
                          f"lazy arm iterates {'; '.join(norm_text(l.iter) for l in arms[0])} but eager arm iterates "
                          f"{'; '.join(norm_text(l.iter) for l in arms[1])}", key_detail="arms")
    if not found:
        ctx.require(False, f"{f.qualname}: no partition loop recognised")
    return n
