"""Piecewise reading of a radial low-pass mask (the antialiasing aperture).

A builder computes, from frequency arrays (results of spatial_frequencies / fftfreq), a frequency radius and a mask
that is a constant on the regions selected by comparisons of that radius with scalar *bounds*, and a cosine roll-off
in between.  Everything is normalised to terms (sa/terms.py): a comparison `L < R` becomes  a·F + b > 0  with F the
frequency part (product of the atoms that mention a frequency quantity), a and b free of frequencies, so the bound is
-b/a whatever the spelling (temporaries, commuted operands, `r - cutoff + taper > 0`).  Local names are followed
through reaching definitions only; they never appear in a verdict.
"""
from __future__ import annotations

import ast
import re
from dataclasses import dataclass
from fractions import Fraction
from typing import Optional

from ..cfg import DataFlow, uses_of
from ..model import AnalysisError, FuncInfo, dotted, last_attr, norm_text, walk_no_nested
from ..terms import PI, FlowNormalizer, Poly

FREQ_CALLS = {"spatial_frequencies", "fftfreq", "polar_spatial_frequencies", "rfftfreq"}
CONFIG_GET = ("config.get", "abtem.config.get", "abtem.core.config.get")


def mentions(atom: str, var: str) -> bool:
    return re.search(rf"(?<![A-Za-z0-9_.]){re.escape(var)}(?![A-Za-z0-9_])", atom) is not None


def config_keys_read(f: FuncInfo, prefix: str) -> list[str]:
    out = []
    for c in walk_no_nested(f.node):
        if isinstance(c, ast.Call) and (dotted(c.func) or "") in CONFIG_GET and c.args and isinstance(
                c.args[0], ast.Constant) and isinstance(c.args[0].value, str) and c.args[0].value.startswith(prefix):
            out.append(c.args[0].value)
    return out


@dataclass
class Fact:
    region: str  # "above" (radius > bound) or "below" (radius <= / < bound)
    bound: Poly
    value: object  # Fraction constant the mask takes in the region
    node: ast.AST
    how: str


@dataclass
class Rolloff:
    call: ast.Call
    a: Poly  # argument = a·F + b
    b: Poly
    value_ok: Optional[bool]  # mask value is 1 where cos = 1 and 0 where cos = -1 (None: not read)
    value_text: str


class Reader:
    def __init__(self, f: FuncInfo):
        self.f = f
        self.df = DataFlow(f.node)
        self.freq = self._freq_locals()
        self.parents: dict[int, ast.AST] = {}
        for n in walk_no_nested(f.node):
            for ch in ast.iter_child_nodes(n):
                self.parents[id(ch)] = n

    # ------------------------------------------------------------------ frequency quantities
    def _freq_locals(self) -> set[str]:
        freq: set[str] = set()
        changed = True
        while changed:
            changed = False
            for d in self.df.defs:
                if d.var in freq or d.value is None or d.kind == "param":
                    continue
                hit = any(isinstance(c, ast.Call) and last_attr(c) in FREQ_CALLS for c in ast.walk(d.value))
                if hit or (uses_of(d.value) & freq):
                    freq.add(d.var)
                    changed = True
        return freq

    def is_freq_atom(self, atom: str) -> bool:
        return any(mentions(atom, v) for v in self.freq) or any(c + "(" in atom for c in FREQ_CALLS)

    def stmt_node(self, target: ast.AST) -> int:
        cur = target
        while cur is not None:
            if isinstance(cur, ast.stmt):
                try:
                    return self.df.cfg.node_of(cur).idx
                except Exception:  # noqa: BLE001
                    pass
            cur = self.parents.get(id(cur))
        raise AnalysisError(f"{self.f.qualname}: expression `{norm_text(target)[:50]}` has no CFG node")

    def norm(self, expr: ast.AST, at: int, hook=None) -> Poly:
        return FlowNormalizer(self.df, at, call_hook=hook).norm(expr)

    def split(self, p: Poly, what: str):
        """p = a·F + b with F one frequency monomial -> (a, b, F key) ; (None, p, None) if p has no frequency part."""
        groups: dict[tuple, Poly] = {}
        for mono, c in p.terms.items():
            fpart = tuple((a, e) for a, e in mono if self.is_freq_atom(a))
            rest = tuple((a, e) for a, e in mono if not self.is_freq_atom(a))
            groups[fpart] = groups.get(fpart, Poly()) + Poly({rest: c})
        b = groups.pop((), Poly())
        if not groups:
            return None, b, None
        if len(groups) != 1:
            raise AnalysisError(f"{self.f.qualname}: {what} is not linear in one frequency radius "
                                f"({len(groups)} different frequency terms)")
        (fk, a), = groups.items()
        if not a.is_monomial():
            raise AnalysisError(f"{self.f.qualname}: {what}: the factor of the frequency radius is a sum ({a.key()[:60]})")
        return a, b, fk

    # ------------------------------------------------------------------ comparisons
    def comparisons(self):
        """-> list of (Compare node, region the comparison selects, bound, frequency key)."""
        out = []
        for c in walk_no_nested(self.f.node):
            if not isinstance(c, ast.Compare) or len(c.ops) != 1:
                continue
            op = c.ops[0]
            if not isinstance(op, (ast.Lt, ast.LtE, ast.Gt, ast.GtE)):
                continue
            at = self.stmt_node(c)
            lhs, rhs = self.norm(c.left, at), self.norm(c.comparators[0], at)
            d = rhs - lhs if isinstance(op, (ast.Lt, ast.LtE)) else lhs - rhs  # the comparison says d > 0
            a, b, fk = self.split(d, f"comparison `{norm_text(c)[:50]}`")
            if a is None:
                continue
            (_, coeff), = a.terms.items()
            bound = -(b * a.inverse())
            out.append((c, "above" if coeff > 0 else "below", bound, fk))
        return out

    def facts(self):
        facts: list[Fact] = []
        fkeys = set()
        for c, region, bound, fk in self.comparisons():
            fkeys.add(fk)
            other = "below" if region == "above" else "above"
            par = self.parents.get(id(c))
            # array(cmp) / asarray(cmp): the comparison itself is the mask
            while isinstance(par, ast.Call) and last_attr(par) in ("array", "asarray", "asanyarray") and par.args and \
                    par.args[0] is c:
                c, par = par, self.parents.get(id(par))
            if isinstance(par, ast.Subscript) and par.slice is c and isinstance(par.ctx, ast.Store):
                st = self.parents.get(id(par))
                if isinstance(st, ast.Assign) and len(st.targets) == 1:
                    v = self._const(st.value)
                    if v is None:
                        raise AnalysisError(f"{self.f.qualname}: `{norm_text(st)[:60]}` stores a non-constant into a "
                                            "frequency region of the mask")
                    facts.append(Fact(region, bound, v, st, "masked store"))
                    continue
            if isinstance(par, ast.Call) and last_attr(par) == "where" and len(par.args) == 3 and par.args[0] is c:
                v1, v2 = self._const(par.args[1]), self._const(par.args[2])
                if v1 is None and v2 is None:
                    raise AnalysisError(f"{self.f.qualname}: `{norm_text(par)[:60]}` selects between two computed values")
                if v1 is not None:
                    facts.append(Fact(region, bound, v1, par, "where"))
                if v2 is not None:
                    facts.append(Fact(other, bound, v2, par, "where"))
                continue
            if isinstance(par, (ast.Assign, ast.Return, ast.AnnAssign)) and getattr(par, "value", None) is c:
                facts.append(Fact(region, bound, Fraction(1), c, "boolean mask"))
                facts.append(Fact(other, bound, Fraction(0), c, "boolean mask"))
                continue
            raise AnalysisError(f"{self.f.qualname}: the frequency comparison `{norm_text(c)[:60]}` is used in a way the "
                                "piecewise reading of the mask does not model")
        if len(fkeys) > 1:
            raise AnalysisError(f"{self.f.qualname}: the mask compares {len(fkeys)} different frequency quantities")
        return facts, (next(iter(fkeys)) if fkeys else None)

    @staticmethod
    def _const(e: ast.AST):
        if isinstance(e, ast.UnaryOp) and isinstance(e.op, ast.USub):
            v = Reader._const(e.operand)
            return None if v is None else -v
        if isinstance(e, ast.Constant) and isinstance(e.value, (int, float, bool)):
            return Fraction(repr(float(e.value))) if isinstance(e.value, float) else Fraction(int(e.value))
        return None

    # ------------------------------------------------------------------ the roll-off
    def rolloffs(self, fkey) -> list[Rolloff]:
        out = []
        for c in walk_no_nested(self.f.node):
            if not (isinstance(c, ast.Call) and last_attr(c) in ("cos", "sin") and len(c.args) == 1 and not c.keywords):
                continue
            at = self.stmt_node(c)
            arg = self.norm(c.args[0], at)
            a, b, fk = self.split(arg, f"argument of `{norm_text(c)[:40]}`")
            if a is None:
                continue
            if last_attr(c) != "cos":
                raise AnalysisError(f"{self.f.qualname}: roll-off built from `{norm_text(c.func)}`, only the cosine form is read")
            if fkey is not None and fk != fkey:
                raise AnalysisError(f"{self.f.qualname}: the roll-off `{norm_text(c)[:50]}` is a function of another frequency "
                                    "quantity than the one the mask regions are cut with")
            ok, text = self._value_ok(c, at)
            out.append(Rolloff(c, a, b, ok, text))
        return out

    def _value_ok(self, call: ast.Call, at: int):
        """The mask value in the roll-off region as a term in the cosine, read at the last assignment the cosine flows
        into through single reaching definitions (ramp = cos(..); array = (1 + ramp) / 2)."""
        marker = "cos·"

        def hook(nz, c):
            return Poly.atom(marker) if c is call else None

        cands = []
        for st in walk_no_nested(self.f.node):
            if not isinstance(st, ast.Assign) or len(st.targets) != 1 or not isinstance(st.targets[0], ast.Name):
                continue
            try:
                v = self.norm(st.value, self.df.cfg.node_of(st).idx, hook=hook)
            except Exception:  # noqa: BLE001
                continue
            if marker in v.atoms():
                cands.append((st, v))
        final = [(st, v) for st, v in cands
                 if not any(o is not st and st.targets[0].id in uses_of(o.value) for o, _ in cands)]
        if not final:
            return None, ""
        ok, text = True, ""
        for st, v in final:
            hi, lo = v.subst({marker: Poly.const(1)}), v.subst({marker: Poly.const(-1)})
            text = v.key().replace(marker, "cos(..)")
            if not (hi == Poly.const(1) and lo == Poly.const(0)):
                ok = False
                name = st.targets[0].id
                # assembled with an update of the same name (x = 1 + cos(..); x = x / 2; x *= 0.5): not read
                for d in self.df.defs:
                    if d.var == name and d.kind in ("assign", "aug") and d.value is not st.value and d.value is not None \
                            and (d.kind == "aug" or name in uses_of(d.value)):
                        return None, ""
                break
        return ok, text


def undecidable(*polys: Poly) -> bool:
    """An inverse of a sum is an opaque atom: products with it do not cancel, so an inequality of normal forms that
    involves one proves nothing."""
    return any(a.startswith("(") and e < 0 for p in polys for mono in p.terms for a, e in mono)


def pi_poly() -> Poly:
    return Poly.atom(PI)
