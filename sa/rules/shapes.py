"""E7 — symbolic shape / cardinality domain for the numpy subset used by the anchored functions.

Abstract values
    Arr(shape)        array whose dimensions are Laurent polynomials (`sa.terms.Poly`) in size symbols
    Tup(items)        tuple / list of abstract values (python-level sequence of known length)
    IntV(poly)        python integer with a symbolic value (e.g. len(x), a grid dimension)
    Const(value)      literal python constant
    SCALAR            some scalar number
    NONE              the value None
    DictV(map)        mapping with documented keys -> abstract values (unknown keys -> UNKNOWN)
    UNKNOWN           anything

The domain never guesses: an operation whose result shape is not determined yields UNKNOWN; an operation
numpy would reject (reduction over a non-existent axis, non-broadcastable operands, too many indices,
in-place update changing the shape) raises DomainError.
"""
from __future__ import annotations

import ast
from dataclasses import dataclass
from fractions import Fraction
from typing import Any, Optional

from ..model import AnalysisError, dotted, last_attr
from ..terms import Poly
from .absint import DomainError, NotConst, const_eval, none_test, three_valued


def dim(x) -> Poly:
    if isinstance(x, Poly):
        return x
    if isinstance(x, int):
        return Poly.const(x)
    return Poly.atom(str(x))


def dim_text(p: Poly) -> str:
    k = p.key()
    parts = []
    for t in k.split(" + "):
        parts.append(t[2:] if t.startswith("1*") else t)
    return " + ".join(parts)


def shape_text(shape) -> str:
    return "(" + ", ".join(dim_text(d) for d in shape) + ("," if len(shape) == 1 else "") + ")"


@dataclass(frozen=True)
class Arr:
    shape: tuple
    kind: str = ""  # 'bool' when known

    @property
    def rank(self) -> int:
        return len(self.shape)

    def __repr__(self):
        return f"Arr{shape_text(self.shape)}" + (f":{self.kind}" if self.kind else "")


@dataclass(frozen=True)
class Tup:
    items: tuple
    is_list: bool = False


@dataclass(frozen=True)
class IntV:
    value: Poly


@dataclass(frozen=True)
class Const:
    value: Any


@dataclass(frozen=True)
class DictV:
    items: tuple  # ((key, value), ...)

    def get(self, k):
        for kk, v in self.items:
            if kk == k:
                return v
        return UNKNOWN


class _Tag:
    def __init__(self, n):
        self.n = n

    def __repr__(self):
        return self.n


SCALAR = _Tag("SCALAR")
NONE = _Tag("NONE")
UNKNOWN = _Tag("UNKNOWN")

ONE = Poly.const(1)

_ELEMENTWISE = {"cos", "sin", "tan", "exp", "log", "abs", "absolute", "sqrt", "round", "rint", "floor", "ceil", "conj",
                "conjugate", "angle", "asarray", "ascontiguousarray", "asnumpy", "real", "imag", "square", "sign",
                "negative", "isnan", "logical_not", "copy", "float32", "float64", "deg2rad", "rad2deg"}
_BINARY_BOOL = {"logical_or", "logical_and", "logical_xor", "equal", "not_equal", "less", "greater", "less_equal",
                "greater_equal", "isclose"}
_BINARY = _BINARY_BOOL | {"add", "subtract", "multiply", "divide", "maximum", "minimum", "mod", "remainder", "power",
                          "arctan2", "hypot", "bitwise_or", "bitwise_and"}
_REDUCTIONS = {"sum", "all", "any", "min", "max", "amin", "amax", "mean", "prod", "std", "var", "ptp", "nansum",
               "argmin", "argmax", "median"}
_BOOL_RED = {"all", "any"}
_SAME_METHODS = {"astype", "copy", "conj", "conjugate", "round", "clip", "squeeze_none", "get", "compute", "view"}
_NP = {"np", "xp", "numpy", "cp", "cupy"}


def is_scalarish(v) -> bool:
    return v is SCALAR or isinstance(v, (IntV, Const)) and not (isinstance(v, Const) and v.value is None)


def broadcast(a: tuple, b: tuple, node=None) -> tuple:
    out = []
    ra, rb = list(reversed(a)), list(reversed(b))
    for i in range(max(len(ra), len(rb))):
        x = ra[i] if i < len(ra) else ONE
        y = rb[i] if i < len(rb) else ONE
        if x == y:
            out.append(x)
        elif x == ONE:
            out.append(y)
        elif y == ONE:
            out.append(x)
        elif x.const_value() is not None and y.const_value() is not None:
            raise DomainError(f"operands could not be broadcast together with shapes {shape_text(a)} {shape_text(b)}", node)
        else:
            # two different symbolic sizes: numpy needs them equal at run time; not decidable here
            out.append(Poly.atom(f"({dim_text(x)}|{dim_text(y)})"))
    return tuple(reversed(out))


class ShapeDomain:
    def __init__(self):
        self._fresh = 0

    def fresh(self, hint: str = "m") -> Poly:
        self._fresh += 1
        return Poly.atom(f"{hint}{self._fresh}")

    # ------------------------------------------------------------------ tests
    def truth(self, test: ast.expr, env: dict) -> Optional[bool]:
        def leaf(t):
            nt = none_test(t)
            if nt is not None:
                v = self.eval(nt[0], env)
                if v is NONE:
                    return nt[1]
                if v is UNKNOWN:
                    return None
                return not nt[1]
            try:
                r = const_eval(t, {k: v.value for k, v in env.items() if isinstance(v, Const)})
            except NotConst:
                return None
            return r if isinstance(r, bool) else None

        return three_valued(test, leaf)

    # ------------------------------------------------------------------ assignment
    def assign(self, target: ast.expr, value, env: dict) -> None:
        if isinstance(target, ast.Name):
            env[target.id] = value
        elif isinstance(target, (ast.Tuple, ast.List)):
            n = len(target.elts)
            if isinstance(value, Tup):
                if len(value.items) != n:
                    raise DomainError(f"cannot unpack {len(value.items)} values into {n} targets", target)
                for t, v in zip(target.elts, value.items):
                    self.assign(t, v, env)
            elif isinstance(value, Arr) and value.rank >= 1:
                d0 = value.shape[0].const_value()
                if d0 is not None and d0 != n:
                    raise DomainError(f"cannot unpack first axis of length {d0} into {n} targets", target)
                sub = Arr(value.shape[1:], value.kind) if value.rank > 1 else SCALAR
                for t in target.elts:
                    self.assign(t, sub, env)
            else:
                for t in target.elts:
                    self.assign(t, UNKNOWN, env)
        # subscript / attribute stores do not rebind names

    def augassign(self, st: ast.AugAssign, env: dict) -> None:
        cur = self.eval(st.target, env)
        val = self.eval(st.value, env)
        if isinstance(cur, Arr):
            if isinstance(val, Arr):
                res = broadcast(cur.shape, val.shape, st)
                if len(res) != len(cur.shape) or any(y == ONE and x != ONE for x, y in zip(res, cur.shape)):
                    raise DomainError(f"in-place update of an array of shape {shape_text(cur.shape)} with an operand of "
                                      f"shape {shape_text(val.shape)}", st)
            return  # an in-place update keeps the shape
        if isinstance(st.target, ast.Name):
            env[st.target.id] = self._binop(cur, val, st)

    # ------------------------------------------------------------------ expressions
    def eval(self, n: Optional[ast.AST], env: dict):
        if n is None:
            return NONE
        if isinstance(n, ast.Constant):
            if n.value is None:
                return NONE
            return Const(n.value)
        if isinstance(n, ast.Name):
            return env.get(n.id, UNKNOWN)
        if isinstance(n, (ast.Tuple, ast.List)):
            items = []
            for e in n.elts:
                if isinstance(e, ast.Starred):
                    v = self.eval(e.value, env)
                    if isinstance(v, Tup):
                        items.extend(v.items)
                    else:
                        return UNKNOWN
                else:
                    items.append(self.eval(e, env))
            return Tup(tuple(items), isinstance(n, ast.List))
        if isinstance(n, ast.Attribute):
            v = self.eval(n.value, env)
            if isinstance(v, Arr):
                if n.attr == "T":
                    return Arr(tuple(reversed(v.shape)), v.kind)
                if n.attr == "shape":
                    return Tup(tuple(IntV(d) for d in v.shape))
                if n.attr in ("real", "imag"):
                    return Arr(v.shape)
                if n.attr == "ndim":
                    return Const(v.rank)
                if n.attr == "size":
                    p = ONE
                    for d in v.shape:
                        p = p * d
                    return IntV(p)
            return UNKNOWN
        if isinstance(n, ast.UnaryOp):
            v = self.eval(n.operand, env)
            if isinstance(n.op, ast.USub) and isinstance(v, Const) and isinstance(v.value, (int, float)):
                return Const(-v.value)
            if isinstance(n.op, ast.Not):
                return SCALAR
            if isinstance(v, Arr):
                return v
            if isinstance(v, IntV) and isinstance(n.op, ast.USub):
                return IntV(-v.value)
            return v if is_scalarish(v) else UNKNOWN
        if isinstance(n, ast.BinOp):
            return self._binop(self.eval(n.left, env), self.eval(n.right, env), n)
        if isinstance(n, ast.Compare):
            if none_test(n) is not None:
                return SCALAR
            v = self.eval(n.left, env)
            for c in n.comparators:
                v = self._binop(v, self.eval(c, env), n, boolean=True)
            return v
        if isinstance(n, ast.BoolOp):
            return SCALAR
        if isinstance(n, ast.Subscript):
            return self._subscript(self.eval(n.value, env), n.slice, env, n)
        if isinstance(n, ast.Call):
            return self._call(n, env)
        if isinstance(n, ast.IfExp):
            t = self.truth(n.test, env)
            if t is True:
                return self.eval(n.body, env)
            if t is False:
                return self.eval(n.orelse, env)
            a, b = self.eval(n.body, env), self.eval(n.orelse, env)
            return a if a == b else UNKNOWN
        return UNKNOWN

    def _binop(self, a, b, node, boolean: bool = False):
        if isinstance(a, Arr) and isinstance(b, Arr):
            return Arr(broadcast(a.shape, b.shape, node), "bool" if boolean or (a.kind == b.kind == "bool") else "")
        for x, y in ((a, b), (b, a)):
            if isinstance(x, Arr):
                if is_scalarish(y):
                    return Arr(x.shape, "bool" if boolean else "")
                if isinstance(y, Tup) and all(is_scalarish(i) for i in y.items):
                    return Arr(broadcast(x.shape, (dim(len(y.items)),), node), "bool" if boolean else "")
                return UNKNOWN
        if isinstance(a, Tup) and isinstance(node, ast.BinOp):
            if isinstance(node.op, ast.Add) and isinstance(b, Tup):
                return Tup(a.items + b.items, a.is_list)
            if isinstance(node.op, ast.Mult) and isinstance(b, Const) and isinstance(b.value, int):
                return Tup(a.items * b.value, a.is_list)
            return UNKNOWN
        if isinstance(node, ast.BinOp) and isinstance(a, (IntV, Const)) and isinstance(b, (IntV, Const)):
            pa, pb = self._as_poly(a), self._as_poly(b)
            if pa is not None and pb is not None:
                if isinstance(node.op, ast.Add):
                    return IntV(pa + pb)
                if isinstance(node.op, ast.Sub):
                    return IntV(pa - pb)
                if isinstance(node.op, ast.Mult):
                    return IntV(pa * pb)
            return SCALAR
        if is_scalarish(a) and is_scalarish(b):
            return SCALAR
        return UNKNOWN

    @staticmethod
    def _as_poly(v) -> Optional[Poly]:
        if isinstance(v, IntV):
            return v.value
        if isinstance(v, Const) and isinstance(v.value, int) and not isinstance(v.value, bool):
            return Poly.const(v.value)
        return None

    # ------------------------------------------------------------------ indexing
    def _subscript(self, base, sl: ast.AST, env: dict, node):
        if isinstance(base, DictV):
            k = self.eval(sl, env)
            return base.get(k.value) if isinstance(k, Const) else UNKNOWN
        if isinstance(base, Tup):
            k = self.eval(sl, env) if not isinstance(sl, ast.Slice) else None
            if isinstance(k, Const) and isinstance(k.value, int):
                if not -len(base.items) <= k.value < len(base.items):
                    raise DomainError(f"index {k.value} out of range for a sequence of length {len(base.items)}", node)
                return base.items[k.value]
            if isinstance(sl, ast.Slice):
                try:
                    lo = self._const_int(sl.lower, env)
                    hi = self._const_int(sl.upper, env)
                    stp = self._const_int(sl.step, env)
                    return Tup(base.items[lo:hi:stp], base.is_list)
                except ValueError:
                    return UNKNOWN
            return UNKNOWN
        if not isinstance(base, Arr):
            return UNKNOWN
        idx = list(sl.elts) if isinstance(sl, ast.Tuple) else [sl]
        # expand Ellipsis
        consuming = 0
        vals = []
        for e in idx:
            if isinstance(e, ast.Slice):
                vals.append(("slice", e))
                consuming += 1
            elif isinstance(e, ast.Constant) and e.value is Ellipsis:
                vals.append(("ellipsis", None))
            elif isinstance(e, ast.Constant) and e.value is None:
                vals.append(("newaxis", None))
            elif isinstance(e, ast.Attribute) and e.attr == "newaxis":
                vals.append(("newaxis", None))
            else:
                v = self.eval(e, env)
                if isinstance(v, Arr) and v.kind == "bool":
                    vals.append(("mask", v))
                    consuming += v.rank
                elif isinstance(v, Arr):
                    vals.append(("fancy", v))
                    consuming += 1
                elif isinstance(v, Tup) and all(isinstance(i, (Const, IntV)) or i is SCALAR for i in v.items):
                    vals.append(("fancy", Arr((dim(len(v.items)),))))
                    consuming += 1
                elif is_scalarish(v):
                    vals.append(("int", v))
                    consuming += 1
                else:
                    return UNKNOWN
        if consuming > base.rank:
            raise DomainError(f"too many indices for array: array is {base.rank}-dimensional, but {consuming} were "
                              "indexed", node)
        out = []
        pos = 0
        shape = list(base.shape)
        n_ell = sum(1 for k, _ in vals if k == "ellipsis")
        if n_ell > 1:
            return UNKNOWN
        for k, v in vals:
            if k == "slice":
                e = v
                if e.lower is None and e.upper is None and e.step is None:
                    out.append(shape[pos])
                else:
                    out.append(self.fresh("s"))
                pos += 1
            elif k == "ellipsis":
                take = base.rank - consuming
                out.extend(shape[pos:pos + take])
                pos += take
            elif k == "newaxis":
                out.append(ONE)
            elif k == "mask":
                if v.rank > 1 or True:
                    for j in range(v.rank):
                        a, b = v.shape[j], shape[pos + j]
                        if a != b and a.const_value() is not None and b.const_value() is not None:
                            raise DomainError(f"boolean index of shape {shape_text(v.shape)} does not match the indexed "
                                              f"axes {shape_text(tuple(shape[pos:pos + v.rank]))}", node)
                out.append(self.fresh("n"))
                pos += v.rank
            elif k == "fancy":
                out.extend(v.shape)
                pos += 1
            elif k == "int":
                if isinstance(v, Const) and isinstance(v.value, int):
                    d = shape[pos].const_value()
                    if d is not None and not -d <= v.value < d:
                        raise DomainError(f"index {v.value} is out of bounds for axis {pos} with size {d}", node)
                pos += 1
        out.extend(shape[pos:])
        if not out:
            return SCALAR
        return Arr(tuple(out), base.kind)

    def _const_int(self, e, env):
        if e is None:
            return None
        v = self.eval(e, env)
        if isinstance(v, Const) and isinstance(v.value, int):
            return v.value
        raise ValueError

    # ------------------------------------------------------------------ calls
    def _axis(self, call: ast.Call, env: dict, pos: int):
        """axis argument: keyword `axis` or positional `pos` -> ('none',) / ('int', k) / ('tuple', ks) / ('?',)"""
        e = None
        for k in call.keywords:
            if k.arg == "axis":
                e = k.value
        if e is None and len(call.args) > pos:
            e = call.args[pos]
        if e is None:
            return ("none",)
        v = self.eval(e, env)
        if v is NONE:
            return ("none",)
        if isinstance(v, Const) and isinstance(v.value, int):
            return ("int", v.value)
        if isinstance(v, Tup) and all(isinstance(i, Const) and isinstance(i.value, int) for i in v.items):
            return ("tuple", tuple(i.value for i in v.items))
        return ("?",)

    def _keepdims(self, call: ast.Call) -> bool:
        for k in call.keywords:
            if k.arg == "keepdims":
                return not (isinstance(k.value, ast.Constant) and k.value.value is False)
        return False

    def _reduce(self, a: Arr, call: ast.Call, env: dict, axis_pos: int, name: str):
        ax = self._axis(call, env, axis_pos)
        keep = self._keepdims(call)
        kind = "bool" if name in _BOOL_RED else ""
        if ax[0] == "?":
            return UNKNOWN
        if ax[0] == "none":
            return Arr(tuple(ONE for _ in a.shape), kind) if keep else SCALAR
        axes = (ax[1],) if ax[0] == "int" else ax[1]
        norm = []
        for k in axes:
            if not -a.rank <= k < a.rank:
                raise DomainError(f"`{ast.unparse(call)}`: axis {k} is out of bounds for an array of dimension "
                                  f"{a.rank} (shape {shape_text(a.shape)})", call)
            norm.append(k % a.rank)
        out = []
        for i, d in enumerate(a.shape):
            if i in norm:
                if keep:
                    out.append(ONE)
            else:
                out.append(d)
        if not out:
            return SCALAR
        return Arr(tuple(out), kind)

    def _shape_arg(self, v) -> Optional[tuple]:
        if isinstance(v, IntV):
            return (v.value,)
        if isinstance(v, Const) and isinstance(v.value, int):
            return (Poly.const(v.value),)
        if isinstance(v, Tup):
            out = []
            for i in v.items:
                p = self._as_poly(i)
                if p is None:
                    return None
                out.append(p)
            return tuple(out)
        return None

    def _dtype_kind(self, call: ast.Call) -> str:
        for k in call.keywords:
            if k.arg == "dtype":
                t = dotted(k.value) or ""
                if t.split(".")[-1] in ("bool", "bool_"):
                    return "bool"
        return ""

    def _call(self, call: ast.Call, env: dict):
        f = call.func
        name = last_attr(call)
        fn = dotted(f)
        # builtins
        if fn == "len" and len(call.args) == 1:
            v = self.eval(call.args[0], env)
            if isinstance(v, Arr) and v.rank >= 1:
                return IntV(v.shape[0])
            if isinstance(v, Tup):
                return Const(len(v.items))
            return SCALAR if v is not UNKNOWN else IntV(self.fresh("len"))
        if fn in ("int", "float", "bool", "abs", "round") and len(call.args) >= 1:
            v = self.eval(call.args[0], env)
            if isinstance(v, Arr):
                return v if fn in ("abs", "round") else SCALAR
            return v if isinstance(v, (IntV, Const)) and fn == "int" else SCALAR
        if fn in ("tuple", "list") and len(call.args) == 1:
            v = self.eval(call.args[0], env)
            return v if isinstance(v, Tup) else UNKNOWN
        is_np = isinstance(f, ast.Attribute) and (dotted(f.value) or "").split(".")[0] in _NP or isinstance(f, ast.Name)
        if isinstance(f, ast.Attribute) and not ((dotted(f.value) or "").split(".")[0] in _NP):
            # method call on a value
            recv = self.eval(f.value, env)
            if isinstance(recv, Const) and isinstance(recv.value, str) and name in ("lower", "upper", "strip") \
                    and not call.args:
                return Const(getattr(recv.value, name)())
            if isinstance(recv, Arr):
                if name in _REDUCTIONS:
                    return self._reduce(recv, call, env, 0, name)
                if name in ("ravel", "flatten"):
                    p = ONE
                    for d in recv.shape:
                        p = p * d
                    return Arr((p,), recv.kind)
                if name in _SAME_METHODS:
                    return Arr(recv.shape, "" if name == "astype" else recv.kind)
                if name == "transpose" and not call.args:
                    return Arr(tuple(reversed(recv.shape)), recv.kind)
                if name == "reshape":
                    return self._reshape(recv, call, env, 0)
                return UNKNOWN
            if isinstance(recv, DictV) and name == "get" and call.args:
                k = self.eval(call.args[0], env)
                return recv.get(k.value) if isinstance(k, Const) else UNKNOWN
            return UNKNOWN
        if not is_np or name is None:
            return UNKNOWN
        args = [self.eval(a, env) for a in call.args if not isinstance(a, ast.Starred)]
        if any(isinstance(a, ast.Starred) for a in call.args):
            star = [self.eval(a.value, env) for a in call.args if isinstance(a, ast.Starred)]
            if len(star) == 1 and isinstance(star[0], Tup) and len(call.args) == 1:
                args = list(star[0].items)
            else:
                return UNKNOWN
        if name in ("array", "asarray", "stack") and args:
            a = args[0]
            if isinstance(a, Arr):
                return Arr(a.shape, a.kind)
            if isinstance(a, Tup):
                if all(isinstance(i, Arr) for i in a.items) and a.items:
                    s0 = a.items[0].shape
                    for i in a.items[1:]:
                        if i.shape != s0:
                            raise DomainError(f"`{ast.unparse(call)}`: stacking arrays of different shapes "
                                              f"{shape_text(s0)} and {shape_text(i.shape)}", call)
                    return Arr((dim(len(a.items)),) + s0)
                if all(is_scalarish(i) for i in a.items):
                    return Arr((dim(len(a.items)),))
            return UNKNOWN
        if name in _BINARY and len(args) >= 2:
            return self._binop(args[0], args[1], call, boolean=name in _BINARY_BOOL)
        if name in _ELEMENTWISE and args:
            a = args[0]
            if isinstance(a, Arr):
                return Arr(a.shape, "bool" if name in ("isclose", "isnan", "logical_not") else "")
            return SCALAR if is_scalarish(a) else UNKNOWN
        if name in _REDUCTIONS and args:
            a = args[0]
            if isinstance(a, Arr):
                return self._reduce(a, call, env, 1, name)
            return UNKNOWN
        if name == "meshgrid" and args:
            if not all(isinstance(a, Arr) for a in args):
                return UNKNOWN
            for a in args:
                if a.rank != 1:
                    return UNKNOWN
            indexing = "xy"
            for k in call.keywords:
                if k.arg == "indexing" and isinstance(k.value, ast.Constant):
                    indexing = k.value.value
            dims = [a.shape[0] for a in args]
            if indexing == "xy" and len(dims) >= 2:
                dims = [dims[1], dims[0]] + dims[2:]
            return Tup(tuple(Arr(tuple(dims)) for _ in args))
        if name == "arange" and args:
            if len(args) == 1:
                p = self._as_poly(args[0])
                return Arr((p if p is not None else self.fresh("n"),))
            if len(args) == 2:
                lo, hi = self._as_poly(args[0]), self._as_poly(args[1])
                if lo is not None and hi is not None:
                    return Arr((hi - lo,))
            return Arr((self.fresh("n"),))
        if name in ("ones", "zeros", "empty", "full") and args:
            s = self._shape_arg(args[0])
            if s is None:
                return UNKNOWN
            return Arr(s, self._dtype_kind(call))
        if name in ("ones_like", "zeros_like", "empty_like") and args and isinstance(args[0], Arr):
            return Arr(args[0].shape)
        if name == "reshape" and args and isinstance(args[0], Arr):
            return self._reshape(args[0], call, env, 1)
        if name == "linspace":
            return Arr((self.fresh("n"),))
        return UNKNOWN

    def _reshape(self, a: Arr, call: ast.Call, env: dict, first: int):
        raw = call.args[first:]
        vals = [self.eval(x, env) for x in raw]
        if len(vals) == 1 and isinstance(vals[0], Tup):
            vals = list(vals[0].items)
        total = ONE
        for d in a.shape:
            total = total * d
        dims: list = []
        unknown_at = None
        for i, v in enumerate(vals):
            if isinstance(v, Const) and v.value == -1:
                if unknown_at is not None:
                    return UNKNOWN
                unknown_at = i
                dims.append(None)
                continue
            p = self._as_poly(v)
            if p is None:
                return UNKNOWN
            dims.append(p)
        if unknown_at is not None:
            known = ONE
            for d in dims:
                if d is not None:
                    known = known * d
            dims[unknown_at] = total * known.inverse()
        return Arr(tuple(dims), a.kind)
