"""R-LIMITS — the frequency/angle limits of a diffraction pattern describe the grid the (fftshifted) array lives on.

A pattern axis of length n with pixel size s holds, in centred order, the frequencies (i - n//2) * s, i = 0..n-1: the
zero frequency sits at index n//2 (where fftshift puts it).  The three properties that turn this into numbers are
decided here, symbolically:

* `DiffractionPatterns.limits`: for n = 2m (even) the pair of axis k is (-m s_k, (m-1) s_k), for n = 2m+1 (odd) it is
  (-m s_k, m s_k), built from the length and the sampling of the same axis k.  The property body is interpreted over
  the terms n_k = 2 m_k + p_k for every parity pattern; floor division and `% 2` are evaluated exactly on those terms.
* `DiffractionPatterns.angular_sampling`: element k is sampling[k] * wavelength * 1e3 (scattering angle = wavelength
  times spatial frequency, in mrad).
* `DiffractionPatterns.angular_limits`: for an axis of n points the pair of axis k is (-(n//2) a_k, (n-1-n//2) a_k) with
  a_k = angular_sampling[k] — the ends of the centred angular grid; otherwise linspace(lower, upper, n) does not have
  the pitch the pattern publishes or puts the zero angle on another pixel than fftshift does.  The property is
  EVALUATED, for every parity pattern, through whatever properties it reads (`limits`, `offset`, `max_angles`,
  `angular_sampling`, `sampling`, ... inlined along the MRO; loops, comprehensions, zip, stores through aliases) into a
  polynomial in m_k, S_k and the wavelength; it is not required to be written as a scaling of `self.limits`.
* `DiffractionPatterns.angular_coordinates`: the k-th vector is linspace(limits[k][0], limits[k][1], shape[-2+k]) —
  from the lower to the upper limit of the same axis, with that axis' length.
"""
from __future__ import annotations

import ast
import copy
from fractions import Fraction
from typing import Optional

from ..cfg import DataFlow
from ..model import AnalysisError, FuncInfo, call_name, dotted, kw, norm_text, walk_no_nested
from ..terms import FlowNormalizer, Normalizer, Poly

MEAS = "abtem.measurements"
DP = "DiffractionPatterns"


# ------------------------------------------------------------------------------------------------ limits
class _Sym:
    """Exact evaluation of integer/real arithmetic over the terms n_k = 2*m_k + p_k and the pixel sizes S_k."""

    def __init__(self, f: FuncInfo, parities: tuple[int, int]):
        self.f = f
        self.m = [Poly.atom("m0"), Poly.atom("m1")]
        self.S = [Poly.atom("S0"), Poly.atom("S1")]
        self.n = [Poly.const(2) * self.m[k] + Poly.const(parities[k]) for k in (0, 1)]

    def _integral(self, p: Poly) -> bool:
        return all(a in ("m0", "m1") and e >= 1 and e.denominator == 1 for m in p.terms for a, e in m) and \
            all(c.denominator == 1 for c in p.terms.values())

    def leaf(self, e: ast.expr) -> Optional[Poly]:
        if isinstance(e, ast.Subscript):
            try:
                i = ast.literal_eval(e.slice)
            except Exception:
                return None
            d = dotted(e.value)
            if not isinstance(i, int) or isinstance(i, bool) or d is None:
                return None
            last = d.split(".")[-1].lstrip("_")
            if d.startswith("self.") and last in ("shape",) and i in (-2, -1):
                return self.n[i + 2]
            if d.startswith("self.") and last in ("base_shape", "gpts") and i in (-2, -1, 0, 1):
                return self.n[i % 2]
            if d.startswith("self.") and last == "sampling" and i in (-2, -1, 0, 1):
                return self.S[i % 2]
        return None

    def ev(self, e: ast.expr, env: dict) -> Poly:
        if isinstance(e, ast.Constant) and isinstance(e.value, (int, float)) and not isinstance(e.value, bool):
            return Poly.const(Fraction(repr(e.value)) if isinstance(e.value, float) else e.value)
        if isinstance(e, ast.Name) and e.id in env and isinstance(env[e.id], Poly):
            return env[e.id]
        lf = self.leaf(e)
        if lf is not None:
            return lf
        if isinstance(e, ast.UnaryOp) and isinstance(e.op, (ast.USub, ast.UAdd)):
            v = self.ev(e.operand, env)
            return -v if isinstance(e.op, ast.USub) else v
        if isinstance(e, ast.Call) and (call_name(e) or "").split(".")[-1] in ("int", "float") and len(e.args) == 1:
            return self.ev(e.args[0], env)
        if isinstance(e, ast.BinOp):
            a, b = self.ev(e.left, env), self.ev(e.right, env)
            if isinstance(e.op, ast.Add):
                return a + b
            if isinstance(e.op, ast.Sub):
                return a - b
            if isinstance(e.op, ast.Mult):
                return a * b
            if isinstance(e.op, ast.Div):
                if b.is_monomial():
                    return a * b.inverse()
                raise AnalysisError(f"{self.f.qualname}: division by `{norm_text(e.right)[:40]}` outside the term domain")
            if isinstance(e.op, (ast.FloorDiv, ast.Mod)):
                c = b.const_value()
                if c is None or c.denominator != 1 or c <= 0 or not self._integral(a):
                    raise AnalysisError(f"{self.f.qualname}: `{norm_text(e)[:50]}` is not an integer division by a "
                                        "positive constant")
                c = int(c)
                k0 = a.terms.get((), Fraction(0))
                rest = Poly({m: v for m, v in a.terms.items() if m != ()})
                if any(v % c for v in rest.terms.values()):
                    raise AnalysisError(f"{self.f.qualname}: `{norm_text(e)[:50]}`: the quotient by {c} is not decided "
                                        "by the parity alone")
                if isinstance(e.op, ast.Mod):
                    return Poly.const(int(k0) % c)
                return Poly({m: v / c for m, v in rest.terms.items()}) + Poly.const(int(k0) // c)
        raise AnalysisError(f"{self.f.qualname}: `{norm_text(e)[:50]}` is outside the term domain of R-LIMITS")

    def truth(self, t: ast.expr, env: dict) -> bool:
        if isinstance(t, ast.UnaryOp) and isinstance(t.op, ast.Not):
            return not self.truth(t.operand, env)
        if isinstance(t, ast.BoolOp):
            vs = [self.truth(v, env) for v in t.values]
            return all(vs) if isinstance(t.op, ast.And) else any(vs)
        if isinstance(t, ast.Compare) and len(t.ops) == 1 and isinstance(t.ops[0], (ast.Eq, ast.NotEq)):
            a, b = self.ev(t.left, env).const_value(), self.ev(t.comparators[0], env).const_value()
            if a is None or b is None:
                raise AnalysisError(f"{self.f.qualname}: test `{norm_text(t)[:50]}` is not decided by the parity")
            return (a == b) == isinstance(t.ops[0], ast.Eq)
        c = self.ev(t, env).const_value()
        if c is None:
            raise AnalysisError(f"{self.f.qualname}: test `{norm_text(t)[:50]}` is not decided by the parity")
        return c != 0


class _SubstName(ast.NodeTransformer):
    def __init__(self, name: str, value: int):
        self.name, self.value = name, value

    def visit_Name(self, n: ast.Name):
        if n.id == self.name and isinstance(n.ctx, ast.Load):
            return ast.copy_location(ast.Constant(value=self.value), n)
        return n


def _pairs_of(f: FuncInfo, sym: _Sym, listvar: str) -> list[tuple[Poly, Poly, ast.AST]]:
    """Interpret the body of `limits`: the (lower, upper) pairs appended to the returned list, in order."""
    out: list = []

    def contribute(v: ast.expr, env, at):
        elts = v.elts if isinstance(v, (ast.List, ast.Tuple)) and all(isinstance(x, ast.Tuple) for x in v.elts) else None
        if elts is None:
            raise AnalysisError(f"{f.qualname}: cannot interpret the contribution `{norm_text(v)[:50]}` to `{listvar}`")
        for t in elts:
            if len(t.elts) != 2:
                raise AnalysisError(f"{f.qualname}: a limits entry is not a pair")
            out.append((sym.ev(t.elts[0], env), sym.ev(t.elts[1], env), at))

    def run(body, env):
        for st in body:
            if isinstance(st, ast.Pass) or (isinstance(st, ast.Expr) and isinstance(st.value, ast.Constant)):
                continue
            if isinstance(st, ast.Assign) and len(st.targets) == 1 and isinstance(st.targets[0], ast.Name):
                name = st.targets[0].id
                if name == listvar:
                    v = st.value
                    if isinstance(v, (ast.List, ast.Tuple)) and not v.elts:
                        continue
                    if isinstance(v, ast.BinOp) and isinstance(v.op, ast.Add) and dotted(v.left) == listvar:
                        contribute(v.right, env, st)
                        continue
                    raise AnalysisError(f"{f.qualname}: `{listvar}` assigned `{norm_text(v)[:40]}`")
                env[name] = sym.ev(st.value, env)
                continue
            if isinstance(st, ast.AugAssign) and isinstance(st.target, ast.Name) and st.target.id == listvar \
                    and isinstance(st.op, ast.Add):
                contribute(st.value, env, st)
                continue
            if isinstance(st, ast.Expr) and isinstance(st.value, ast.Call) and isinstance(st.value.func, ast.Attribute) \
                    and st.value.func.attr == "append" and dotted(st.value.func.value) == listvar and len(st.value.args) == 1:
                contribute(ast.List(elts=[st.value.args[0]], ctx=ast.Load()), env, st)
                continue
            if isinstance(st, ast.If):
                run(st.body if sym.truth(st.test, env) else st.orelse, env)
                continue
            if isinstance(st, ast.For) and isinstance(st.target, ast.Name) and not st.orelse:
                try:
                    vals = ast.literal_eval(st.iter)
                except Exception:
                    vals = None
                    if isinstance(st.iter, ast.Call) and call_name(st.iter) == "range" and len(st.iter.args) == 1:
                        try:
                            vals = tuple(range(ast.literal_eval(st.iter.args[0])))
                        except Exception:
                            vals = None
                if not (isinstance(vals, (tuple, list)) and all(isinstance(v, int) for v in vals)):
                    raise AnalysisError(f"{f.qualname}: loop over `{norm_text(st.iter)[:40]}` is not a literal axis list")
                for v in vals:
                    body_v = [_SubstName(st.target.id, v).visit(copy.deepcopy(s)) for s in st.body]
                    run(body_v, dict(env))
                continue
            if isinstance(st, ast.Return):
                if dotted(st.value) != listvar:
                    raise AnalysisError(f"{f.qualname}: returns `{norm_text(st.value)[:40]}`, not the list built")
                return
            raise AnalysisError(f"{f.qualname}: statement `{norm_text(st)[:50]}` outside the interpreter of R-LIMITS")

    run(f.body, {})
    return out


def check_limits(ctx, rule: str, repo) -> None:
    f = repo.method(MEAS, DP, "limits")
    rets = [r for r in walk_no_nested(f.node) if isinstance(r, ast.Return) and r.value is not None]
    if len(rets) != 1 or not isinstance(rets[0].value, ast.Name):
        raise AnalysisError(f"{f.qualname}: expected a single `return <list>`")
    listvar = rets[0].value.id
    for p0 in (0, 1):
        for p1 in (0, 1):
            sym = _Sym(f, (p0, p1))
            pairs = _pairs_of(f, sym, listvar)
            par = lambda p: "odd" if p else "even"
            if len(pairs) != 2:
                ctx.violation(rule, f"{f.qualname}[{par(p0)},{par(p1)}]", f.where,
                              f"for a pattern with {par(p0)} x {par(p1)} points the property yields {len(pairs)} limit "
                              "pairs instead of one per axis", key_detail="count")
                continue
            for k, (lo, hi, at) in enumerate(pairs):
                if (k == 0 and p1 == 1) or (k == 1 and p0 == 1):
                    continue  # each axis is reported once per own parity (the other axis' parity does not enter)
                p = (p0, p1)[k]
                want_lo = -sym.m[k] * sym.S[k]
                want_hi = (sym.m[k] + Poly.const(p - 1)) * sym.S[k]
                nm = f"n = 2m{'+1' if p else ''}"
                for which, got, want in (("lower", lo, want_lo), ("upper", hi, want_hi)):
                    ctx.check(got == want, rule, f"{f.qualname}[axis {k - 2},{par(p)}]:{which}", f.loc(at),
                              f"{which} limit of an axis with {nm} points is {want.key()} = "
                              f"{'-(n//2)' if which == 'lower' else '((n-1)//2)'} * sampling",
                              f"for an axis of {nm} points (length and sampling of axis {k}: m{k}, S{k}) the {which} "
                              f"limit is {got.key()[:80]}, but the centred grid (i - n//2)*s, i = 0..n-1, "
                              f"{'starts' if which == 'lower' else 'ends'} at {want.key()}: coordinates built from the "
                              "limits put the zero frequency on another pixel or have another pitch",
                              key_detail=f"{which}")


# ------------------------------------------------------------------------------------------------ angular_limits
def _single_return(f: FuncInfo) -> ast.Return:
    rets = [r for r in walk_no_nested(f.node) if isinstance(r, ast.Return) and r.value is not None]
    if len(rets) != 1:
        raise AnalysisError(f"{f.qualname}: expected a single return")
    return rets[0]


class _Shape:
    """`self.shape` / `self.array.shape`: only the two pattern axes are known (n0, n1); the number of leading
    ensemble axes is not."""


class PropEval:
    """Exact symbolic evaluation of the scalar/tuple-valued properties of DiffractionPatterns for one parity pattern.

    Values are `Poly` (numbers over the atoms m_k, S_k, λ with n_k = 2 m_k + p_k), Python lists (tuples and lists,
    identity preserved so that stores through an alias are seen) and strings.  `self.<property>` is evaluated through
    the body of the property as resolved along the MRO (a fresh value per read); the leaves are the pattern shape, the
    stored sampling and the energy in the metadata.  Anything else is outside the domain (AnalysisError)."""

    LAMBDA = "λ"
    ENERGY = "E"

    def __init__(self, repo, parities: tuple[int, int], modname: str = MEAS, cname: str = DP):
        self.repo = repo
        self.cls = repo.cls(modname, cname)
        self.sym = _Sym(None, parities)
        self.parities = parities
        self.stack: list[FuncInfo] = []
        self.memo: dict[str, object] = {}

    # -------------------------------------------------------------------------------------------- helpers
    @property
    def where(self) -> str:
        return self.stack[-1].qualname if self.stack else f"{self.cls.qualname}"

    def err(self, msg: str) -> AnalysisError:
        return AnalysisError(f"{self.where}: {msg}")

    def _int(self, v, what: ast.AST) -> int:
        c = v.const_value() if isinstance(v, Poly) else None
        if c is None or c.denominator != 1:
            raise self.err(f"`{norm_text(what)[:40]}` is not a constant integer")
        return int(c)

    def _integral(self, p: Poly) -> bool:
        return self.sym._integral(p)

    # -------------------------------------------------------------------------------------------- properties
    def prop(self, name: str):
        if name in self.memo:
            return copy.deepcopy(self.memo[name])
        f = self.cls.find_method(name, "getter")
        if f is None or not f.is_property or f.is_abstract:
            raise self.err(f"`self.{name}` is not a property with a readable body")
        if any(g is f for g in self.stack) or len(self.stack) > 8:
            raise self.err(f"`self.{name}` is read recursively")
        self.stack.append(f)
        try:
            done, val = self.exec(f.body, {})
            if not done:
                raise self.err("the property body ends without a return")
        finally:
            self.stack.pop()
        self.memo[name] = val
        return copy.deepcopy(val)

    def self_attr(self, name: str):
        if name in ("shape",):
            return _Shape()
        if name in ("base_shape",):
            return [self.sym.n[0], self.sym.n[1]]
        if name == "_sampling":
            return [self.sym.S[0], self.sym.S[1]]
        return self.prop(name)

    # -------------------------------------------------------------------------------------------- expressions
    def arith(self, op: ast.operator, a, b, e: ast.AST):
        if isinstance(op, ast.Add) and isinstance(a, list) and isinstance(b, list):
            return a + b
        if not (isinstance(a, Poly) and isinstance(b, Poly)):
            raise self.err(f"`{norm_text(e)[:50]}`: operands are not numbers")
        if isinstance(op, ast.Add):
            return a + b
        if isinstance(op, ast.Sub):
            return a - b
        if isinstance(op, ast.Mult):
            return a * b
        if isinstance(op, ast.Div):
            if b.is_monomial():
                return a * b.inverse()
            raise self.err(f"`{norm_text(e)[:50]}`: division outside the term domain")
        if isinstance(op, ast.Pow):
            c = b.const_value()
            if c is None or c.denominator != 1 or not (0 <= c <= 8):
                raise self.err(f"`{norm_text(e)[:50]}`: exponent outside the term domain")
            return a.power(c)
        if isinstance(op, (ast.FloorDiv, ast.Mod)):
            c = b.const_value()
            if c is None or c.denominator != 1 or c <= 0 or not self._integral(a):
                raise self.err(f"`{norm_text(e)[:50]}` is not an integer division by a positive constant")
            c = int(c)
            k0 = a.terms.get((), Fraction(0))
            rest = Poly({m: v for m, v in a.terms.items() if m != ()})
            if any(v % c for v in rest.terms.values()):
                raise self.err(f"`{norm_text(e)[:50]}`: the quotient by {c} is not decided by the parity alone")
            if isinstance(op, ast.Mod):
                return Poly.const(int(k0) % c)
            return Poly({m: v / c for m, v in rest.terms.items()}) + Poly.const(int(k0) // c)
        raise self.err(f"`{norm_text(e)[:50]}`: operator outside the term domain")

    def truth(self, t: ast.expr, env: dict) -> bool:
        if isinstance(t, ast.UnaryOp) and isinstance(t.op, ast.Not):
            return not self.truth(t.operand, env)
        if isinstance(t, ast.BoolOp):
            vs = [self.truth(v, env) for v in t.values]
            return all(vs) if isinstance(t.op, ast.And) else any(vs)
        if isinstance(t, ast.Compare) and len(t.ops) == 1:
            a, b = self.ev(t.left, env), self.ev(t.comparators[0], env)
            ca = a.const_value() if isinstance(a, Poly) else None
            cb = b.const_value() if isinstance(b, Poly) else None
            if ca is None or cb is None:
                raise self.err(f"test `{norm_text(t)[:50]}` is not decided by the parity")
            op = t.ops[0]
            table = {ast.Eq: ca == cb, ast.NotEq: ca != cb, ast.Lt: ca < cb, ast.LtE: ca <= cb, ast.Gt: ca > cb,
                     ast.GtE: ca >= cb}
            if type(op) not in table:
                raise self.err(f"test `{norm_text(t)[:50]}` is outside the term domain")
            return table[type(op)]
        v = self.ev(t, env)
        if isinstance(v, list):
            return bool(v)
        c = v.const_value() if isinstance(v, Poly) else None
        if c is None:
            raise self.err(f"test `{norm_text(t)[:50]}` is not decided by the parity")
        return c != 0

    def index(self, base, sl: ast.expr, env: dict, e: ast.AST):
        if isinstance(sl, ast.Slice):
            lo = None if sl.lower is None else self._int(self.ev(sl.lower, env), sl.lower)
            hi = None if sl.upper is None else self._int(self.ev(sl.upper, env), sl.upper)
            st = None if sl.step is None else self._int(self.ev(sl.step, env), sl.step)
            if isinstance(base, _Shape):
                if lo == -2 and hi is None and st in (None, 1):
                    return [self.sym.n[0], self.sym.n[1]]
                raise self.err(f"`{norm_text(e)[:40]}`: only the last two axes of the shape are known")
            if isinstance(base, list):
                return base[slice(lo, hi, st)]
            raise self.err(f"`{norm_text(e)[:40]}`: slice of a number")
        i = self._int(self.ev(sl, env), sl)
        if isinstance(base, _Shape):
            if i in (-2, -1):
                return self.sym.n[i + 2]
            raise self.err(f"`{norm_text(e)[:40]}`: only the last two axes of the shape are known")
        if isinstance(base, list):
            if not -len(base) <= i < len(base):
                raise self.err(f"`{norm_text(e)[:40]}`: index out of range")
            return base[i]
        raise self.err(f"`{norm_text(e)[:40]}`: subscript of a number")

    def bind(self, target: ast.expr, value, env: dict) -> None:
        if isinstance(target, ast.Name):
            env[target.id] = value
            return
        if isinstance(target, (ast.Tuple, ast.List)) and not any(isinstance(t, ast.Starred) for t in target.elts):
            if not isinstance(value, list) or len(value) != len(target.elts):
                raise self.err(f"cannot unpack into `{norm_text(target)[:40]}`")
            for t, v in zip(target.elts, value):
                self.bind(t, v, env)
            return
        if isinstance(target, ast.Subscript):
            base = self.ev(target.value, env)
            if not isinstance(base, list) or isinstance(target.slice, ast.Slice):
                raise self.err(f"store into `{norm_text(target)[:40]}` is outside the term domain")
            i = self._int(self.ev(target.slice, env), target.slice)
            if not -len(base) <= i < len(base):
                raise self.err(f"store into `{norm_text(target)[:40]}`: index out of range")
            base[i] = value
            return
        raise self.err(f"assignment to `{norm_text(target)[:40]}` is outside the term domain")

    def iterate(self, it: ast.expr, env: dict) -> list:
        v = self.ev(it, env)
        if not isinstance(v, list):
            raise self.err(f"`{norm_text(it)[:40]}` is not a sequence of known length")
        return list(v)

    def comprehension(self, e, env: dict) -> list:
        out: list = []

        def rec(gi: int, scope: dict):
            if gi == len(e.generators):
                out.append(self.ev(e.elt, scope))
                return
            g = e.generators[gi]
            if g.is_async:
                raise self.err("async comprehension")
            for item in self.iterate(g.iter, scope):
                sc = dict(scope)
                self.bind(g.target, item, sc)
                if all(self.truth(c, sc) for c in g.ifs):
                    rec(gi + 1, sc)

        rec(0, dict(env))
        return out

    def call(self, e: ast.Call, env: dict):
        name = call_name(e) or ""
        last = name.split(".")[-1]
        if e.keywords and not (last == "zip" and all(k.arg == "strict" for k in e.keywords)):
            raise self.err(f"call `{norm_text(e)[:50]}` with keywords is outside the term domain")
        if any(isinstance(a, ast.Starred) for a in e.args):
            raise self.err(f"call `{norm_text(e)[:50]}` with a starred argument")
        if name == "self._get_from_metadata" and len(e.args) == 1:
            k = self.ev(e.args[0], env)
            if k == "energy":
                return Poly.atom(self.ENERGY)
            raise self.err(f"metadata entry `{norm_text(e.args[0])[:30]}` is outside the term domain")
        if last == "energy2wavelength" and len(e.args) == 1:
            a = self.ev(e.args[0], env)
            if a == Poly.atom(self.ENERGY):
                return Poly.atom(self.LAMBDA)
            raise self.err(f"`{norm_text(e)[:50]}`: not the wavelength at the energy of the measurement")
        if name in ("int", "float") and len(e.args) == 1:
            v = self.ev(e.args[0], env)
            if not isinstance(v, Poly) or (name == "int" and not self._integral(v)):
                raise self.err(f"`{norm_text(e)[:50]}` is outside the term domain")
            return v
        if name in ("tuple", "list") and len(e.args) <= 1:
            return list(self.iterate(e.args[0], env)) if e.args else []
        if name == "zip":
            cols = [self.iterate(a, env) for a in e.args]
            if len({len(c) for c in cols}) > 1:
                raise self.err(f"`{norm_text(e)[:50]}` zips sequences of different lengths")
            return [list(t) for t in zip(*cols)]
        if name == "enumerate" and len(e.args) == 1:
            return [[Poly.const(i), v] for i, v in enumerate(self.iterate(e.args[0], env))]
        if name == "reversed" and len(e.args) == 1:
            return list(reversed(self.iterate(e.args[0], env)))
        if name == "range" and 1 <= len(e.args) <= 3:
            return [Poly.const(i) for i in range(*[self._int(self.ev(a, env), a) for a in e.args])]
        if name == "len" and len(e.args) == 1:
            v = self.ev(e.args[0], env)
            if isinstance(v, list):
                return Poly.const(len(v))
        raise self.err(f"call `{norm_text(e)[:50]}` is outside the term domain")

    def ev(self, e: ast.expr, env: dict):
        if isinstance(e, ast.Constant):
            if isinstance(e.value, (int, float)) and not isinstance(e.value, bool):
                return Poly.const(Fraction(repr(e.value)) if isinstance(e.value, float) else e.value)
            if isinstance(e.value, str):
                return e.value
            raise self.err(f"constant `{norm_text(e)[:30]}` is outside the term domain")
        if isinstance(e, ast.Name):
            if e.id in env:
                return env[e.id]
            raise self.err(f"name `{e.id}` has no value in the term domain")
        if isinstance(e, ast.Attribute):
            d = dotted(e)
            if isinstance(e.value, ast.Name) and e.value.id == "self":
                return self.self_attr(e.attr)
            if d == "self.array.shape":
                return _Shape()
            raise self.err(f"`{norm_text(e)[:40]}` is outside the term domain")
        if isinstance(e, ast.Subscript):
            if dotted(e.value) == "self.metadata" and isinstance(e.slice, ast.Constant) and e.slice.value == "energy":
                return Poly.atom(self.ENERGY)
            return self.index(self.ev(e.value, env), e.slice, env, e)
        if isinstance(e, (ast.Tuple, ast.List)):
            if any(isinstance(x, ast.Starred) for x in e.elts):
                raise self.err(f"`{norm_text(e)[:40]}`: starred element")
            return [self.ev(x, env) for x in e.elts]
        if isinstance(e, ast.UnaryOp):
            if isinstance(e.op, ast.Not):
                return Poly.const(0 if self.truth(e.operand, env) else 1)
            v = self.ev(e.operand, env)
            if isinstance(v, Poly) and isinstance(e.op, (ast.USub, ast.UAdd)):
                return -v if isinstance(e.op, ast.USub) else v
            raise self.err(f"`{norm_text(e)[:40]}` is outside the term domain")
        if isinstance(e, ast.BinOp):
            return self.arith(e.op, self.ev(e.left, env), self.ev(e.right, env), e)
        if isinstance(e, ast.IfExp):
            return self.ev(e.body if self.truth(e.test, env) else e.orelse, env)
        if isinstance(e, (ast.ListComp, ast.GeneratorExp)):
            return self.comprehension(e, env)
        if isinstance(e, ast.Call):
            return self.call(e, env)
        if isinstance(e, (ast.Compare, ast.BoolOp)):
            return Poly.const(1 if self.truth(e, env) else 0)
        raise self.err(f"`{norm_text(e)[:50]}` is outside the term domain")

    # -------------------------------------------------------------------------------------------- statements
    def exec(self, body: list, env: dict) -> tuple[bool, object]:
        for st in body:
            if isinstance(st, ast.Pass) or (isinstance(st, ast.Expr) and isinstance(st.value, ast.Constant)):
                continue
            if isinstance(st, ast.Assign):
                v = self.ev(st.value, env)
                for t in st.targets:
                    self.bind(t, v, env)
                continue
            if isinstance(st, ast.AnnAssign) and st.value is not None:
                self.bind(st.target, self.ev(st.value, env), env)
                continue
            if isinstance(st, ast.AugAssign):
                cur = self.ev(st.target, env)
                v = self.ev(st.value, env)
                if isinstance(cur, list) and isinstance(st.op, ast.Add):
                    if not isinstance(v, list):
                        raise self.err(f"`{norm_text(st)[:50]}` extends a list by a number")
                    cur.extend(v)
                    continue
                self.bind(st.target, self.arith(st.op, cur, v, st), env)
                continue
            if isinstance(st, ast.Expr) and isinstance(st.value, ast.Call) and isinstance(st.value.func, ast.Attribute) \
                    and st.value.func.attr in ("append", "extend") and len(st.value.args) == 1 and not st.value.keywords:
                base = self.ev(st.value.func.value, env)
                v = self.ev(st.value.args[0], env)
                if not isinstance(base, list) or (st.value.func.attr == "extend" and not isinstance(v, list)):
                    raise self.err(f"`{norm_text(st)[:50]}` is outside the term domain")
                if st.value.func.attr == "append":
                    base.append(v)
                else:
                    base.extend(v)
                continue
            if isinstance(st, ast.If):
                done, val = self.exec(st.body if self.truth(st.test, env) else st.orelse, env)
                if done:
                    return True, val
                continue
            if isinstance(st, ast.For) and not st.orelse:
                for item in self.iterate(st.iter, env):
                    self.bind(st.target, item, env)
                    done, val = self.exec(st.body, env)
                    if done:
                        return True, val
                continue
            if isinstance(st, ast.Return) and st.value is not None:
                return True, self.ev(st.value, env)
            raise self.err(f"statement `{norm_text(st)[:50]}` is outside the interpreter of R-LIMITS")
        return False, None


def _pair_of_polys(v) -> bool:
    return isinstance(v, list) and len(v) == 2 and all(isinstance(x, Poly) for x in v)


def check_angular_limits(ctx, rule: str, repo) -> None:
    f = repo.method(MEAS, DP, "angular_limits")
    g = repo.method(MEAS, DP, "angular_sampling")
    par = lambda p: "odd" if p else "even"
    pitch_seen = False
    for p0 in (0, 1):
        for p1 in (0, 1):
            pe = PropEval(repo, (p0, p1))
            sym = pe.sym
            ang = pe.prop("angular_sampling")
            if not _pair_of_polys(ang):
                raise AnalysisError(f"{g.qualname}: does not return a pair of numbers")
            if not pitch_seen:
                # the angular pixel size: scattering angle = wavelength * spatial frequency, in mrad
                pitch_seen = True
                for k in (0, 1):
                    want = sym.S[k] * Poly.atom(pe.LAMBDA) * Poly.const(1000)
                    ctx.check(ang[k] == want, rule, f"{g.qualname}[{k}]", g.where,
                              f"angular_sampling[{k}] = sampling[{k}] * wavelength * 1e3",
                              f"angular_sampling[{k}] is {ang[k].key()[:80]} (S{k}: sampling[{k}], λ: wavelength), not "
                              f"{want.key()}: the angular pixel size of axis {k} is not the frequency pixel size of "
                              "that axis times the wavelength, in mrad", key_detail="pitch")
            val = pe.prop("angular_limits")
            if not isinstance(val, list):
                raise AnalysisError(f"{f.qualname}: does not return a sequence of limit pairs")
            if len(val) != 2:
                ctx.violation(rule, f"{f.qualname}[{par(p0)},{par(p1)}]", f.where,
                              f"for a pattern with {par(p0)} x {par(p1)} points the property yields {len(val)} limit "
                              "pairs instead of one per axis", key_detail="count")
                continue
            for k in (0, 1):
                if not _pair_of_polys(val[k]):
                    raise AnalysisError(f"{f.qualname}: entry {k} is not a (lower, upper) pair of numbers")
                if (k == 0 and p1 == 1) or (k == 1 and p0 == 1):
                    continue  # each axis is reported once per own parity
                p = (p0, p1)[k]
                want_lo = -sym.m[k] * ang[k]
                want_hi = (sym.m[k] + Poly.const(p - 1)) * ang[k]
                nm = f"n = 2m{'+1' if p else ''}"
                for j, (which, want) in enumerate((("lower", want_lo), ("upper", want_hi))):
                    got = val[k][j]
                    ctx.check(got == want, rule, f"{f.qualname}[axis {k - 2},{par(p)}]:{which}", f.where,
                              f"{which} angular limit of an axis with {nm} points is {want.key()} = "
                              f"{'-(n//2)' if which == 'lower' else '(n-1-n//2)'} * angular_sampling",
                              f"for an axis of {nm} points (m{k}; S{k}: sampling[{k}], λ: wavelength) the {which} angular "
                              f"limit, evaluated through the properties it reads, is {got.key()[:90]}, but the centred "
                              f"grid (i - n//2) * angular_sampling[{k}], i = 0..n-1, "
                              f"{'starts' if which == 'lower' else 'ends'} at {want.key()}: linspace(lower, upper, n) "
                              "then has another pitch than angular_sampling or puts the zero angle on another pixel "
                              "than the (fftshifted) array does", key_detail=f"{which}")


# ------------------------------------------------------------------------------------------------ angular_coordinates
def check_angular_coordinates(ctx, rule: str, repo) -> None:
    f = repo.method(MEAS, DP, "angular_coordinates")
    df = DataFlow(f.node)
    lins = [c for c in walk_no_nested(f.node) if isinstance(c, ast.Call) and (call_name(c) or "").split(".")[-1] == "linspace"]
    if len(lins) != 2:
        raise AnalysisError(f"{f.qualname}: expected two linspace calls, found {len(lins)}")
    seen = set()
    for c in lins:
        a = list(c.args)
        start = kw(c, "start") or (a[0] if len(a) > 0 else None)
        stop = kw(c, "stop") or (a[1] if len(a) > 1 else None)
        num = kw(c, "num") or (a[2] if len(a) > 2 else None)
        if start is None or stop is None or num is None:
            raise AnalysisError(f"{f.qualname}: linspace without start/stop/num")
        ep = kw(c, "endpoint")
        if ep is not None and not (isinstance(ep, ast.Constant) and ep.value is True):
            raise AnalysisError(f"{f.qualname}: linspace with endpoint={norm_text(ep)}")
        st = None
        for s in walk_no_nested(f.node):
            if isinstance(s, (ast.Assign, ast.Return, ast.Expr)) and any(x is c for x in ast.walk(s)):
                st = s
        if st is None:
            raise AnalysisError(f"{f.qualname}: statement of a linspace call not found")
        at = df.cfg.node_of(st).idx
        nz = FlowNormalizer(df, at)
        n = nz.norm(num)
        ks = [k for k in (0, 1) if n == nz.norm(ast.parse(f"self.shape[{k - 2}]", mode="eval").body)
              or n == nz.norm(ast.parse(f"self.base_shape[{k - 2}]", mode="eval").body)
              or n == nz.norm(ast.parse(f"self.base_shape[{k}]", mode="eval").body)]
        if len(ks) != 1:
            raise AnalysisError(f"{f.qualname}: linspace length `{norm_text(num)[:40]}` is not the length of a pattern axis")
        k = ks[0]
        seen.add(k)
        lim = [nz.norm(ast.parse(f"self.angular_limits[{k}][{j}]", mode="eval").body) for j in (0, 1)]
        oth = [nz.norm(ast.parse(f"self.angular_limits[{1 - k}][{j}]", mode="eval").body) for j in (0, 1)]
        gs, ge = nz.norm(start), nz.norm(stop)
        if not ({gs, ge} <= set(lim + oth)):
            raise AnalysisError(f"{f.qualname}: linspace ends `{norm_text(start)[:30]}`, `{norm_text(stop)[:30]}` are "
                                "not elements of self.angular_limits")
        ctx.check(gs == lim[0] and ge == lim[1], rule, f"{f.qualname}:axis {k - 2} ends", f.loc(c),
                  f"coordinates of axis {k - 2} run from angular_limits[{k}][0] to angular_limits[{k}][1]",
                  f"the coordinates of axis {k - 2} are linspace({gs.key()[:50]}, {ge.key()[:50]}, n): they do not run "
                  f"from the lower limit [{k}][0] to the upper limit [{k}][1] of that axis, so they do not ascend over "
                  "the centred pattern pixel by pixel", key_detail="ends")
    if seen != {0, 1}:
        raise AnalysisError(f"{f.qualname}: the two linspace calls do not cover both pattern axes")


RULE_TEXT = ("DiffractionPatterns.limits yields, for an axis of n = 2m (+1) points and pixel size s of the same axis, "
             "(-m s, (m-1) s) resp. (-m s, m s) — the ends of the centred grid (i - n//2) s (body interpreted over the "
             "terms n = 2m + p for every parity, floor division exact); angular_sampling[k] is sampling[k] * wavelength * "
             "1e3; angular_limits — evaluated for every parity through the properties it reads (limits, offset, "
             "max_angles, angular_sampling, ... inlined) — is (-(n//2), n-1-n//2) * angular_sampling[k] for axis k; "
             "angular_coordinates' k-th vector is linspace(angular_limits[k][0], "
             "angular_limits[k][1], shape[-2+k]).  Otherwise the coordinate of a pixel is not (index - n//2) * "
             "sampling and blocking radii, band limits and centres of mass refer to other pixels than the array holds")


def check_all(ctx, rule: str, repo) -> None:
    ctx.rule(rule, RULE_TEXT)
    check_limits(ctx, rule, repo)
    check_angular_limits(ctx, rule, repo)
    check_angular_coordinates(ctx, rule, repo)
