"""R-LIMITS — the frequency/angle limits of a diffraction pattern describe the grid the (fftshifted) array lives on.

A pattern axis of length n with pixel size s holds, in centred order, the frequencies (i - n//2) * s, i = 0..n-1: the
zero frequency sits at index n//2 (where fftshift puts it).  The three properties that turn this into numbers are
decided here, symbolically:

* `DiffractionPatterns.limits`: for n = 2m (even) the pair of axis k is (-m s_k, (m-1) s_k), for n = 2m+1 (odd) it is
  (-m s_k, m s_k), built from the length and the sampling of the same axis k.  The property body is interpreted over
  the terms n_k = 2 m_k + p_k for every parity pattern; floor division and `% 2` are evaluated exactly on those terms.
* `DiffractionPatterns.angular_limits`: element [k][j] is limits[k][j] times the factor by which `angular_sampling[k]`
  differs from `sampling[k]` (one unit conversion for limits and pixel size, otherwise linspace(lower, upper, n) does
  not have the pitch the pattern publishes).
* `DiffractionPatterns.angular_coordinates`: the k-th vector is linspace(limits[k][0], limits[k][1], shape[-2+k]) —
  from the lower to the upper limit of the same axis, with that axis' length.
"""
from __future__ import annotations

import ast
import copy
from fractions import Fraction
from typing import Optional

from ..cfg import DataFlow
from ..model import AnalysisError, FuncInfo, call_name, dotted, kw, norm_text, walk_no_nested
from ..terms import FlowNormalizer, Normalizer, Poly

MEAS = "abtem.measurements"
DP = "DiffractionPatterns"


# ------------------------------------------------------------------------------------------------ limits
class _Sym:
    """Exact evaluation of integer/real arithmetic over the terms n_k = 2*m_k + p_k and the pixel sizes S_k."""

    def __init__(self, f: FuncInfo, parities: tuple[int, int]):
        self.f = f
        self.m = [Poly.atom("m0"), Poly.atom("m1")]
        self.S = [Poly.atom("S0"), Poly.atom("S1")]
        self.n = [Poly.const(2) * self.m[k] + Poly.const(parities[k]) for k in (0, 1)]

    def _integral(self, p: Poly) -> bool:
        return all(a in ("m0", "m1") and e >= 1 and e.denominator == 1 for m in p.terms for a, e in m) and \
            all(c.denominator == 1 for c in p.terms.values())

    def leaf(self, e: ast.expr) -> Optional[Poly]:
        if isinstance(e, ast.Subscript):
            try:
                i = ast.literal_eval(e.slice)
            except Exception:
                return None
            d = dotted(e.value)
            if not isinstance(i, int) or isinstance(i, bool) or d is None:
                return None
            last = d.split(".")[-1].lstrip("_")
            if d.startswith("self.") and last in ("shape",) and i in (-2, -1):
                return self.n[i + 2]
            if d.startswith("self.") and last in ("base_shape", "gpts") and i in (-2, -1, 0, 1):
                return self.n[i % 2]
            if d.startswith("self.") and last == "sampling" and i in (-2, -1, 0, 1):
                return self.S[i % 2]
        return None

    def ev(self, e: ast.expr, env: dict) -> Poly:
        if isinstance(e, ast.Constant) and isinstance(e.value, (int, float)) and not isinstance(e.value, bool):
            return Poly.const(Fraction(repr(e.value)) if isinstance(e.value, float) else e.value)
        if isinstance(e, ast.Name) and e.id in env and isinstance(env[e.id], Poly):
            return env[e.id]
        lf = self.leaf(e)
        if lf is not None:
            return lf
        if isinstance(e, ast.UnaryOp) and isinstance(e.op, (ast.USub, ast.UAdd)):
            v = self.ev(e.operand, env)
            return -v if isinstance(e.op, ast.USub) else v
        if isinstance(e, ast.Call) and (call_name(e) or "").split(".")[-1] in ("int", "float") and len(e.args) == 1:
            return self.ev(e.args[0], env)
        if isinstance(e, ast.BinOp):
            a, b = self.ev(e.left, env), self.ev(e.right, env)
            if isinstance(e.op, ast.Add):
                return a + b
            if isinstance(e.op, ast.Sub):
                return a - b
            if isinstance(e.op, ast.Mult):
                return a * b
            if isinstance(e.op, ast.Div):
                if b.is_monomial():
                    return a * b.inverse()
                raise AnalysisError(f"{self.f.qualname}: division by `{norm_text(e.right)[:40]}` outside the term domain")
            if isinstance(e.op, (ast.FloorDiv, ast.Mod)):
                c = b.const_value()
                if c is None or c.denominator != 1 or c <= 0 or not self._integral(a):
                    raise AnalysisError(f"{self.f.qualname}: `{norm_text(e)[:50]}` is not an integer division by a "
                                        "positive constant")
                c = int(c)
                k0 = a.terms.get((), Fraction(0))
                rest = Poly({m: v for m, v in a.terms.items() if m != ()})
                if any(v % c for v in rest.terms.values()):
                    raise AnalysisError(f"{self.f.qualname}: `{norm_text(e)[:50]}`: the quotient by {c} is not decided "
                                        "by the parity alone")
                if isinstance(e.op, ast.Mod):
                    return Poly.const(int(k0) % c)
                return Poly({m: v / c for m, v in rest.terms.items()}) + Poly.const(int(k0) // c)
        raise AnalysisError(f"{self.f.qualname}: `{norm_text(e)[:50]}` is outside the term domain of R-LIMITS")

    def truth(self, t: ast.expr, env: dict) -> bool:
        if isinstance(t, ast.UnaryOp) and isinstance(t.op, ast.Not):
            return not self.truth(t.operand, env)
        if isinstance(t, ast.BoolOp):
            vs = [self.truth(v, env) for v in t.values]
            return all(vs) if isinstance(t.op, ast.And) else any(vs)
        if isinstance(t, ast.Compare) and len(t.ops) == 1 and isinstance(t.ops[0], (ast.Eq, ast.NotEq)):
            a, b = self.ev(t.left, env).const_value(), self.ev(t.comparators[0], env).const_value()
            if a is None or b is None:
                raise AnalysisError(f"{self.f.qualname}: test `{norm_text(t)[:50]}` is not decided by the parity")
            return (a == b) == isinstance(t.ops[0], ast.Eq)
        c = self.ev(t, env).const_value()
        if c is None:
            raise AnalysisError(f"{self.f.qualname}: test `{norm_text(t)[:50]}` is not decided by the parity")
        return c != 0


class _SubstName(ast.NodeTransformer):
    def __init__(self, name: str, value: int):
        self.name, self.value = name, value

    def visit_Name(self, n: ast.Name):
        if n.id == self.name and isinstance(n.ctx, ast.Load):
            return ast.copy_location(ast.Constant(value=self.value), n)
        return n


def _pairs_of(f: FuncInfo, sym: _Sym, listvar: str) -> list[tuple[Poly, Poly, ast.AST]]:
    """Interpret the body of `limits`: the (lower, upper) pairs appended to the returned list, in order."""
    out: list = []

    def contribute(v: ast.expr, env, at):
        elts = v.elts if isinstance(v, (ast.List, ast.Tuple)) and all(isinstance(x, ast.Tuple) for x in v.elts) else None
        if elts is None:
            raise AnalysisError(f"{f.qualname}: cannot interpret the contribution `{norm_text(v)[:50]}` to `{listvar}`")
        for t in elts:
            if len(t.elts) != 2:
                raise AnalysisError(f"{f.qualname}: a limits entry is not a pair")
            out.append((sym.ev(t.elts[0], env), sym.ev(t.elts[1], env), at))

    def run(body, env):
        for st in body:
            if isinstance(st, ast.Pass) or (isinstance(st, ast.Expr) and isinstance(st.value, ast.Constant)):
                continue
            if isinstance(st, ast.Assign) and len(st.targets) == 1 and isinstance(st.targets[0], ast.Name):
                name = st.targets[0].id
                if name == listvar:
                    v = st.value
                    if isinstance(v, (ast.List, ast.Tuple)) and not v.elts:
                        continue
                    if isinstance(v, ast.BinOp) and isinstance(v.op, ast.Add) and dotted(v.left) == listvar:
                        contribute(v.right, env, st)
                        continue
                    raise AnalysisError(f"{f.qualname}: `{listvar}` assigned `{norm_text(v)[:40]}`")
                env[name] = sym.ev(st.value, env)
                continue
            if isinstance(st, ast.AugAssign) and isinstance(st.target, ast.Name) and st.target.id == listvar \
                    and isinstance(st.op, ast.Add):
                contribute(st.value, env, st)
                continue
            if isinstance(st, ast.Expr) and isinstance(st.value, ast.Call) and isinstance(st.value.func, ast.Attribute) \
                    and st.value.func.attr == "append" and dotted(st.value.func.value) == listvar and len(st.value.args) == 1:
                contribute(ast.List(elts=[st.value.args[0]], ctx=ast.Load()), env, st)
                continue
            if isinstance(st, ast.If):
                run(st.body if sym.truth(st.test, env) else st.orelse, env)
                continue
            if isinstance(st, ast.For) and isinstance(st.target, ast.Name) and not st.orelse:
                try:
                    vals = ast.literal_eval(st.iter)
                except Exception:
                    vals = None
                    if isinstance(st.iter, ast.Call) and call_name(st.iter) == "range" and len(st.iter.args) == 1:
                        try:
                            vals = tuple(range(ast.literal_eval(st.iter.args[0])))
                        except Exception:
                            vals = None
                if not (isinstance(vals, (tuple, list)) and all(isinstance(v, int) for v in vals)):
                    raise AnalysisError(f"{f.qualname}: loop over `{norm_text(st.iter)[:40]}` is not a literal axis list")
                for v in vals:
                    body_v = [_SubstName(st.target.id, v).visit(copy.deepcopy(s)) for s in st.body]
                    run(body_v, dict(env))
                continue
            if isinstance(st, ast.Return):
                if dotted(st.value) != listvar:
                    raise AnalysisError(f"{f.qualname}: returns `{norm_text(st.value)[:40]}`, not the list built")
                return
            raise AnalysisError(f"{f.qualname}: statement `{norm_text(st)[:50]}` outside the interpreter of R-LIMITS")

    run(f.body, {})
    return out


def check_limits(ctx, rule: str, repo) -> None:
    f = repo.method(MEAS, DP, "limits")
    rets = [r for r in walk_no_nested(f.node) if isinstance(r, ast.Return) and r.value is not None]
    if len(rets) != 1 or not isinstance(rets[0].value, ast.Name):
        raise AnalysisError(f"{f.qualname}: expected a single `return <list>`")
    listvar = rets[0].value.id
    for p0 in (0, 1):
        for p1 in (0, 1):
            sym = _Sym(f, (p0, p1))
            pairs = _pairs_of(f, sym, listvar)
            par = lambda p: "odd" if p else "even"
            if len(pairs) != 2:
                ctx.violation(rule, f"{f.qualname}[{par(p0)},{par(p1)}]", f.where,
                              f"for a pattern with {par(p0)} x {par(p1)} points the property yields {len(pairs)} limit "
                              "pairs instead of one per axis", key_detail="count")
                continue
            for k, (lo, hi, at) in enumerate(pairs):
                if (k == 0 and p1 == 1) or (k == 1 and p0 == 1):
                    continue  # each axis is reported once per own parity (the other axis' parity does not enter)
                p = (p0, p1)[k]
                want_lo = -sym.m[k] * sym.S[k]
                want_hi = (sym.m[k] + Poly.const(p - 1)) * sym.S[k]
                nm = f"n = 2m{'+1' if p else ''}"
                for which, got, want in (("lower", lo, want_lo), ("upper", hi, want_hi)):
                    ctx.check(got == want, rule, f"{f.qualname}[axis {k - 2},{par(p)}]:{which}", f.loc(at),
                              f"{which} limit of an axis with {nm} points is {want.key()} = "
                              f"{'-(n//2)' if which == 'lower' else '((n-1)//2)'} * sampling",
                              f"for an axis of {nm} points (length and sampling of axis {k}: m{k}, S{k}) the {which} "
                              f"limit is {got.key()[:80]}, but the centred grid (i - n//2)*s, i = 0..n-1, "
                              f"{'starts' if which == 'lower' else 'ends'} at {want.key()}: coordinates built from the "
                              "limits put the zero frequency on another pixel or have another pitch",
                              key_detail=f"{which}")


# ------------------------------------------------------------------------------------------------ angular_limits
def _single_return(f: FuncInfo) -> ast.Return:
    rets = [r for r in walk_no_nested(f.node) if isinstance(r, ast.Return) and r.value is not None]
    if len(rets) != 1:
        raise AnalysisError(f"{f.qualname}: expected a single return")
    return rets[0]


def check_angular_limits(ctx, rule: str, repo) -> None:
    f = repo.method(MEAS, DP, "angular_limits")
    g = repo.method(MEAS, DP, "angular_sampling")
    # the conversion factor angular_sampling[k] / sampling[k]
    rg = _single_return(g)
    dg = DataFlow(g.node)
    if not (isinstance(rg.value, ast.Tuple) and len(rg.value.elts) == 2):
        raise AnalysisError(f"{g.qualname}: does not return a pair")
    nzg = FlowNormalizer(dg, dg.cfg.node_of(rg).idx)
    factor = []
    for k in (0, 1):
        fk = nzg.norm(rg.value.elts[k]) * nzg.norm(ast.parse(f"self.sampling[{k}]", mode="eval").body).inverse()
        if any("sampling" in a for a in fk.atoms()):
            raise AnalysisError(f"{g.qualname}: element {k} is not a multiple of self.sampling[{k}]")
        factor.append(fk)
    # angular_limits: per-axis stores into (a copy of) self.limits, or a comprehension over it
    df = DataFlow(f.node)
    rf = _single_return(f)
    elems: dict[tuple[int, int], tuple[Poly, Poly, ast.AST]] = {}
    val = rf.value
    node = df.cfg.node_of(rf).idx
    if isinstance(val, ast.Name):
        var = val.id
        strong = [d for d in df.reaching(node, var) if d.strong]
        if len(strong) != 1 or strong[0].kind != "assign" or dotted(strong[0].value) != "self.limits":
            raise AnalysisError(f"{f.qualname}: the returned list is not derived from self.limits by per-axis stores")
        for st in walk_no_nested(f.node):
            if isinstance(st, ast.Assign) and len(st.targets) == 1 and isinstance(st.targets[0], ast.Subscript) \
                    and dotted(st.targets[0].value) == var:
                try:
                    k = ast.literal_eval(st.targets[0].slice)
                except Exception:
                    raise AnalysisError(f"{f.qualname}: store into `{var}` with a non-constant index")
                if not (isinstance(st.value, ast.Tuple) and len(st.value.elts) == 2 and k in (0, 1, -2, -1)):
                    raise AnalysisError(f"{f.qualname}: `{norm_text(st)[:50]}` does not store a pair for one axis")
                k %= 2
                nz = FlowNormalizer(df, df.cfg.node_of(st).idx)
                nz.no_inline = {var}
                for j in (0, 1):
                    if (k, j) in elems:
                        raise AnalysisError(f"{f.qualname}: axis {k} is stored twice")
                    src = nz.norm(ast.parse(f"{var}[{k}][{j}]", mode="eval").body)
                    elems[(k, j)] = (nz.norm(st.value.elts[j]), src, st.value.elts[j])
    elif isinstance(val, ast.ListComp) and len(val.generators) == 1 and dotted(val.generators[0].iter) == "self.limits" \
            and isinstance(val.generators[0].target, ast.Tuple) and len(val.generators[0].target.elts) == 2 \
            and isinstance(val.elt, ast.Tuple) and len(val.elt.elts) == 2:
        a, b = (dotted(x) for x in val.generators[0].target.elts)
        nz = FlowNormalizer(df, node)
        nz.no_inline = {a, b}
        for k in (0, 1):
            for j, nm in enumerate((a, b)):
                elems[(k, j)] = (nz.norm(val.elt.elts[j]), Poly.atom(nm), val.elt.elts[j])
    else:
        raise AnalysisError(f"{f.qualname}: unrecognised construction of the angular limits")
    for k in (0, 1):
        for j in (0, 1):
            if (k, j) not in elems:
                ctx.violation(rule, f"{f.qualname}[{k}][{j}]", f.where,
                              f"the limits of axis {k} are returned unconverted (in 1/Å, not mrad)", key_detail="unconverted")
                continue
            got, src, at = elems[(k, j)]
            ctx.check(got == src * factor[k], rule, f"{f.qualname}[{k}][{j}]", f.loc(at),
                      f"angular_limits[{k}][{j}] = limits[{k}][{j}] * angular_sampling[{k}] / sampling[{k}]",
                      f"angular_limits[{k}][{j}] is {got.key()[:90]}, not limits[{k}][{j}] times the factor "
                      f"{factor[k].key()[:60]} by which angular_sampling[{k}] differs from sampling[{k}]: the angular "
                      "coordinates built between these limits do not match the angular pixel size / the axis they "
                      "belong to", key_detail="factor")


# ------------------------------------------------------------------------------------------------ angular_coordinates
def check_angular_coordinates(ctx, rule: str, repo) -> None:
    f = repo.method(MEAS, DP, "angular_coordinates")
    df = DataFlow(f.node)
    lins = [c for c in walk_no_nested(f.node) if isinstance(c, ast.Call) and (call_name(c) or "").split(".")[-1] == "linspace"]
    if len(lins) != 2:
        raise AnalysisError(f"{f.qualname}: expected two linspace calls, found {len(lins)}")
    seen = set()
    for c in lins:
        a = list(c.args)
        start = kw(c, "start") or (a[0] if len(a) > 0 else None)
        stop = kw(c, "stop") or (a[1] if len(a) > 1 else None)
        num = kw(c, "num") or (a[2] if len(a) > 2 else None)
        if start is None or stop is None or num is None:
            raise AnalysisError(f"{f.qualname}: linspace without start/stop/num")
        ep = kw(c, "endpoint")
        if ep is not None and not (isinstance(ep, ast.Constant) and ep.value is True):
            raise AnalysisError(f"{f.qualname}: linspace with endpoint={norm_text(ep)}")
        st = None
        for s in walk_no_nested(f.node):
            if isinstance(s, (ast.Assign, ast.Return, ast.Expr)) and any(x is c for x in ast.walk(s)):
                st = s
        if st is None:
            raise AnalysisError(f"{f.qualname}: statement of a linspace call not found")
        at = df.cfg.node_of(st).idx
        nz = FlowNormalizer(df, at)
        n = nz.norm(num)
        ks = [k for k in (0, 1) if n == nz.norm(ast.parse(f"self.shape[{k - 2}]", mode="eval").body)
              or n == nz.norm(ast.parse(f"self.base_shape[{k - 2}]", mode="eval").body)
              or n == nz.norm(ast.parse(f"self.base_shape[{k}]", mode="eval").body)]
        if len(ks) != 1:
            raise AnalysisError(f"{f.qualname}: linspace length `{norm_text(num)[:40]}` is not the length of a pattern axis")
        k = ks[0]
        seen.add(k)
        lim = [nz.norm(ast.parse(f"self.angular_limits[{k}][{j}]", mode="eval").body) for j in (0, 1)]
        oth = [nz.norm(ast.parse(f"self.angular_limits[{1 - k}][{j}]", mode="eval").body) for j in (0, 1)]
        gs, ge = nz.norm(start), nz.norm(stop)
        if not ({gs, ge} <= set(lim + oth)):
            raise AnalysisError(f"{f.qualname}: linspace ends `{norm_text(start)[:30]}`, `{norm_text(stop)[:30]}` are "
                                "not elements of self.angular_limits")
        ctx.check(gs == lim[0] and ge == lim[1], rule, f"{f.qualname}:axis {k - 2} ends", f.loc(c),
                  f"coordinates of axis {k - 2} run from angular_limits[{k}][0] to angular_limits[{k}][1]",
                  f"the coordinates of axis {k - 2} are linspace({gs.key()[:50]}, {ge.key()[:50]}, n): they do not run "
                  f"from the lower limit [{k}][0] to the upper limit [{k}][1] of that axis, so they do not ascend over "
                  "the centred pattern pixel by pixel", key_detail="ends")
    if seen != {0, 1}:
        raise AnalysisError(f"{f.qualname}: the two linspace calls do not cover both pattern axes")


RULE_TEXT = ("DiffractionPatterns.limits yields, for an axis of n = 2m (+1) points and pixel size s of the same axis, "
             "(-m s, (m-1) s) resp. (-m s, m s) — the ends of the centred grid (i - n//2) s (body interpreted over the "
             "terms n = 2m + p for every parity, floor division exact); angular_limits[k][j] is limits[k][j] times the "
             "factor angular_sampling[k]/sampling[k]; angular_coordinates' k-th vector is linspace(angular_limits[k][0], "
             "angular_limits[k][1], shape[-2+k]).  Otherwise the coordinate of a pixel is not (index - n//2) * "
             "sampling and blocking radii, band limits and centres of mass refer to other pixels than the array holds")


def check_all(ctx, rule: str, repo) -> None:
    ctx.rule(rule, RULE_TEXT)
    check_limits(ctx, rule, repo)
    check_angular_limits(ctx, rule, repo)
    check_angular_coordinates(ctx, rule, repo)
