"""Small abstract domains evaluated over expressions with flow-sensitive name resolution (DataFlow):

* `IntervalEval.ev(expr, at)`       closed interval [lo, hi] over the extended reals that contains every
                                    element of the (array) value of `expr` at CFG node `at`;
* `IntervalEval.vanishes(expr, at)` True only if `expr` is identically 0 whenever the designated "zero
                                    names" (e.g. the scattering angle alpha) are 0.

A name is the join over all its reaching definitions (strong assignments, weak subscript stores,
positional identities such as `a, b = expand_dims_to_broadcast(a, b)`).  Every construct that is not
modelled is recorded in `unmodelled`; a caller that fails to prove its bound must raise
AnalysisError (not a violation) when that list is non-empty.
"""
from __future__ import annotations

import ast
import math
from typing import Callable, Optional

from ..cfg import DataFlow
from ..model import dotted, last_attr

INF = float("inf")
TOP = (-INF, INF)
UNIT = (0.0, 1.0)

IDENTITY = {"array", "asarray", "expand_dims", "astype", "float", "float32", "float64", "ascontiguousarray",
            "broadcast_to", "squeeze", "copy", "reshape", "ravel"}
POSITIONAL_IDENTITY = {"expand_dims_to_broadcast"}


def _mul(a: float, b: float) -> float:
    if a == 0 or b == 0:
        return 0.0
    return a * b


def i_mul(x, y):
    c = [_mul(x[0], y[0]), _mul(x[0], y[1]), _mul(x[1], y[0]), _mul(x[1], y[1])]
    return (min(c), max(c))


def i_add(x, y):
    lo = x[0] + y[0] if not (math.isinf(x[0]) or math.isinf(y[0])) else (-INF if -INF in (x[0], y[0]) else INF)
    hi = x[1] + y[1] if not (math.isinf(x[1]) or math.isinf(y[1])) else (INF if INF in (x[1], y[1]) else -INF)
    return (lo, hi)


def i_neg(x):
    return (-x[1], -x[0])


def i_join(x, y):
    return (min(x[0], y[0]), max(x[1], y[1]))


def i_pow(x, e: float):
    if e == int(e) and e >= 0:
        k = int(e)
        if k == 0:
            return (1.0, 1.0)
        f = lambda v: (INF if k % 2 == 0 else v) if math.isinf(v) else v ** k
        if k % 2 == 1:
            return (f(x[0]), f(x[1]))
        if x[0] >= 0:
            return (f(x[0]), f(x[1]))
        if x[1] <= 0:
            return (f(x[1]), f(x[0]))
        return (0.0, max(f(x[0]), f(x[1])))
    if x[0] >= 0 and e > 0:
        g = lambda v: INF if math.isinf(v) else v ** e
        return (g(x[0]), g(x[1]))
    return TOP


def i_exp(x):
    g = lambda v: 0.0 if v == -INF else (INF if v == INF or v > 700 else math.exp(v))
    return (g(x[0]), g(x[1]))


def within(x, bound) -> bool:
    return x[0] >= bound[0] and x[1] <= bound[1]


def fmt(x) -> str:
    f = lambda v: "-inf" if v == -INF else ("+inf" if v == INF else f"{v + 0.0:g}")
    return f"[{f(x[0])}, {f(x[1])}]"


class IntervalEval:
    def __init__(self, df: DataFlow, leaf: Optional[Callable[[ast.AST, int], Optional[tuple]]] = None,
                 zero_names: Optional[Callable[[str, int], bool]] = None):
        self.df = df
        self.leaf = leaf or (lambda e, at: None)
        self.zero_names = zero_names or (lambda name, at: False)
        self.unmodelled: list[str] = []
        self._busy: set = set()

    # ------------------------------------------------------------------ intervals
    def const(self, e: ast.AST) -> Optional[float]:
        if isinstance(e, ast.Constant) and isinstance(e.value, (int, float)) and not isinstance(e.value, bool):
            return float(e.value)
        if isinstance(e, ast.UnaryOp) and isinstance(e.op, ast.USub):
            c = self.const(e.operand)
            return -c if c is not None else None
        if isinstance(e, ast.Attribute):
            d = dotted(e)
            if d in ("np.pi", "xp.pi", "math.pi", "numpy.pi"):
                return math.pi
            if d in ("np.inf", "xp.inf", "math.inf", "numpy.inf"):
                return INF
        return None

    def ev(self, e: ast.AST, at: int):
        c = self.const(e)
        if c is not None:
            return (c, c)
        lf = self.leaf(e, at)
        if lf is not None:
            return lf
        if isinstance(e, ast.Constant) and isinstance(e.value, bool):
            return (float(e.value), float(e.value))
        if isinstance(e, ast.Name):
            return self._name(e.id, at)
        if isinstance(e, ast.Attribute):
            d = dotted(e)
            if d is not None and d.startswith("self."):
                rd = self.df.reaching(at, d)
                if rd:
                    return self._name(d, at)
            return TOP  # an unconstrained input
        if isinstance(e, ast.UnaryOp):
            if isinstance(e.op, ast.USub):
                return i_neg(self.ev(e.operand, at))
            if isinstance(e.op, ast.UAdd):
                return self.ev(e.operand, at)
            if isinstance(e.op, ast.Not):
                return UNIT
        if isinstance(e, ast.BinOp):
            if isinstance(e.op, ast.Mult) and ast.dump(e.left) == ast.dump(e.right):
                return i_pow(self.ev(e.left, at), 2)
            if isinstance(e.op, ast.Pow):
                c = self.const(e.right)
                if c is None:
                    self.unmodelled.append("non-constant exponent")
                    return TOP
                return i_pow(self.ev(e.left, at), c)
            a, b = self.ev(e.left, at), self.ev(e.right, at)
            if isinstance(e.op, ast.Add):
                return i_add(a, b)
            if isinstance(e.op, ast.Sub):
                return i_add(a, i_neg(b))
            if isinstance(e.op, ast.Mult):
                return i_mul(a, b)
            if isinstance(e.op, ast.Div):
                if b[0] > 0 or b[1] < 0:
                    inv = (1.0 / b[1] if not math.isinf(b[1]) else 0.0, 1.0 / b[0] if not math.isinf(b[0]) else 0.0)
                    return i_mul(a, inv)
                return TOP
            self.unmodelled.append(type(e.op).__name__)
            return TOP
        if isinstance(e, (ast.Compare, ast.BoolOp)):
            return UNIT
        if isinstance(e, ast.IfExp):
            return i_join(self.ev(e.body, at), self.ev(e.orelse, at))
        if isinstance(e, ast.Call):
            return self._call(e, at)
        if isinstance(e, ast.Subscript):
            # an element / slice of an array lies in the interval of the array
            return self.ev(e.value, at)
        if isinstance(e, (ast.DictComp, ast.ListComp, ast.GeneratorExp, ast.Dict, ast.Tuple, ast.List)):
            return TOP  # container of unconstrained inputs
        self.unmodelled.append(type(e).__name__)
        return TOP

    def _kwarg(self, call: ast.Call, names, pos: int):
        for k in call.keywords:
            if k.arg in names:
                return k.value
        if len(call.args) > pos:
            return call.args[pos]
        return None

    def _call(self, e: ast.Call, at: int):
        fn = last_attr(e)
        recv = e.func.value if isinstance(e.func, ast.Attribute) else None
        if fn == "astype" and recv is not None:
            return self.ev(recv, at)
        if fn in ("copy", "squeeze", "reshape", "ravel") and recv is not None and dotted(recv) not in (
                "np", "xp", "cp", "numpy"):
            return self.ev(recv, at)
        if fn in IDENTITY and e.args:
            return self.ev(e.args[0], at)
        if fn == "exp" and len(e.args) == 1:
            return i_exp(self.ev(e.args[0], at))
        if fn == "clip" and e.args:
            x = self.ev(e.args[0], at)
            lo_e = self._kwarg(e, ("a_min", "min"), 1)
            hi_e = self._kwarg(e, ("a_max", "max"), 2)
            lo = self.ev(lo_e, at) if lo_e is not None and not (
                isinstance(lo_e, ast.Constant) and lo_e.value is None) else (-INF, -INF)
            hi = self.ev(hi_e, at) if hi_e is not None and not (
                isinstance(hi_e, ast.Constant) and hi_e.value is None) else (INF, INF)
            return (min(max(x[0], lo[0]), hi[0]), min(max(x[1], lo[1]), hi[1]))
        if fn in ("sqrt",) and len(e.args) == 1:
            x = self.ev(e.args[0], at)
            return i_pow((max(x[0], 0.0), max(x[1], 0.0)), 0.5)
        if fn in ("abs", "absolute", "fabs") and len(e.args) == 1:
            x = self.ev(e.args[0], at)
            if x[0] >= 0:
                return x
            if x[1] <= 0:
                return i_neg(x)
            return (0.0, max(-x[0], x[1]))
        if fn == "square" and len(e.args) == 1:
            return i_pow(self.ev(e.args[0], at), 2)
        if fn == "hypot":
            return (0.0, INF)
        if fn == "sign" and len(e.args) == 1:
            x = self.ev(e.args[0], at)
            return (0.0 if x[0] >= 0 else -1.0, 0.0 if x[1] <= 0 else 1.0)
        if fn in ("cos", "sin") and len(e.args) == 1:
            return (-1.0, 1.0)
        if fn in ("ones", "ones_like"):
            return (1.0, 1.0)
        if fn in ("zeros", "zeros_like"):
            return (0.0, 0.0)
        if fn in ("minimum", "maximum") and len(e.args) == 2:
            a, b = self.ev(e.args[0], at), self.ev(e.args[1], at)
            return (min(a[0], b[0]), min(a[1], b[1])) if fn == "minimum" else (max(a[0], b[0]), max(a[1], b[1]))
        if fn in ("dict", "zip", "tuple", "list", "defaultdict") and isinstance(e.func, ast.Name):
            return TOP  # container of unconstrained inputs
        self.unmodelled.append(f"call {dotted(e.func) or fn}")
        return TOP

    def _name(self, name: str, at: int):
        key = (name, at)
        if key in self._busy:
            self.unmodelled.append(f"cyclic definition of {name}")
            return TOP
        rd = self.df.reaching(at, name)
        if not rd:
            return TOP
        self._busy.add(key)
        try:
            out = None
            for d in rd:
                v = self._def(d, name)
                out = v if out is None else i_join(out, v)
            return out if out is not None else TOP
        finally:
            self._busy.discard(key)

    def _def(self, d, name: str):
        if d.kind == "param":
            lf = self.leaf(ast.Name(id=name, ctx=ast.Load()), d.node)
            return lf if lf is not None else TOP
        st = self.df.cfg.nodes[d.node].ast
        if d.kind in ("assign", "walrus") and d.value is not None:
            if isinstance(st, ast.Assign) and isinstance(st.targets[0], (ast.Tuple, ast.List)) and not isinstance(
                    st.value, (ast.Tuple, ast.List)) and d.value is st.value:
                idx = [i for i, t in enumerate(st.targets[0].elts) if dotted(t) == name]
                v = st.value
                if len(idx) == 1 and isinstance(v, ast.Call) and last_attr(v) in POSITIONAL_IDENTITY and \
                        len(v.args) > idx[0]:
                    return self.ev(v.args[idx[0]], d.node)
                lf = self.leaf(ast.Name(id=name, ctx=ast.Load()), -1 - d.node)
                if lf is not None:
                    return lf
                return TOP  # element of an opaque tuple: unconstrained
            return self.ev(d.value, d.node)
        if d.kind == "store" and isinstance(d.value, ast.Tuple):
            return self.ev(d.value.elts[0], d.node)
        self.unmodelled.append(f"{d.kind} definition of {name}")
        return TOP

    # ------------------------------------------------------------------ zero-at-origin
    def vanishes(self, e: ast.AST, at: int, _depth: int = 0) -> bool:
        if _depth > 60:
            return False
        c = self.const(e)
        if c is not None:
            return c == 0
        if isinstance(e, ast.Name):
            rd = self.df.reaching(at, e.id)
            if not rd:
                return False
            res = []
            for d in rd:
                if d.kind == "param":
                    res.append(self.zero_names(e.id, d.node))
                elif d.kind in ("assign", "walrus") and d.value is not None:
                    st = self.df.cfg.nodes[d.node].ast
                    if isinstance(st, ast.Assign) and isinstance(st.targets[0], (ast.Tuple, ast.List)) and \
                            not isinstance(st.value, (ast.Tuple, ast.List)):
                        idx = [i for i, t in enumerate(st.targets[0].elts) if dotted(t) == e.id]
                        v = st.value
                        if len(idx) == 1 and isinstance(v, ast.Call) and last_attr(v) in POSITIONAL_IDENTITY and \
                                len(v.args) > idx[0]:
                            res.append(self.vanishes(v.args[idx[0]], d.node, _depth + 1))
                        else:
                            res.append(False)
                    else:
                        res.append(self.vanishes(d.value, d.node, _depth + 1))
                else:
                    res.append(False)
            return all(res)
        if isinstance(e, ast.UnaryOp) and isinstance(e.op, (ast.USub, ast.UAdd)):
            return self.vanishes(e.operand, at, _depth + 1)
        if isinstance(e, ast.BinOp):
            if isinstance(e.op, (ast.Add, ast.Sub)):
                return self.vanishes(e.left, at, _depth + 1) and self.vanishes(e.right, at, _depth + 1)
            if isinstance(e.op, ast.Mult):
                return self.vanishes(e.left, at, _depth + 1) or self.vanishes(e.right, at, _depth + 1)
            if isinstance(e.op, ast.Div):
                return self.vanishes(e.left, at, _depth + 1) and not self.depends_on_zero_names(e.right, at)
            if isinstance(e.op, ast.Pow):
                c = self.const(e.right)
                return c is not None and c > 0 and self.vanishes(e.left, at, _depth + 1)
            return False
        if isinstance(e, ast.Call):
            fn = last_attr(e)
            recv = e.func.value if isinstance(e.func, ast.Attribute) else None
            if fn == "astype" and recv is not None:
                return self.vanishes(recv, at, _depth + 1)
            if fn in IDENTITY and e.args:
                return self.vanishes(e.args[0], at, _depth + 1)
            if fn in ("square", "abs", "absolute", "sqrt", "sin", "tan", "sinh", "tanh", "arctan") and len(e.args) == 1:
                return self.vanishes(e.args[0], at, _depth + 1)
            return False
        return False

    def depends_on_zero_names(self, e: ast.AST, at: int) -> bool:
        sl = self.df.backward_slice(at, e)
        return any(self.zero_names(p, self.df.cfg.entry) for p in sl.params)
