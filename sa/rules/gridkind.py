"""Kinds (units) of grid quantities, decided from the DEFINITIONS in the analysed tree.

A kind is a monomial with rational exponents over *base units*.  The base units are the storage slots of the grid
class (``Grid._gpts`` [pixels], ``Grid._sampling`` [length per pixel], ``Grid._extent`` ...), slots of other classes
that hold plain numbers (``Accelerator._energy``) and opaque repo functions of gridless arguments
(``energy2wavelength(energy)``).  Relations between the slots of the grid class (``extent = gpts * sampling``) are
DERIVED from the stores the class itself performs (`Engine.derive_relations`) and used to eliminate the dependent
slot, so that ``extent / gpts`` and ``sampling`` have the same kind.

Nothing is decided from a parameter name, an annotation of a *number* or a docstring:

* the kind of ``obj.attr`` is the kind of what the property getter found through the MRO of the class of ``obj``
  returns (``_valid_sampling`` -> ``self.sampling`` -> ``self.grid.sampling`` -> ``Grid._sampling``); class
  annotations are used only to find the CLASS of an object (``waves: Waves``, ``_grid: Grid``, ``TypeVar`` bounds);
* the kind of a local is the kind of its reaching definitions (they must agree);
* the kind of a parameter is the kind of the argument of the call that is being followed (demand driven,
  context sensitive: a `Frame` keeps the caller's expressions as thunks);
* ``fftfreq(n, d)`` is the primitive that turns a spacing into frequencies: it is the *site* where the kind of
  the spacing ``d`` and of the count ``n`` matters; `Engine.sites` finds every such site reachable from an entry
  function through calls of repo functions and reports the kinds its two slots receive in that calling context.

Everything that cannot be read raises `AnalysisError` — never a guess.
"""
from __future__ import annotations

import ast
from fractions import Fraction
from typing import Optional, Union

from ..cfg import DataFlow
from ..model import AnalysisError, ClassInfo, FuncInfo, bind_args, dotted, last_attr, norm_text, walk_no_nested


# ====================================================================== kinds
class Kind:
    __slots__ = ("mono", "lit")

    def __init__(self, mono=(), lit: bool = False):
        d: dict[str, Fraction] = {}
        items = mono.items() if isinstance(mono, dict) else mono
        for a, e in items:
            e = Fraction(e)
            if e:
                d[a] = d.get(a, Fraction(0)) + e
        self.mono = tuple(sorted((a, e) for a, e in d.items() if e))
        self.lit = bool(lit) and not self.mono  # a literal number: adopts the kind of what it is added to

    @staticmethod
    def atom(name: str) -> "Kind":
        return Kind({name: 1})

    def __mul__(self, o: "Kind") -> "Kind":
        return Kind(list(self.mono) + list(o.mono), self.lit and o.lit)

    def __truediv__(self, o: "Kind") -> "Kind":
        return self * o.pow(-1)

    def pow(self, e) -> "Kind":
        e = Fraction(e)
        return Kind([(a, x * e) for a, x in self.mono], self.lit)

    def __eq__(self, o) -> bool:
        return isinstance(o, Kind) and self.mono == o.mono

    def __hash__(self) -> int:
        return hash(self.mono)

    def atoms(self) -> set[str]:
        return {a for a, _ in self.mono}

    def subst(self, mapping: dict[str, "Kind"]) -> "Kind":
        out = Kind((), self.lit)
        for a, e in self.mono:
            out = out * (mapping[a].pow(e) if a in mapping else Kind({a: e}))
        return out

    def describe(self) -> str:
        if not self.mono:
            return "1 (pure number)"
        num = [f"{a}" + (f"^{e}" if e != 1 else "") for a, e in self.mono if e > 0]
        den = [f"{a}" + (f"^{-e}" if e != -1 else "") for a, e in self.mono if e < 0]
        s = "·".join(num) if num else "1"
        if den:
            s += "/(" + "·".join(den) + ")" if len(den) > 1 else "/" + den[0]
        return s

    __repr__ = describe


LIT = Kind((), True)
NUM = Kind(())

Thunk = Union[Kind, tuple]  # a ready kind, or (frame, expression, comprehension environment)


def agree(kinds: list[Kind], what: str) -> Kind:
    real = [k for k in kinds if not k.lit]
    if not real:
        if not kinds:
            raise AnalysisError(f"{what}: nothing to take a kind from")
        return LIT
    for k in real[1:]:
        if k != real[0]:
            raise AnalysisError(f"{what}: quantities of different kinds meet ({real[0].describe()} and {k.describe()})")
    return real[0]


# ====================================================================== frames
class Frame:
    def __init__(self, eng: "Engine", func: FuncInfo, self_cls: Optional[ClassInfo] = None,
                 args: Optional[dict[str, Thunk]] = None, depth: int = 0):
        if depth > 24:
            raise AnalysisError(f"{func.qualname}: definition chain of a grid quantity too deep")
        self.eng = eng
        self.func = func
        self.self_cls = self_cls
        self.args = args or {}
        self.depth = depth
        self.df, self.nodemap = eng.flow(func)
        pos = func.positional_params
        self.selfname = pos[0] if (self_cls is not None and pos and "staticmethod" not in func.decorators) else None

    def at(self, e: ast.AST) -> int:
        idx = self.nodemap.get(id(e))
        if idx is None:
            raise AnalysisError(f"{self.func.qualname}: expression `{norm_text(e)[:50]}` has no CFG node")
        return idx


class Site:
    """One fftfreq(n, d) reached from an entry function: `chain` are the repo functions entered on the way."""

    def __init__(self, chain: tuple, frame: Frame, call: ast.Call, n: Thunk, d: Thunk, entry_call: Optional[ast.Call]):
        self.chain, self.frame, self.call, self.n, self.d, self.entry_call = chain, frame, call, n, d, entry_call


# ====================================================================== engine
_FUNC_PASS = {"tuple", "list", "max", "min", "abs", "float", "int", "round", "array", "asarray", "asanyarray", "ceil",
              "floor", "rint", "amax", "amin", "absolute", "fabs", "sorted", "reversed", "ascontiguousarray", "sum",
              "fftshift", "ifftshift", "mean", "median", "copy", "squeeze", "ravel", "float32", "float64", "negative"}
_METHOD_PASS = {"astype", "item", "tolist", "copy", "max", "min", "mean", "sum", "squeeze", "ravel", "flatten", "get"}
_MODULE_CONSTS = {"pi", "e", "inf"}


class Engine:
    def __init__(self, repo, grid_cls: ClassInfo, count_attr: str, spacing_attr: str):
        self.repo = repo
        self.grid_cls = grid_cls
        self._flow: dict[int, tuple] = {}
        self._attr_memo: dict[tuple, Kind] = {}
        self._busy: set = set()
        self._hasfreq: dict[int, bool] = {}
        self.relations: dict[str, Kind] = {}
        self.related: set[str] = set()
        self.equations: list[tuple[str, Kind, FuncInfo, ast.AST]] = []
        # provisional (no relations yet): the two base quantities the caller names must stay base quantities
        self.px = NUM
        self.px = self.attr_kind(grid_cls, count_attr)
        self._protected = self.px.atoms() | self.attr_kind(grid_cls, spacing_attr).atoms()
        self._attr_memo.clear()
        self.derive_relations()
        self._attr_memo.clear()
        self.px = self.attr_kind(grid_cls, count_attr)
        self.spacing = self.attr_kind(grid_cls, spacing_attr)
        for k, what in ((self.px, count_attr), (self.spacing, spacing_attr)):
            if len(k.mono) != 1 or k.mono[0][1] != 1:
                raise AnalysisError(f"{grid_cls.qualname}.{what} is not a base quantity of the grid ({k.describe()})")
        if self.px == self.spacing:
            raise AnalysisError(f"{grid_cls.qualname}: {count_attr} and {spacing_attr} are the same quantity")

    # ------------------------------------------------------------------ per-function dataflow
    def flow(self, f: FuncInfo):
        hit = self._flow.get(id(f.node))
        if hit is None:
            df = DataFlow(f.node)
            nodemap: dict[int, int] = {}
            for n in df.cfg.nodes:
                if n.ast is None or n.kind in ("entry", "exit", "raise"):
                    continue
                roots: list = [n.ast]
                if isinstance(n.ast, (ast.If, ast.While)):
                    roots = [n.ast.test]
                elif isinstance(n.ast, ast.For):
                    roots = [n.ast.iter, n.ast.target]
                elif isinstance(n.ast, ast.With):
                    roots = [i.context_expr for i in n.ast.items]
                elif isinstance(n.ast, (ast.FunctionDef, ast.AsyncFunctionDef, ast.ClassDef, ast.Try, ast.ExceptHandler)):
                    continue
                for r in roots:
                    for m in ast.walk(r):
                        nodemap.setdefault(id(m), n.idx)
            hit = (df, nodemap)
            self._flow[id(f.node)] = hit
        return hit

    # ------------------------------------------------------------------ thunks
    def force(self, t: Thunk) -> Kind:
        if isinstance(t, Kind):
            return t
        fr, e, env = t
        return self.kind(fr, e, env)

    def _thunks(self, fr: Frame, call: ast.Call, callee: FuncInfo, skip_self: bool, env: dict) -> dict[str, Thunk]:
        return {p: (fr, a, env) for p, a in bind_args(call, callee, skip_self=skip_self).items()}

    # ------------------------------------------------------------------ classes of objects
    def ann_types(self, mod, ann: ast.AST, depth: int = 0) -> list[ClassInfo]:
        if depth > 6 or ann is None:
            return []
        if isinstance(ann, ast.Constant):
            if isinstance(ann.value, str):
                try:
                    return self.ann_types(mod, ast.parse(ann.value, mode="eval").body, depth + 1)
                except SyntaxError:
                    return []
            return []
        if isinstance(ann, ast.BinOp) and isinstance(ann.op, ast.BitOr):
            return self.ann_types(mod, ann.left, depth + 1) + self.ann_types(mod, ann.right, depth + 1)
        if isinstance(ann, ast.Subscript) and last_attr(ann.value) in ("Optional", "Union"):
            sl = ann.slice
            elts = list(sl.elts) if isinstance(sl, ast.Tuple) else [sl]
            out: list[ClassInfo] = []
            for x in elts:
                out += self.ann_types(mod, x, depth + 1)
            return out
        nm = dotted(ann)
        if nm is None:
            return []
        t = self.repo.resolve_name(mod, nm)
        if isinstance(t, ClassInfo):
            return [t]
        v = mod.assigns.get(nm)
        if isinstance(v, ast.Call) and last_attr(v) == "TypeVar":
            out = []
            for a in v.args[1:]:
                out += self.ann_types(mod, a, depth + 1)
            for k in v.keywords:
                if k.arg == "bound":
                    out += self.ann_types(mod, k.value, depth + 1)
            return out
        return []

    def types(self, fr: Frame, e: ast.AST, env: dict) -> list[ClassInfo]:
        """Classes an object expression can be an instance of (from `self`, annotations, constructor calls)."""
        if isinstance(e, ast.Name):
            if e.id in env:
                raise AnalysisError(f"{fr.func.qualname}: `{e.id}` is an element of a sequence, not a grid object")
            if fr.selfname is not None and e.id == fr.selfname:
                return [fr.self_cls]  # type: ignore[list-item]
            defs = fr.df.reaching(fr.at(e), e.id)
            out: list[ClassInfo] = []
            for d in defs:
                if d.kind == "param":
                    if e.id in fr.args and not isinstance(fr.args[e.id], Kind):
                        cfr, ce, cenv = fr.args[e.id]
                        out += self.types(cfr, ce, cenv)
                        continue
                    ann = next((a.annotation for a in fr.func.node.args.posonlyargs + fr.func.node.args.args +
                                fr.func.node.args.kwonlyargs if a.arg == e.id), None)
                    got = self.ann_types(fr.func.module, ann)
                    if not got:
                        raise AnalysisError(f"{fr.func.qualname}: the class of parameter `{e.id}` is not known")
                    out += got
                elif d.kind == "assign" and d.strong and d.value is not None:
                    out += self.types(fr, d.value, {})
                else:
                    raise AnalysisError(f"{fr.func.qualname}: the class of `{e.id}` is not known ({d.kind})")
            if not out:
                raise AnalysisError(f"{fr.func.qualname}: the class of `{e.id}` is not known")
            return _uniq(out)
        if isinstance(e, ast.Attribute):
            out = []
            for c in self.types(fr, e.value, env):
                out += self._attr_types(c, e.attr)
            return _uniq(out)
        if isinstance(e, ast.Call):
            nm = dotted(e.func)
            t = self.repo.resolve_name(fr.func.module, nm) if nm else None
            if isinstance(t, ClassInfo):
                return [t]
        raise AnalysisError(f"{fr.func.qualname}: the class of `{norm_text(e)[:50]}` is not known")

    def _attr_types(self, c: ClassInfo, attr: str) -> list[ClassInfo]:
        g = c.find_method(attr, "getter")
        if g is not None and g.is_property:
            got = self.ann_types(g.module, g.node.returns)
            if got:
                return got
            gfr = Frame(self, g, self_cls=c)
            out: list[ClassInfo] = []
            for r in walk_no_nested(g.node):
                if isinstance(r, ast.Return) and r.value is not None:
                    out += self.types(gfr, r.value, {})
            if out:
                return out
            raise AnalysisError(f"{c.qualname}.{attr}: the class of the property value is not known")
        for k in c.mro():
            if attr in k.annotations:
                got = self.ann_types(k.module, k.annotations[attr])
                if got:
                    return got
        for f in self.repo.init_chain(c):
            for st in walk_no_nested(f.node):
                if isinstance(st, ast.Assign) and any(dotted(t) == f"self.{attr}" for t in st.targets) and \
                        isinstance(st.value, ast.Call):
                    t = self.repo.resolve_name(f.module, dotted(st.value.func) or "")
                    if isinstance(t, ClassInfo):
                        return [t]
        raise AnalysisError(f"{c.qualname}.{attr}: the class of the attribute is not known")

    # ------------------------------------------------------------------ kinds of attributes
    def slot_owner(self, c: ClassInfo, attr: str) -> Optional[ClassInfo]:
        owner = None
        for k in c.mro():
            for defs in k.methods.values():
                for f in defs:
                    sn = f.positional_params[0] if f.positional_params else None
                    if sn is None:
                        continue
                    for st in walk_no_nested(f.node):
                        tg = []
                        if isinstance(st, ast.Assign):
                            tg = st.targets
                        elif isinstance(st, (ast.AnnAssign, ast.AugAssign)):
                            tg = [st.target]
                        if any(dotted(t) == f"{sn}.{attr}" for t in tg):
                            owner = k
        return owner

    def slot_atom(self, c: ClassInfo, attr: str) -> str:
        owner = self.slot_owner(c, attr)
        if owner is None:
            raise AnalysisError(f"{c.qualname}.{attr}: neither a property nor an attribute stored by the class")
        return f"{owner.name}.{attr}"

    def attr_kind(self, c: ClassInfo, attr: str, after: Optional[ClassInfo] = None) -> Kind:
        key = (id(c), attr, id(after))
        if key in self._attr_memo:
            return self._attr_memo[key]
        mro = c.mro()
        if after is not None:
            mro = mro[mro.index(after) + 1:]
        g = None
        for k in mro:
            g = k.own_method(attr, "getter")
            if g is not None:
                break
        if g is not None:
            if not g.is_property:
                raise AnalysisError(f"{c.qualname}.{attr} is a method, not a quantity")
            if key in self._busy:
                raise AnalysisError(f"{c.qualname}.{attr}: recursive definition")
            self._busy.add(key)
            try:
                k = self.return_kind(Frame(self, g, self_cls=c))
            finally:
                self._busy.discard(key)
        else:
            k = Kind.atom(self.slot_atom(c, attr)).subst(self.relations)
        self._attr_memo[key] = k
        return k

    def return_kind(self, fr: Frame) -> Kind:
        ks = []
        for r in walk_no_nested(fr.func.node):
            if isinstance(r, ast.Return) and r.value is not None and not (
                    isinstance(r.value, ast.Constant) and r.value.value is None):
                ks.append(self.kind(fr, r.value, {}))
        if not ks:
            raise AnalysisError(f"{fr.func.qualname}: no returned quantity")
        return agree(ks, f"{fr.func.qualname}: return values")

    # ------------------------------------------------------------------ modules
    def is_module(self, fr: Frame, e: ast.AST, env: dict, depth: int = 0) -> bool:
        """Is `e` an array module (np / cp / xp = get_array_module(...)) rather than an array or an object?"""
        if depth > 6:
            return False
        if isinstance(e, ast.Attribute):  # xp.fft
            return self.is_module(fr, e.value, env, depth + 1)
        if not isinstance(e, ast.Name) or e.id in env:
            return False
        try:
            defs = fr.df.reaching(fr.at(e), e.id)
        except AnalysisError:
            return False
        if not defs:
            return e.id in fr.func.module.imports
        ok = True
        for d in defs:
            if d.kind == "import":
                continue
            if d.kind == "assign" and isinstance(d.value, ast.Call):
                t = self.repo.resolve_name(fr.func.module, dotted(d.value.func) or "")
                if isinstance(t, FuncInfo) and t.name == "get_array_module":
                    continue
                ok = False
            elif d.kind == "param":
                if e.id in fr.args and not isinstance(fr.args[e.id], Kind):
                    cfr, ce, cenv = fr.args[e.id]
                    if isinstance(ce, ast.Call):
                        t = self.repo.resolve_name(cfr.func.module, dotted(ce.func) or "")
                        if isinstance(t, FuncInfo) and t.name == "get_array_module":
                            continue
                    if self.is_module(cfr, ce, cenv, depth + 1):
                        continue
                    ok = False
                else:
                    dflt = fr.func.defaults().get(e.id)
                    if isinstance(dflt, ast.Name) and dflt.id in fr.func.module.imports:
                        continue
                    ok = False
            else:
                ok = False
        return ok

    # ------------------------------------------------------------------ kinds of expressions
    def kind(self, fr: Frame, e: ast.AST, env: dict) -> Kind:
        q = fr.func.qualname
        if isinstance(e, _Unreadable):
            raise AnalysisError(f"{q}: loop variable `{e.name}` of `{e.it[:50]}` cannot be paired with its sequence")
        if isinstance(e, _AugView):
            st = e.st
            a, b = self.kind(fr, st.target, {}), self.kind(fr, st.value, {})
            if isinstance(st.op, ast.Mult):
                return a * b
            if isinstance(st.op, (ast.Div, ast.FloorDiv)):
                return a / b
            if isinstance(st.op, (ast.Add, ast.Sub)):
                return agree([a, b], f"{q}: `{norm_text(st)[:60]}`")
            raise AnalysisError(f"{q}: `{norm_text(st)[:60]}` not modelled")
        if isinstance(e, ast.Constant):
            if isinstance(e.value, (int, float)) and not isinstance(e.value, bool):
                return LIT
            raise AnalysisError(f"{q}: `{norm_text(e)[:30]}` is not a quantity")
        if isinstance(e, ast.Name):
            return self._name_kind(fr, e, env)
        if isinstance(e, ast.Attribute):
            if e.attr == "shape":
                return self.px
            if e.attr in ("real", "imag", "T"):
                return self.kind(fr, e.value, env)
            if e.attr in _MODULE_CONSTS and self.is_module(fr, e.value, env):
                return LIT
            if isinstance(e.value, ast.Call) and dotted(e.value.func) == "super" and fr.self_cls is not None \
                    and fr.func.cls is not None:
                return self.attr_kind(fr.self_cls, e.attr, after=fr.func.cls)
            ks = [self.attr_kind(c, e.attr) for c in self.types(fr, e.value, env)]
            return agree(ks, f"{q}: `{norm_text(e)[:50]}` over the classes of the object")
        if isinstance(e, ast.BinOp):
            if isinstance(e.op, ast.Pow):
                b = self.kind(fr, e.left, env)
                x = _const_number(e.right)
                if x is None:
                    if not b.mono:
                        return NUM
                    raise AnalysisError(f"{q}: power `{norm_text(e)[:50]}` with a non-literal exponent")
                return b.pow(x)
            a, b = self.kind(fr, e.left, env), self.kind(fr, e.right, env)
            if isinstance(e.op, ast.Mult):
                return a * b
            if isinstance(e.op, (ast.Div, ast.FloorDiv)):
                return a / b
            if isinstance(e.op, (ast.Add, ast.Sub)):
                return agree([a, b], f"{q}: `{norm_text(e)[:60]}`")
            if isinstance(e.op, ast.Mod):
                return a
            raise AnalysisError(f"{q}: operator in `{norm_text(e)[:50]}` not modelled")
        if isinstance(e, ast.UnaryOp) and isinstance(e.op, (ast.USub, ast.UAdd)):
            return self.kind(fr, e.operand, env)
        if isinstance(e, (ast.Subscript, ast.Starred)):
            return self.kind(fr, e.value, env)
        if isinstance(e, (ast.Tuple, ast.List)):
            return agree([self.kind(fr, x, env) for x in e.elts], f"{q}: elements of `{norm_text(e)[:50]}`")
        if isinstance(e, ast.IfExp):
            return agree([self.kind(fr, e.body, env), self.kind(fr, e.orelse, env)], f"{q}: arms of `{norm_text(e)[:50]}`")
        if isinstance(e, (ast.GeneratorExp, ast.ListComp, ast.SetComp)):
            return self.kind(fr, e.elt, self.comp_env(fr, e, env))
        if isinstance(e, ast.Call):
            return self._call_kind(fr, e, env)
        raise AnalysisError(f"{q}: `{norm_text(e)[:50]}` is not a quantity the kind analysis reads")

    def comp_env(self, fr: Frame, comp, env: dict) -> dict:
        env2 = dict(env)
        for g in comp.generators:
            for name, thunk in self._bind_iter(fr, g.target, g.iter, env2):
                env2[name] = thunk
        return env2

    def _bind_iter(self, fr: Frame, target: ast.AST, it: ast.AST, env: dict) -> list[tuple[str, Thunk]]:
        q = fr.func.qualname
        if isinstance(it, ast.Call) and last_attr(it) in ("reversed", "sorted", "list", "tuple") and len(it.args) == 1:
            return self._bind_iter(fr, target, it.args[0], env)
        if isinstance(target, ast.Name):
            if isinstance(it, ast.Call) and last_attr(it) in ("zip", "enumerate"):
                raise AnalysisError(f"{q}: `{target.id}` is a tuple of different quantities")
            if isinstance(it, ast.Call) and last_attr(it) == "range":
                return [(target.id, NUM)]
            return [(target.id, (fr, it, dict(env)))]
        if isinstance(target, (ast.Tuple, ast.List)) and isinstance(it, ast.Call) and not it.keywords:
            if last_attr(it) == "zip" and len(it.args) == len(target.elts):
                out = []
                for t, a in zip(target.elts, it.args):
                    out += self._bind_iter(fr, t, a, env)
                return out
            if last_attr(it) == "enumerate" and len(it.args) == 1 and len(target.elts) == 2 and \
                    isinstance(target.elts[0], ast.Name):
                return [(target.elts[0].id, NUM)] + self._bind_iter(fr, target.elts[1], it.args[0], env)
        raise AnalysisError(f"{q}: cannot pair the loop variables of `{norm_text(it)[:50]}` with their sequences")

    def _name_kind(self, fr: Frame, e: ast.Name, env: dict) -> Kind:
        q = fr.func.qualname
        if e.id in env:
            return self.force(env[e.id])
        defs = fr.df.reaching(fr.at(e), e.id)
        if not defs:
            v = fr.func.module.assigns.get(e.id)
            if v is not None and _const_number(v) is not None:
                return LIT
            raise AnalysisError(f"{q}: `{e.id}` has no definition the kind analysis reads")
        ks = []
        for d in defs:
            busy = (id(fr), d.node, d.var, d.kind)
            if busy in self._busy:
                continue  # loop-carried: the other definitions decide
            self._busy.add(busy)
            try:
                if d.kind == "param":
                    if e.id in fr.args:
                        ks.append(self.force(fr.args[e.id]))
                    else:
                        dflt = fr.func.defaults().get(e.id)
                        if dflt is not None and _const_number(dflt) is not None:
                            ks.append(LIT)
                        else:
                            raise AnalysisError(f"{q}: the kind of parameter `{e.id}` is not determined by a caller")
                elif d.kind == "assign" and d.value is not None:
                    ks.append(self.kind(fr, d.value, {}))
                elif d.kind == "walrus" and d.value is not None:
                    ks.append(self.kind(fr, d.value, {}))
                elif d.kind == "for":
                    st = fr.df.cfg.nodes[d.node].ast
                    got = dict(self._bind_iter(fr, st.target, st.iter, {}))
                    if e.id not in got:
                        raise AnalysisError(f"{q}: loop variable `{e.id}` not paired with a sequence")
                    ks.append(self.force(got[e.id]))
                elif d.kind == "aug" and isinstance(d.value, ast.AugAssign):
                    ks.append(self.kind(fr, _AugView(d.value), {}))
                elif d.kind == "store" and isinstance(d.value, ast.Tuple) and d.value.elts:
                    ks.append(self.kind(fr, d.value.elts[0], {}))
                else:
                    raise AnalysisError(f"{q}: `{e.id}` is defined by a construct the kind analysis does not read ({d.kind})")
            finally:
                self._busy.discard(busy)
        return agree(ks, f"{q}: definitions of `{e.id}`")

    def _call_kind(self, fr: Frame, e: ast.Call, env: dict) -> Kind:
        q = fr.func.qualname
        name = last_attr(e)
        if is_fftfreq(e):
            n, d = fftfreq_slots(e)
            dk = self.kind(fr, d, env) if d is not None else LIT
            return NUM / dk if dk.mono else NUM
        fn = e.func
        if isinstance(fn, ast.Attribute) and not self.is_module(fr, fn.value, env):
            # a method of an array / of an object
            if name in _METHOD_PASS:
                return self.kind(fr, fn.value, env)
            cands = self.resolve_callee(fr, e, env)
            if cands:
                return agree([self._callee_kind(fr, e, f, c, env) for f, c in cands], f"{q}: `{norm_text(e)[:50]}`")
            if dotted(fn) in ("config.get", "abtem.config.get"):
                return NUM
            raise AnalysisError(f"{q}: the kind of `{norm_text(e)[:60]}` is not known")
        # plain function or function of an array module
        if name in _FUNC_PASS and e.args:
            return self.kind(fr, e.args[0], env)
        if name == "sqrt" and len(e.args) == 1:
            return self.kind(fr, e.args[0], env).pow(Fraction(1, 2))
        if name == "square" and len(e.args) == 1:
            return self.kind(fr, e.args[0], env).pow(2)
        if name == "hypot" and len(e.args) == 2:
            return agree([self.kind(fr, a, env) for a in e.args], f"{q}: `{norm_text(e)[:50]}`")
        if name == "len" and len(e.args) == 1:
            return self.px
        if name == "range":
            return NUM
        cands = self.resolve_callee(fr, e, env)
        if cands:
            return agree([self._callee_kind(fr, e, f, c, env) for f, c in cands], f"{q}: `{norm_text(e)[:50]}`")
        raise AnalysisError(f"{q}: the kind of `{norm_text(e)[:60]}` is not known")

    def _callee_kind(self, fr: Frame, call: ast.Call, f: FuncInfo, self_cls: Optional[ClassInfo], env: dict) -> Kind:
        skip = f.cls is not None and "staticmethod" not in f.decorators
        args = self._thunks(fr, call, f, skip, env)
        try:
            return self.return_kind(Frame(self, f, self_cls=self_cls, args=args, depth=fr.depth + 1))
        except AnalysisError as err:
            # an opaque module-level function of gridless arguments is a unit of its own (energy2wavelength(energy));
            # a method may read any grid quantity of its object, so it is never opaque
            if self_cls is not None or f.cls is not None or not args:
                raise
            atoms: set[str] = set()
            for t in args.values():
                try:
                    atoms |= self.force(t).atoms()
                except AnalysisError:
                    fr2, e2, _ = t  # type: ignore[misc]
                    if isinstance(e2, ast.Constant) or self.is_module(fr2, e2, {}):
                        continue
                    raise err
            grid_atoms = self.related | {a for a in atoms if a.startswith(self.grid_cls.name + ".")}
            if atoms & grid_atoms:
                raise err
            return Kind.atom(f"{f.name}(…)")

    # ------------------------------------------------------------------ callees
    def resolve_callee(self, fr: Frame, call: ast.Call, env: dict) -> list[tuple[FuncInfo, Optional[ClassInfo]]]:
        fn = call.func
        nm = dotted(fn)
        if nm is not None:
            root = nm.split(".")[0]
            if fr.selfname is not None and root == fr.selfname and nm.count(".") == 1 and fr.self_cls is not None:
                f = fr.self_cls.find_method(fn.attr, "any")  # type: ignore[union-attr]
                return [(f, fr.self_cls)] if f is not None and not f.is_property else []
            try:
                base = fn
                while isinstance(base, ast.Attribute):
                    base = base.value
                local = bool(fr.df.reaching(fr.at(base), root)) if isinstance(base, ast.Name) else False
            except AnalysisError:
                local = False
            if not local:
                t = self.repo.resolve_name(fr.func.module, nm)
                if isinstance(t, FuncInfo):
                    return [(t, None)]
                if t is not None:
                    return []
        if isinstance(fn, ast.Attribute):
            try:
                classes = self.types(fr, fn.value, env)
            except AnalysisError:
                return []
            out = []
            for c in classes:
                f = c.find_method(fn.attr, "any")
                if f is not None and not f.is_property:
                    out.append((f, c))
            return out
        return []

    def has_freq(self, f: FuncInfo, _stack: Optional[set] = None) -> bool:
        """Does `f` (transitively, through statically resolvable calls) build a frequency grid with fftfreq?"""
        if id(f.node) in self._hasfreq:
            return self._hasfreq[id(f.node)]
        stack = _stack if _stack is not None else set()
        if id(f.node) in stack:
            return False
        stack.add(id(f.node))
        res = False
        for c in walk_no_nested(f.node):
            if not isinstance(c, ast.Call):
                continue
            if is_fftfreq(c):
                res = True
                break
            nm = dotted(c.func)
            if nm is None:
                continue
            t = None
            if f.cls is not None and nm.count(".") == 1 and f.positional_params and nm.split(".")[0] == f.positional_params[0]:
                t = f.cls.find_method(nm.split(".")[1], "any")
            else:
                t = self.repo.resolve_name(f.module, nm)
            if isinstance(t, FuncInfo) and self.has_freq(t, stack):
                res = True
                break
        stack.discard(id(f.node))
        if _stack is None or res:
            self._hasfreq[id(f.node)] = res
        return res

    # ------------------------------------------------------------------ sites
    def sites(self, fr: Frame, chain: tuple = (), entry_call: Optional[ast.Call] = None) -> list[Site]:
        out: list[Site] = []
        if len(chain) > 8:
            raise AnalysisError(f"{fr.func.qualname}: call chain towards a frequency grid too deep")

        def visit(node: ast.AST, env: dict) -> None:
            if isinstance(node, (ast.FunctionDef, ast.AsyncFunctionDef, ast.ClassDef, ast.Lambda)) and node is not fr.func.node:
                return
            if isinstance(node, (ast.GeneratorExp, ast.ListComp, ast.SetComp, ast.DictComp)):
                env2 = self.comp_env_lenient(fr, node, env)
                for ch in ast.iter_child_nodes(node):
                    visit(ch, env2)
                return
            if isinstance(node, ast.Call):
                if is_fftfreq(node):
                    n, d = fftfreq_slots(node)
                    if n is None:
                        raise AnalysisError(f"{fr.func.qualname}: `{norm_text(node)[:50]}` without a point count")
                    out.append(Site(chain, fr, node, (fr, n, env), (fr, d, env) if d is not None else LIT,
                                    entry_call))
                else:
                    for f, c in self.resolve_callee(fr, node, env):
                        if any(f is g for g in chain) or f is fr.func:
                            continue
                        if self.has_freq(f):
                            skip = f.cls is not None and "staticmethod" not in f.decorators
                            cfr = Frame(self, f, self_cls=c, args=self._thunks(fr, node, f, skip, env), depth=fr.depth + 1)
                            out.extend(self.sites(cfr, chain + (f,), entry_call if entry_call is not None else node))
            for ch in ast.iter_child_nodes(node):
                visit(ch, env)

        for st in fr.func.node.body:
            visit(st, {})
        return out

    def comp_env_lenient(self, fr: Frame, comp, env: dict) -> dict:
        """Comprehension variables while looking for sites: an unpairable loop only matters if a site needs it."""
        env2 = dict(env)
        for g in comp.generators:
            try:
                for name, thunk in self._bind_iter(fr, g.target, g.iter, env2):
                    env2[name] = thunk
            except AnalysisError:
                for m in ast.walk(g.target):
                    if isinstance(m, ast.Name):
                        env2[m.id] = (fr, _Unreadable(m.id, norm_text(g.iter)), {})
        return env2

    # ------------------------------------------------------------------ relations between the slots of the grid class
    def derive_relations(self) -> None:
        g = self.grid_cls
        eqs: list[tuple[str, Kind, FuncInfo, ast.AST]] = []
        for defs in g.methods.values():
            for m in defs:
                if not m.positional_params or "staticmethod" in m.decorators:
                    continue
                try:
                    fr = Frame(self, m, self_cls=g)
                except AnalysisError:
                    continue
                sn = m.positional_params[0]
                for call in walk_no_nested(m.node):
                    if not (isinstance(call, ast.Call) and isinstance(call.func, ast.Attribute)
                            and dotted(call.func.value) == sn):
                        continue
                    callee = g.find_method(call.func.attr, "any")
                    if callee is None or callee.is_property or callee.cls is not g or not callee.positional_params:
                        continue
                    csn = callee.positional_params[0]
                    try:
                        cfr = Frame(self, callee, self_cls=g, args=self._thunks(fr, call, callee, True, {}), depth=1)
                    except AnalysisError:
                        continue
                    for st in walk_no_nested(callee.node):
                        if not (isinstance(st, ast.Assign) and len(st.targets) == 1):
                            continue
                        tg = dotted(st.targets[0])
                        if tg is None or not tg.startswith(csn + ".") or tg.count(".") != 1:
                            continue
                        try:
                            k = self.kind(cfr, st.value, {})
                        except (AnalysisError, RecursionError):
                            continue
                        if k.lit or not k.mono:
                            continue
                        eqs.append((f"{g.name}.{tg.split('.')[1]}", k, callee, st))
        for lhs, k, callee, st in eqs:
            ratio = (Kind.atom(lhs) / k).subst(self.relations)
            if not ratio.mono:
                if Kind.atom(lhs) != k:
                    self._note(lhs, k, callee, st)
                continue
            exps = dict(ratio.mono)
            # eliminate the slot that is being stored if it is still free, else any atom with exponent ±1
            free = [a for a, x in ratio.mono if abs(x) == 1 and a not in self._protected]
            pick = lhs if (lhs in exps and lhs not in self._protected and abs(exps[lhs]) == 1) else (
                free[0] if free else next((a for a, x in ratio.mono if abs(x) == 1), None))
            if pick is None:
                raise AnalysisError(f"{callee.qualname}: store `{norm_text(st)[:60]}` relates the grid quantities in a way "
                                    "the kind analysis cannot solve")
            if lhs not in exps and any(a.startswith(g.name + ".") for a in exps):
                raise AnalysisError(f"{callee.qualname}: store `{norm_text(st)[:60]}` contradicts the relations between the "
                                    f"grid quantities derived so far ({ratio.describe()} would have to be a pure number)")
            x = exps.pop(pick)
            sol = Kind(list(exps.items())).pow(Fraction(-1) / x)
            self.relations = {a: v.subst({pick: sol}) for a, v in self.relations.items()}
            self.relations[pick] = sol
            self._note(lhs, k, callee, st)

    def _note(self, lhs: str, k: Kind, callee: FuncInfo, st: ast.AST) -> None:
        self.related |= {lhs} | k.atoms()
        if not any(a == lhs and b == k and c is callee for a, b, c, _ in self.equations):
            self.equations.append((lhs, k, callee, st))

    def decidable(self, k: Kind) -> bool:
        """May two different kinds be called different?  Only if every grid slot in them takes part in the derived
        relations (a slot of the grid class with no known relation to the others could still be the same unit)."""
        for a in k.atoms():
            if a.startswith(self.grid_cls.name + ".") and a not in self.related:
                return False
        return True


class _Unreadable(ast.AST):
    """Placeholder expression for a comprehension variable whose sequence could not be paired."""
    _fields = ()

    def __init__(self, name: str, it: str):
        super().__init__()
        self.name, self.it = name, it


class _AugView(ast.AST):
    _fields = ()

    def __init__(self, st: ast.AugAssign):
        super().__init__()
        self.st = st


# ====================================================================== small helpers
def _uniq(cs: list) -> list:
    out = []
    for c in cs:
        if not any(c is x for x in out):
            out.append(c)
    return out


def _const_number(e: ast.AST):
    if isinstance(e, ast.Constant) and isinstance(e.value, (int, float)) and not isinstance(e.value, bool):
        return Fraction(e.value).limit_denominator(10 ** 6)
    if isinstance(e, ast.UnaryOp) and isinstance(e.op, (ast.USub, ast.UAdd)):
        v = _const_number(e.operand)
        if v is None:
            return None
        return -v if isinstance(e.op, ast.USub) else v
    if isinstance(e, ast.BinOp) and isinstance(e.op, ast.Div):
        a, b = _const_number(e.left), _const_number(e.right)
        if a is not None and b:
            return a / b
    return None


def is_fftfreq(call: ast.Call) -> bool:
    return isinstance(call, ast.Call) and last_attr(call) in ("fftfreq", "rfftfreq")


def fftfreq_slots(call: ast.Call):
    n = call.args[0] if call.args else None
    d = call.args[1] if len(call.args) > 1 else None
    for k in call.keywords:
        if k.arg == "n":
            n = k.value
        elif k.arg == "d":
            d = k.value
    return n, d
