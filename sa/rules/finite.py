"""R-FINITE — no division by a quantity that vanishes for a legitimate input.

`denominators(df, at, expr)` lists every divisor that evaluating `expr` at CFG node `at` divides by (the right
operand of `/`, the base of a negative constant power), reading locals through their reaching definitions.
`may_vanish(...)` classifies a divisor as

    ZERO     it takes the value 0 for some legitimate input: it derives, through zero-preserving operations
             (products, indexing/broadcasting, odd elementary functions such as tan/sin/arctan/sqrt, casts), from a
             declared may-vanish source — a call of one of `zero_calls` (spatial_frequencies: every frequency grid
             contains the DC component) or one of the parameters `zero_params` (a tilt angle, a potential value);
    NONZERO  a non-zero literal, pi, the result of one of `nonzero_calls`, one of `nonzero_params`, or a product /
             quotient / power of such;
    UNKNOWN  anything else (the caller turns this into an AnalysisError).

A sum vanishes when all its terms vanish together (kx**4 + ky**4 at the DC component); a sum with a NONZERO term is
UNKNOWN (1 - x), never NONZERO.
"""
from __future__ import annotations

import ast
from typing import Iterable

from ..cfg import DataFlow
from ..model import call_name, last_attr

ZERO, NONZERO, UNKNOWN = "zero", "nonzero", "unknown"
ZERO_PRESERVING = {"tan", "sin", "arctan", "arcsin", "sinh", "tanh", "arctanh", "arcsinh", "sqrt", "abs", "absolute",
                   "asarray", "array", "ascontiguousarray", "asanyarray", "float", "square", "real", "deg2rad", "rad2deg",
                   "radians", "degrees", "negative", "squeeze", "ravel", "reshape", "astype", "copy", "conj", "conjugate",
                   "expand_dims", "transpose", "float32", "float64"}


def _defs(df: DataFlow, at: int, name: str):
    return [d for d in df.reaching(at, name)]


def denominators(df: DataFlow, at: int, expr: ast.AST, _seen=None) -> list[tuple[ast.expr, int]]:
    """(divisor expression, CFG node at which it is evaluated) for every division inside `expr`."""
    seen = _seen if _seen is not None else set()
    out: list[tuple[ast.expr, int]] = []

    def walk(e: ast.AST, at_: int) -> None:
        if isinstance(e, ast.BinOp):
            if isinstance(e.op, (ast.Div, ast.FloorDiv, ast.Mod)):
                out.append((e.right, at_))
            if isinstance(e.op, ast.Pow):
                ex = e.right
                neg = isinstance(ex, ast.UnaryOp) and isinstance(ex.op, ast.USub) and isinstance(ex.operand, ast.Constant)
                if neg or (isinstance(ex, ast.Constant) and isinstance(ex.value, (int, float)) and ex.value < 0):
                    out.append((e.left, at_))
            walk(e.left, at_)
            walk(e.right, at_)
            return
        if isinstance(e, ast.Name):
            for d in _defs(df, at_, e.id):
                if d.kind in ("assign", "walrus", "aug") and d.value is not None and (d.node, e.id) not in seen:
                    seen.add((d.node, e.id))
                    if d.kind == "aug":
                        st = df.cfg.nodes[d.node].ast
                        if isinstance(st, ast.AugAssign) and isinstance(st.op, (ast.Div, ast.FloorDiv)):
                            out.append((st.value, d.node))
                    walk(d.value, d.node)
            return
        for c in ast.iter_child_nodes(e):
            if isinstance(c, (ast.expr, ast.keyword)):
                walk(c.value if isinstance(c, ast.keyword) else c, at_)

    walk(expr, at)
    return out


def may_vanish(df: DataFlow, at: int, expr: ast.AST, zero_params: Iterable[str], nonzero_params: Iterable[str],
               zero_calls: Iterable[str], nonzero_calls: Iterable[str], _depth: int = 0, _seen=None) -> str:
    zp, nzp, zc, nzc = set(zero_params), set(nonzero_params), set(zero_calls), set(nonzero_calls)
    seen = _seen if _seen is not None else set()

    def rec(e, at_, depth):
        return _cls(e, at_, depth)

    def combine_product(parts: list[str]) -> str:
        if ZERO in parts:
            return ZERO
        return NONZERO if all(p == NONZERO for p in parts) else UNKNOWN

    def _cls(e: ast.AST, at_: int, depth: int) -> str:
        if depth > 24:
            return UNKNOWN
        if isinstance(e, ast.Constant):
            if isinstance(e.value, (int, float, complex)) and not isinstance(e.value, bool):
                return ZERO if e.value == 0 else NONZERO
            return UNKNOWN
        if isinstance(e, ast.Attribute):
            if e.attr == "pi":
                return NONZERO
            if e.attr in ("T", "real"):
                return _cls(e.value, at_, depth + 1)
            return UNKNOWN
        if isinstance(e, ast.UnaryOp) and isinstance(e.op, (ast.USub, ast.UAdd)):
            return _cls(e.operand, at_, depth + 1)
        if isinstance(e, ast.BinOp):
            if isinstance(e.op, ast.Mult):
                return combine_product([_cls(e.left, at_, depth + 1), _cls(e.right, at_, depth + 1)])
            if isinstance(e.op, ast.Div):
                l, r = _cls(e.left, at_, depth + 1), _cls(e.right, at_, depth + 1)
                if l == ZERO:
                    return ZERO
                return NONZERO if (l, r) == (NONZERO, NONZERO) else UNKNOWN
            if isinstance(e.op, ast.Pow):
                return _cls(e.left, at_, depth + 1)
            if isinstance(e.op, (ast.Add, ast.Sub)):
                l, r = _cls(e.left, at_, depth + 1), _cls(e.right, at_, depth + 1)
                return ZERO if (l, r) == (ZERO, ZERO) else UNKNOWN
            return UNKNOWN
        if isinstance(e, ast.Subscript):
            return _cls(e.value, at_, depth + 1)  # indexing / broadcasting keeps the zeros
        if isinstance(e, ast.Call):
            short = last_attr(e) or (call_name(e) or "").split(".")[-1]
            if short in zc:
                return ZERO
            if short in nzc:
                return NONZERO
            if short == "cast" and len(e.args) == 2:  # typing.cast(T, x) is x
                return _cls(e.args[1], at_, depth + 1)
            if short in ZERO_PRESERVING:
                inner = e.args[0] if e.args else (e.func.value if isinstance(e.func, ast.Attribute) else None)
                if inner is not None:
                    r = _cls(inner, at_, depth + 1)
                    return r if r == ZERO else (r if short not in ("tan", "sin", "sinh", "tanh") else
                                                (UNKNOWN if r == NONZERO else r))
            return UNKNOWN
        if isinstance(e, ast.Name):
            ds = _defs(df, at_, e.id)
            if not ds:
                return UNKNOWN
            res = []
            for d in ds:
                if d.kind == "param":
                    res.append(ZERO if e.id in zp else NONZERO if e.id in nzp else UNKNOWN)
                elif d.kind in ("assign", "walrus") and d.value is not None:
                    if (d.node, e.id) in seen:
                        continue
                    seen.add((d.node, e.id))
                    res.append(_cls(d.value, d.node, depth + 1))
                    seen.discard((d.node, e.id))
                else:
                    res.append(UNKNOWN)
            if ZERO in res:
                return ZERO
            return NONZERO if res and all(r == NONZERO for r in res) else UNKNOWN
        return UNKNOWN

    return rec(expr, at, _depth)
