"""Store emptiness — a reader that *counts by probing* needs a writer that starts from an empty table.

Shared vocabulary for C30 (R-STORECLEARED).  Two halves of one writer/reader agreement:

  reader_probe(func)      how the reader decides how many objects a store holds.  Recognised: a loop whose every exit is
                          "the key f"<prefix>{counter}" is missing" (`K not in X.attrs: break`, `while K in X.attrs`,
                          `try: X.attrs[K] except KeyError: break`), X being a parameter of the reader.  The probed table
                          is "attrs" (attributes of the group) or "members" (arrays / sub-groups of the group).  Any
                          other way of ending the loop is outside the analyser's reach (AnalysisError).

  writer_verdicts(...)    abstract interpretation of one writer function over the domain
                              location  ->  removed on this path? (shutil.rmtree / os.remove / os.unlink)
                              store     ->  holds no earlier entries?  (ZipStore mode "w"/"x"; a removed location)
                              group     ->  probed table holds no earlier entries?  (open/open_group mode "w"/"w-",
                                            group/create_group overwrite=True, an empty store, `.attrs.clear()`)
                          for every valuation of the truth-tested parameters (`overwrite` ...), on the assumption that
                          the location already holds a store with more entries (the only case in which staleness can
                          show; `os.path.exists(location)` is therefore true until the location was removed).  At every
                          statement that adds an entry to the probed table of a group the group must be known to be
                          empty.  Constant arguments of the call site are bound to the parameters; the `mode` /
                          `overwrite` arguments are evaluated through the local assignments executed on the path.

zarr semantics used (zarr 3): open/open_group modes "w" (delete what is there) and "w-" (refuse an existing store) give an
empty group, "a" (default) and "r+" keep every entry; group()/create_group(overwrite=True) deletes or — on a store
without delete support — refuses; ZipStore mode "w" truncates the file, "x" refuses an existing file, "a" keeps it.

Nothing here looks at variable names: groups, stores and locations are identified by the calls that produce them.
"""
from __future__ import annotations

import ast
from dataclasses import dataclass, field, replace
from typing import Optional

from ..model import AnalysisError, FuncInfo, dotted, norm_text, walk_no_nested
from . import listacct as la

GROUP_TRUNCATING = {"w", "w-"}
GROUP_KEEPING = {"a", "r+"}
ZIP_TRUNCATING = {"w", "x"}
ZIP_KEEPING = {"a"}
MAX_ATOMS = 6
MAX_PATHS = 256


# ====================================================================================================== reader
def _fprefix(e: ast.AST) -> Optional[tuple[str, ast.AST]]:
    if isinstance(e, ast.JoinedStr) and len(e.values) == 2 and isinstance(e.values[0], ast.Constant) and \
            isinstance(e.values[1], ast.FormattedValue) and str(e.values[0].value).isidentifier():
        return e.values[0].value, e.values[1].value
    return None


def _table_of(e: ast.AST, params: list[str]) -> Optional[str]:
    """'attrs' for X.attrs / X.attrs.keys() / list(X.attrs), 'members' for X / X.keys() — X a parameter."""
    while isinstance(e, ast.Call) and ((isinstance(e.func, ast.Attribute) and e.func.attr == "keys" and not e.args) or (
            dotted(e.func) in ("list", "tuple", "set", "dict") and len(e.args) == 1)):
        e = e.func.value if isinstance(e.func, ast.Attribute) else e.args[0]
    if isinstance(e, ast.Attribute) and e.attr == "attrs" and isinstance(e.value, ast.Name) and e.value.id in params:
        return "attrs"
    if isinstance(e, ast.Name) and e.id in params:
        return "members"
    return None


def _key_prefix(k: ast.AST, executed) -> Optional[str]:
    fp = _fprefix(k)
    if fp is None and isinstance(k, ast.Name):
        asg = [s for s in executed if isinstance(s, ast.Assign) and len(s.targets) == 1 and
               isinstance(s.targets[0], ast.Name) and s.targets[0].id == k.id]
        fp = _fprefix(asg[-1].value) if asg else None
    return fp[0] if fp else None


def _probe(test: ast.AST, taken: bool, executed, params) -> Optional[tuple[str, str]]:
    """(table, prefix) if `test` evaluating to `taken` means "the numbered key is missing"."""
    t, pos = la.strip_not(test)
    if not (isinstance(t, ast.Compare) and len(t.ops) == 1 and isinstance(t.ops[0], (ast.In, ast.NotIn))):
        return None
    present = isinstance(t.ops[0], ast.In)
    if not pos:
        present = not present
    if not taken:
        present = not present
    table = _table_of(t.comparators[0], params)
    prefix = _key_prefix(t.left, executed)
    if present or table is None or prefix is None:
        return None
    return table, prefix


def reader_probe(fn: FuncInfo) -> dict:
    """{'tables': {(table, prefix)}, 'node': loop} — see module docstring."""
    K = fn.qualname
    loops = [l for l in fn.node.body if isinstance(l, (ast.While, ast.For))]
    if len(loops) != 1 or not isinstance(loops[0], ast.While):
        raise AnalysisError(f"{K}: how the reader decides the number of stored objects is not understood (expected one "
                            "`while` loop over the stored objects)")
    loop = loops[0]
    params = fn.positional_params
    found: set[tuple[str, str]] = set()
    n_exits = 0
    if not (isinstance(loop.test, ast.Constant) and loop.test.value is True):
        n_exits += 1
        p = _probe(loop.test, False, [], params)
        if p is None:
            raise AnalysisError(f"{K}: the loop test `{norm_text(loop.test)[:60]}` is not a probe for a numbered key")
        found.add(p)
    tries = [t for t in ast.walk(loop) if isinstance(t, ast.Try)]
    for conds, ex, end in la.body_paths(loop.body, lambda s: False):
        if end != "break":
            continue
        n_exits += 1
        hit = None
        for c in conds:
            if c[0] == "raised":
                st = c[1]
                t = next((t for t in tries if any(b is st for b in t.body)), None)
                names = {dotted(h.type) if h.type is not None else "BaseException" for h in (t.handlers if t else [])}
                if not names & {"KeyError", "LookupError", "Exception", "BaseException"}:
                    continue
                for s in ast.walk(st):
                    if isinstance(s, ast.Subscript):
                        table, prefix = _table_of(s.value, params), _key_prefix(s.slice, ex)
                        if table and prefix:
                            hit = (table, prefix)
            else:
                hit = _probe(c[0], c[1], ex, params) or hit
        if hit is None:
            raise AnalysisError(f"{K}: the loop over the stored objects can end for a reason other than a missing numbered "
                                "key; how the number of objects is decided is not understood")
        found.add(hit)
    if not n_exits or not found:
        raise AnalysisError(f"{K}: the loop over the stored objects has no exit the analyser recognises")
    return {"tables": found, "node": loop}


# ====================================================================================================== writer
@dataclass(frozen=True)
class Val:
    kind: str  # const | loc | store | group | unknown
    value: object = None  # const: the constant; loc: parameter name
    empty: Optional[bool] = None  # store/group: holds no earlier entries (None: cannot tell)
    attrs_empty: Optional[bool] = None  # group: attributes hold no earlier entries
    why: str = ""


UNKNOWN = Val("unknown")


class _NeedAtom(Exception):
    def __init__(self, name: str):
        self.name = name


@dataclass
class _State:
    env: dict = field(default_factory=dict)
    removed: frozenset = frozenset()
    assumed: tuple = ()  # undecidable tests this path went through

    def fork(self, **kw):
        return replace(self, env=dict(self.env), **kw)


@dataclass
class Site:
    node: ast.AST
    verdict: Optional[bool]  # True empty / False keeps earlier entries / None cannot tell
    why: str
    valuation: dict
    assumed: tuple


class _Interp:
    def __init__(self, fn: ast.FunctionDef, imports: dict[str, str], table: str, valuation: dict, used: set):
        self.fn, self.imports, self.table, self.val, self.used = fn, imports, table, valuation, used
        self.sites: list[Site] = []
        a = fn.args
        self.params = {x.arg for x in a.posonlyargs + a.args + a.kwonlyargs}
        self.assigned = {n.id for n in walk_no_nested(fn) if isinstance(n, ast.Name) and isinstance(n.ctx, ast.Store)}

    # ------------------------------------------------------------------ names
    def resolve(self, func: ast.AST) -> Optional[str]:
        d = dotted(func)
        if d is None:
            return None
        head, _, rest = d.partition(".")
        if head in self.assigned and head not in self.imports:
            return None
        full = self.imports.get(head, head)
        return full + ("." + rest if rest else "")

    # ------------------------------------------------------------------ expressions
    def truth(self, e: ast.AST, st: _State) -> Optional[bool]:
        if isinstance(e, ast.Constant):
            return bool(e.value)
        if isinstance(e, ast.UnaryOp) and isinstance(e.op, ast.Not):
            t = self.truth(e.operand, st)
            return None if t is None else not t
        if isinstance(e, ast.BoolOp):
            vals = [self.truth(v, st) for v in e.values]
            if isinstance(e.op, ast.And):
                return False if any(v is False for v in vals) else (True if all(v is True for v in vals) else None)
            return True if any(v is True for v in vals) else (False if all(v is False for v in vals) else None)
        if isinstance(e, ast.Name):
            if e.id in st.env:
                v = st.env[e.id]
                return bool(v.value) if v.kind == "const" else None
            if e.id in self.assigned:
                return None
            if e.id not in self.val:
                raise _NeedAtom(e.id)
            self.used.add(e.id)
            return bool(self.val[e.id])
        if isinstance(e, ast.Compare) and len(e.ops) == 1:
            a, b = e.left, e.comparators[0]
            op = e.ops[0]
            # <truth-valued name> is/== True/False
            for x, y in ((a, b), (b, a)):
                if isinstance(y, ast.Constant) and isinstance(y.value, bool) and isinstance(op, (ast.Is, ast.IsNot, ast.Eq, ast.NotEq)) \
                        and isinstance(x, ast.Name) and x.id not in st.env:
                    t = self.truth(x, st)
                    if t is None:
                        return None
                    same = (t == y.value)
                    return same if isinstance(op, (ast.Is, ast.Eq)) else not same
            va, vb = self.value(a, st), self.value(b, st)
            if va.kind == "const" and vb.kind == "const":
                try:
                    if isinstance(op, (ast.Eq, ast.Is)):
                        return va.value == vb.value
                    if isinstance(op, (ast.NotEq, ast.IsNot)):
                        return va.value != vb.value
                    if isinstance(op, ast.In):
                        return va.value in vb.value
                    if isinstance(op, ast.NotIn):
                        return va.value not in vb.value
                except TypeError:
                    return None
            return None
        if isinstance(e, ast.Call):
            name = self.resolve(e.func) or ""
            if name in ("os.path.exists", "os.path.lexists") and len(e.args) == 1:
                loc = self.value(e.args[0], st)
                if loc.kind == "loc":
                    return loc.value not in st.removed
            if isinstance(e.func, ast.Attribute) and e.func.attr == "exists" and not e.args:
                loc = self.value(e.func.value, st)
                if loc.kind == "loc":
                    return loc.value not in st.removed
            if name == "bool" and len(e.args) == 1:
                return self.truth(e.args[0], st)
        return None

    def value(self, e: ast.AST, st: _State) -> Val:
        if isinstance(e, ast.Constant):
            return Val("const", e.value)
        if isinstance(e, (ast.Tuple, ast.List, ast.Set)):
            vs = [self.value(x, st) for x in e.elts]
            if all(v.kind == "const" for v in vs):
                return Val("const", tuple(v.value for v in vs))
            return UNKNOWN
        if isinstance(e, ast.Name):
            if e.id in st.env:
                return st.env[e.id]
            if e.id in self.assigned:
                return UNKNOWN
            if e.id in self.val:
                self.used.add(e.id)
                return Val("const", self.val[e.id])
            return Val("loc", e.id)  # a parameter / closure variable: a location when it is used as one
        if isinstance(e, ast.IfExp):
            t = self.truth(e.test, st)
            if t is None:
                a, b = self.value(e.body, st), self.value(e.orelse, st)
                return a if a == b else UNKNOWN
            return self.value(e.body if t else e.orelse, st)
        if isinstance(e, ast.NamedExpr):
            return self.value(e.value, st)
        if isinstance(e, ast.Call):
            return self.call(e, st)
        return UNKNOWN

    def _mode(self, call: ast.Call, st: _State, default: str) -> str:
        m = next((k.value for k in call.keywords if k.arg == "mode"), None)
        if m is None:
            if any(k.arg is None for k in call.keywords):
                raise AnalysisError(f"`{norm_text(call)[:60]}`: the access mode is passed through **kwargs")
            return default
        v = self.value(m, st)
        if v.kind == "loc" and v.value not in self.val:
            raise AnalysisError(f"`{norm_text(call)[:60]}`: the access mode is a parameter whose value is not a constant of "
                                "the call site")
        if v.kind != "const" or not isinstance(v.value, str):
            raise AnalysisError(f"`{norm_text(call)[:60]}`: the access mode is not a constant on this path")
        return v.value

    def _target(self, call: ast.Call, names: tuple[str, ...]) -> Optional[ast.AST]:
        for k in call.keywords:
            if k.arg in names:
                return k.value
        return call.args[0] if call.args and not isinstance(call.args[0], ast.Starred) else None

    def call(self, c: ast.Call, st: _State) -> Val:
        name = self.resolve(c.func) or ""
        last = name.split(".")[-1]
        if name in ("str", "os.fspath", "os.path.abspath", "os.path.normpath", "os.path.realpath", "os.path.expanduser",
                    "pathlib.Path", "os.fsdecode") and len(c.args) == 1 and not c.keywords:
            v = self.value(c.args[0], st)
            return v if v.kind == "loc" else UNKNOWN
        if not name.startswith("zarr"):
            return UNKNOWN
        if last == "ZipStore":
            tgt = self._target(c, ("path",))
            loc = self.value(tgt, st) if tgt is not None else UNKNOWN
            mode = self._mode(c, st, "r")
            gone = loc.kind == "loc" and loc.value in st.removed
            if mode in ZIP_TRUNCATING:
                return Val("store", empty=True, why=f"zip store opened with mode {mode!r}")
            if mode in ZIP_KEEPING:
                if gone:
                    return Val("store", empty=True, why="the zip file was removed before")
                return Val("store", empty=False if loc.kind == "loc" else None,
                           why=f"zip store opened with mode {mode!r} (keeps the entries of an existing file)")
            raise AnalysisError(f"`{norm_text(c)[:60]}`: a writer opens the zip store with mode {mode!r}")
        if last in ("LocalStore", "DirectoryStore"):
            tgt = self._target(c, ("root", "path"))
            loc = self.value(tgt, st) if tgt is not None else UNKNOWN
            if loc.kind != "loc":
                return Val("store", empty=None, why="store at a location the analyser does not follow")
            gone = loc.value in st.removed
            return Val("store", empty=gone, why="the directory was removed before" if gone else
                       "a directory store keeps what the directory holds")
        if last == "MemoryStore":
            return Val("store", empty=True, why="new in-memory store")
        if last in ("open", "open_group", "group", "create_group", "open_consolidated"):
            tgt = self._target(c, ("store",))
            where = self.value(tgt, st) if tgt is not None else Val("store", empty=True, why="new in-memory store")
            if where.kind == "loc":
                gone = where.value in st.removed
                removes = any(isinstance(x, ast.Call) and (self.resolve(x.func) or "") in ("shutil.rmtree", "os.remove", "os.unlink")
                              for x in walk_no_nested(self.fn))
                base, bwhy = gone, ("the location was removed before" if gone else
                                    "the removal of the location is not executed on this path" if removes else "")
            elif where.kind == "store":
                base, bwhy = where.empty, where.why
            else:
                base, bwhy = None, "opened on something the analyser does not follow"
            if last in ("group", "create_group"):
                ov = next((k.value for k in c.keywords if k.arg == "overwrite"), None)
                t = False if ov is None else self.truth(ov, st)
                if t is True:
                    return Val("group", empty=True, attrs_empty=True,
                               why=(bwhy + "; " if base is True and bwhy else "") + "group created with overwrite=True")
                if base is True:
                    return Val("group", empty=True, attrs_empty=True, why=bwhy)
                if t is None or base is None:
                    return Val("group", empty=None, attrs_empty=None, why="overwrite flag of the group not decided")
                return Val("group", empty=False, attrs_empty=False,
                           why=(bwhy + "; " if bwhy else "") + "group created without overwrite (an existing group is kept)")
            mode = self._mode(c, st, "a")
            if mode in GROUP_TRUNCATING:
                return Val("group", empty=True, attrs_empty=True, why=f"group opened with mode {mode!r}")
            if mode in GROUP_KEEPING:
                if base is True:
                    return Val("group", empty=True, attrs_empty=True, why=bwhy)
                if base is None:
                    return Val("group", empty=None, attrs_empty=None, why=bwhy)
                return Val("group", empty=False, attrs_empty=False,
                           why=(bwhy + "; " if bwhy else "") + f"group opened with mode {mode!r} (keeps every existing entry)")
            raise AnalysisError(f"`{norm_text(c)[:60]}`: a writer opens the group with mode {mode!r}")
        return UNKNOWN

    # ------------------------------------------------------------------ effects
    def _group_of(self, e: ast.AST, st: _State, node: ast.AST) -> Val:
        v = self.value(e, st)
        if v.kind != "group":
            raise AnalysisError(f"`{norm_text(node)[:60]}`: how the group that receives the entries was opened is not "
                                "understood")
        return v

    def _site(self, g: Val, node: ast.AST, st: _State) -> None:
        verdict = g.attrs_empty if self.table == "attrs" else g.empty
        self.sites.append(Site(node, verdict, g.why, {k: self.val[k] for k in sorted(self.used)}, st.assumed))

    def effects(self, stmt: ast.stmt, st: _State) -> _State:
        """Removal of a location, clearing of a group, entries added to the probed table."""
        for c in walk_no_nested(stmt):
            if isinstance(c, ast.Call):
                name = self.resolve(c.func) or ""
                if name in ("shutil.rmtree", "os.remove", "os.unlink") and c.args:
                    loc = self.value(c.args[0], st)
                    if loc.kind == "loc":
                        st = st.fork(removed=st.removed | {loc.value})
                if isinstance(c.func, ast.Attribute):
                    f = c.func
                    if f.attr == "clear" and not c.args and isinstance(f.value, ast.Attribute) and f.value.attr == "attrs" \
                            and isinstance(f.value.value, ast.Name) and f.value.value.id in st.env \
                            and st.env[f.value.value.id].kind == "group":
                        g = st.env[f.value.value.id]
                        st = st.fork()
                        st.env[f.value.value.id] = replace(g, attrs_empty=True, why="attributes cleared before writing")
                    adds_attr = (f.attr in ("update", "put", "__setitem__", "setdefault") and isinstance(f.value, ast.Attribute)
                                 and f.value.attr == "attrs") or f.attr == "update_attributes"
                    adds_member = f.attr in ("create_array", "create_dataset", "create_group", "require_group", "array",
                                             "create", "empty", "zeros", "ones", "full", "require_array", "require_dataset")
                    if self.table == "attrs" and adds_attr:
                        base = f.value.value if f.attr != "update_attributes" else f.value
                        self._site(self._group_of(base, st, c), c, st)
                    if self.table == "members" and adds_member and self.value(f.value, st).kind == "group":
                        self._site(self.value(f.value, st), c, st)
        if isinstance(stmt, (ast.Assign, ast.AugAssign, ast.AnnAssign)):
            targets = stmt.targets if isinstance(stmt, ast.Assign) else [stmt.target]
            for t in targets:
                if isinstance(t, ast.Subscript):
                    if self.table == "attrs" and isinstance(t.value, ast.Attribute) and t.value.attr == "attrs":
                        self._site(self._group_of(t.value.value, st, stmt), stmt, st)
                    elif self.table == "members" and self.value(t.value, st).kind == "group":
                        self._site(self.value(t.value, st), stmt, st)
        return st

    # ------------------------------------------------------------------ statements
    def block(self, stmts, st: _State) -> list[tuple[_State, Optional[str]]]:
        cur: list[tuple[_State, Optional[str]]] = [(st, None)]
        for s in stmts:
            nxt = []
            for x, end in cur:
                if end is not None:
                    nxt.append((x, end))
                else:
                    nxt += self.stmt(s, x)
            if len(nxt) > MAX_PATHS:
                raise AnalysisError("too many control paths through a writer")
            cur = nxt
        return cur

    def _bind(self, target: ast.AST, v: Val, st: _State) -> _State:
        st = st.fork()
        if isinstance(target, ast.Name):
            st.env[target.id] = v
        else:
            for n in ast.walk(target):
                if isinstance(n, ast.Name) and isinstance(n.ctx, ast.Store):
                    st.env[n.id] = UNKNOWN
        return st

    def stmt(self, s: ast.stmt, st: _State) -> list[tuple[_State, Optional[str]]]:
        if isinstance(s, ast.If):
            t = self.truth(s.test, st)
            if t is True:
                return self.block(s.body, st)
            if t is False:
                return self.block(s.orelse, st)
            note = st.assumed + (norm_text(s.test)[:50],)
            return self.block(s.body, st.fork(assumed=note)) + self.block(s.orelse, st.fork(assumed=note))
        if isinstance(s, ast.With):
            for it in s.items:
                st = self.effects(ast.Expr(value=it.context_expr), st)
                v = self.value(it.context_expr, st)
                if it.optional_vars is not None:
                    st = self._bind(it.optional_vars, v, st)
            return self.block(s.body, st)
        if isinstance(s, ast.Try):
            out = []
            for x, end in self.block(s.body, st):
                out += self.block(s.orelse, x) if end is None and s.orelse else [(x, end)]
            for h in s.handlers:  # a statement of the body raised: approximated by the state at the entry of the try
                x = st.fork(assumed=st.assumed)
                if h.name:
                    x.env[h.name] = UNKNOWN
                out += self.block(h.body, x)
            if s.finalbody:
                out2 = []
                for x, end in out:
                    for y, end2 in self.block(s.finalbody, x):
                        out2.append((y, end2 if end2 is not None else end))
                out = out2
            return out
        if isinstance(s, ast.For):
            x = self._bind(s.target, UNKNOWN, st)
            out = [(st, None)]
            for y, end in self.block(s.body, x):
                out.append((y, None if end in ("break", "continue") else end))
            res = []
            for y, end in out:
                res += self.block(s.orelse, y) if end is None and s.orelse else [(y, end)]
            return res
        if isinstance(s, ast.While):
            probe = _Interp(self.fn, self.imports, self.table, self.val, set())
            try:
                probe.block(s.body, st.fork())
                touched = bool(probe.sites)
            except (AnalysisError, _NeedAtom):
                touched = True
            if touched or any(isinstance(c, ast.Call) and (self.resolve(c.func) or "").startswith(("zarr", "shutil", "os.re",
                              "os.un")) for c in ast.walk(s)):
                raise AnalysisError("a `while` loop of a writer opens, removes or fills the store")
            return [(st, None)]
        if isinstance(s, ast.Return):
            st = self.effects(s, st)
            return [(st, "return")]
        if isinstance(s, ast.Raise):
            return [(st, "raise")]
        if isinstance(s, ast.Break):
            return [(st, "break")]
        if isinstance(s, ast.Continue):
            return [(st, "continue")]
        if isinstance(s, (ast.FunctionDef, ast.ClassDef, ast.Import, ast.ImportFrom, ast.Pass, ast.Global, ast.Nonlocal,
                          ast.Delete, ast.Assert)):
            return [(st, None)]
        if isinstance(s, (ast.Assign, ast.AnnAssign, ast.AugAssign, ast.Expr)):
            st = self.effects(s, st)
            if isinstance(s, ast.Assign):
                v = self.value(s.value, st)
                for t in s.targets:
                    if not isinstance(t, (ast.Subscript, ast.Attribute)):
                        st = self._bind(t, v, st)
            elif isinstance(s, ast.AnnAssign) and s.value is not None and isinstance(s.target, ast.Name):
                st = self._bind(s.target, self.value(s.value, st), st)
            elif isinstance(s, ast.AugAssign) and isinstance(s.target, ast.Name):
                st = self._bind(s.target, UNKNOWN, st)
            return [(st, None)]
        raise AnalysisError(f"unsupported statement {type(s).__name__} in a writer")


def local_imports(*funcs: ast.AST) -> dict[str, str]:
    out: dict[str, str] = {}
    for f in funcs:
        for st in ast.walk(f):
            if isinstance(st, ast.Import):
                for a in st.names:
                    out[a.asname or a.name.split(".")[0]] = a.name if a.asname else a.name.split(".")[0]
            elif isinstance(st, ast.ImportFrom) and st.module and not st.level:
                for a in st.names:
                    out[a.asname or a.name] = f"{st.module}.{a.name}"
    return out


def writer_verdicts(fn: ast.FunctionDef, imports: dict[str, str], table: str, bound: dict[str, object]) -> list[Site]:
    """Every statement of `fn` that adds an entry to the probed table, once per valuation of the truth-tested
    parameters and per control path, with the verdict on the group it writes to.  `bound`: parameters whose call-site
    argument is a constant."""

    def explore(valuation: dict) -> list[Site]:
        if len(valuation) - len(bound) > MAX_ATOMS:
            raise AnalysisError(f"{fn.name}: too many truth-tested parameters")
        it = _Interp(fn, imports, table, valuation, set())
        try:
            it.block(fn.body, _State())
        except _NeedAtom as n:
            return explore({**valuation, n.name: True}) + explore({**valuation, n.name: False})
        return it.sites

    return explore(dict(bound))


def has_entry_store(fn: ast.AST, table: str) -> bool:
    """Does the function add entries to the probed table of some group (syntactic pre-filter for writer functions)."""
    for n in walk_no_nested(fn):
        if table == "attrs":
            if isinstance(n, ast.Subscript) and isinstance(n.ctx, ast.Store) and isinstance(n.value, ast.Attribute) and \
                    n.value.attr == "attrs":
                return True
            if isinstance(n, ast.Call) and isinstance(n.func, ast.Attribute) and (
                    n.func.attr == "update_attributes" or (n.func.attr in ("update", "put", "__setitem__") and isinstance(
                        n.func.value, ast.Attribute) and n.func.value.attr == "attrs")):
                return True
        elif isinstance(n, ast.Call) and isinstance(n.func, ast.Attribute) and n.func.attr in (
                "create_array", "create_dataset", "array", "create_group", "require_group"):
            return True
    return False
